import Femio.Driver.Proto
import Femio.Model.NpyDir
import Femio.Model.NpyKeys
/-! driver commands for C05 (stateless)

```
dir  := c c c c c c c          (nodes elements nodal elemental constraints settings sentinel;  c := a | t | <tag>)
obj  := <tag> <hasNodal> <hasElemental> <hasConstraints>
c05.step  <unlinkFirst> <removeStale> <dir> read <obj>                      -> ok <dir after> <dir returned>
c05.step  <unlinkFirst> <removeStale> <dir> save <obj> <meshOnly>           -> ok <dir after>
c05.step  <unlinkFirst> <removeStale> <dir> crash <obj> <meshOnly> <k> <torn> -> ok <dir after>
c05.steps <unlinkFirst> <removeStale> <obj> <meshOnly>                      -> ok <n> (R|W) <file> …
plan := <n> ((R|W) <file>)*          the whole traced effect list of one save, sentinel steps included
c05.good  <obj> <meshOnly> <plan>                                           -> ok <0|1>   (shape `wrap mid` and `GoodMid mid`)
c05.gstep <dir> read <obj> <plan>                                           -> ok <dir after> <dir returned>
c05.gstep <dir> save <obj> <meshOnly> <plan>                                -> ok <dir after>
c05.gstep <dir> crash <obj> <meshOnly> <k> <torn> <plan>                    -> ok <dir after>
unw  := <n> ((R|W) <file>)*          the clean-up effects traced after the interruption (empty: process death)
c05.ustep <dir> interrupt <obj> <meshOnly> <k> <torn> <plan> <unw>          -> ok <dir after> <GoodUnwind 0|1>
c05.ustep <dir> rinterrupt <obj> <k> <torn> <plan> <unw>                    -> ok <dir after> <GoodUnwind 0|1> <dir returned by the read had it not been interrupted>
c05.unwind <nSteps> <k> <unw>                                               -> ok <GoodUnwind 0|1>
c05.oread <byExistence> <meshOnly> <readNpy> <save> <dir> <obj> <plan>      -> ok <dir after> <dir returned>   (`readOpt`)
``` -/
namespace Femio.C05
open Femio.Proto

def files : List File := [.nodes, .elements, .nodal, .elemental, .constraints, .settings, .sentinel]
def fileName : File → String
  | .nodes => "nodes" | .elements => "elements" | .nodal => "nodal" | .elemental => "elemental"
  | .constraints => "constraints" | .settings => "settings" | .sentinel => "sentinel"

def contentP : P (Option Content) := do
  let t ← tok
  if t = "a" then pure none else if t = "t" then pure (some .torn) else
  match t.toNat? with | some n => pure (some (.ok n)) | none => failure

def dirP : P Dir := do
  let cs ← (files.mapM fun _ => contentP)
  pure fun f => (cs[files.idxOf f]?).join

def objP : P Obj := do let t ← nat; let a ← bool; let b ← bool; let c ← bool; pure ⟨t, a, b, c⟩

def showContent : Option Content → String
  | none => "a" | some .torn => "t" | some (.ok n) => toString n
def showDir (d : Dir) : String := String.intercalate " " (files.map fun f => showContent (d f))

def fileP : P File := do
  let t ← tok
  match files.find? (fun f => fileName f = t) with | some f => pure f | none => failure

def planP (tag : Nat) : P (List Step) := listOf (do
  let k ← tok; let f ← fileP
  if k = "W" then pure (Step.write f tag) else if k = "R" then pure (Step.remove f) else failure)

/-- the middle of a traced plan, if it has the shape `wrap mid tag` -/
def unwrap (tag : Nat) (plan : List Step) : Option (List Step) :=
  match plan with
  | .remove .sentinel :: rest =>
    if rest.getLast? = some (.write .sentinel tag) then some rest.dropLast else none
  | _ => none

def handle : List String → Option String
  | "c05.good" :: rest => do
    let (x, mo, plan) ← run (do let x ← objP; let mo ← bool; let p ← planP x.tag; pure (x, mo, p)) rest
    match unwrap x.tag plan with
    | some mid => some s!"ok {showBool (GoodMid mid x mo)}"
    | none => some "ok 0"
  | "c05.gstep" :: rest => do
    let (d, rest') ← (do let d ← dirP; let rest ← get; set ([] : List String); pure (d, rest) : P _).run rest |>.map (·.1)
    match rest' with
    | "read" :: t => do
      let (src, plan) ← run (do let x ← objP; let p ← planP x.tag; pure (x, p)) t
      let mid ← unwrap src.tag plan
      let r := readDirG d src mid
      some s!"ok {showDir r.2} {showDir r.1}"
    | "save" :: t => do
      let (x, mo, plan) ← run (do let x ← objP; let mo ← bool; let p ← planP x.tag; pure (x, mo, p)) t
      let mid ← unwrap x.tag plan
      some s!"ok {showDir (gstep d (.save x mo mid))}"
    | "crash" :: t => do
      let (x, mo, k, torn, plan) ← run (do
        let x ← objP; let mo ← bool; let k ← nat; let tn ← bool; let p ← planP x.tag; pure (x, mo, k, tn, p)) t
      let mid ← unwrap x.tag plan
      some s!"ok {showDir (gstep d (.crash x mo mid k torn))}"
    | _ => some "err bad-op"
  | "c05.ustep" :: rest => do
    let (d, rest') ← (do let d ← dirP; let rest ← get; set ([] : List String); pure (d, rest) : P _).run rest |>.map (·.1)
    match rest' with
    | "interrupt" :: t => do
      let (x, mo, k, torn, plan, unw) ← run (do
        let x ← objP; let mo ← bool; let k ← nat; let tn ← bool; let p ← planP x.tag; let u ← planP x.tag
        pure (x, mo, k, tn, p, u)) t
      let mid ← unwrap x.tag plan
      some s!"ok {showDir (ustep d (.interrupt x mo mid k torn unw))} {showBool (GoodUnwind (mid.length + 2) k unw)}"
    | "rinterrupt" :: t => do
      let (src, k, torn, plan, unw) ← run (do
        let x ← objP; let k ← nat; let tn ← bool; let p ← planP x.tag; let u ← planP x.tag; pure (x, k, tn, p, u)) t
      let mid ← unwrap src.tag plan
      let ret := (readDirG d src mid).1
      some s!"ok {showDir (ustep d (.readInterrupt src mid k torn unw))} {showBool (GoodUnwind (mid.length + 2) k unw)} {showDir ret}"
    | _ => some "err bad-op"
  | "c05.oread" :: rest => do
    let (ex, o, d, src, plan) ← run (do
      let ex ← bool; let mo ← bool; let rn ← bool; let sv ← bool; let d ← dirP; let x ← objP; let p ← planP x.tag
      pure (ex, (⟨mo, rn, sv⟩ : ROpt), d, x, p)) rest
    let mid ← unwrap src.tag plan
    let r := readOpt ex o d src mid
    some s!"ok {showDir r.2} {showDir r.1}"
  | "c05.unwind" :: rest => do
    let (n, k, unw) ← run (do let n ← nat; let k ← nat; let u ← planP 0; pure (n, k, u)) rest
    some s!"ok {showBool (GoodUnwind n k unw)}"
  | "c05.step" :: rest => do
    let (cfg, d, rest') ← (do
      let u ← bool; let r ← bool; let d ← dirP; let rest ← get; set ([] : List String); pure ((⟨u, r⟩ : Cfg), d, rest) : P _).run rest |>.map (·.1)
    match rest' with
    | "read" :: t => do
      let src ← run objP t
      let r := readDir cfg d src
      some s!"ok {showDir r.2} {showDir r.1}"
    | "save" :: t => do
      let (x, mo) ← run (do let x ← objP; let mo ← bool; pure (x, mo)) t
      some s!"ok {showDir (dstep cfg d (.save x mo))}"
    | "crash" :: t => do
      let (x, mo, k, torn) ← run (do let x ← objP; let mo ← bool; let k ← nat; let tn ← bool; pure (x, mo, k, tn)) t
      some s!"ok {showDir (dstep cfg d (.crash x mo k torn))}"
    | _ => some "err bad-op"
  | "c05.steps" :: rest => do
    let (cfg, x, mo) ← run (do let u ← bool; let r ← bool; let x ← objP; let mo ← bool; pure ((⟨u, r⟩ : Cfg), x, mo)) rest
    let ss := saveSteps cfg x mo
    some ("ok " ++ showList (fun s => match s with
      | Step.write f _ => s!"W {fileName f}" | Step.remove f => s!"R {fileName f}") ss)
  | _ => none

end Femio.C05

/-! key scheme (`Model/NpyKeys.lean`)

```
ts := 0 | 1                                    whether the attribute is a time series (FEMAttribute.time_series)
tsFlag := 0 | 1                                Cfg.tsFlag: the tree writes / honours the key "<prefix>/time_series" (repair F6d)
c05k.todict <tsFlag> list(<name> list(<type> <ts>))  -> ok list(key)   keys of ecollToDict (elemental collection)
c05k.ntodict <tsFlag> list(<name> <ts>)              -> ok list(key)   keys of collToDict (nodal collection)
c05k.split <typeByComponent> list(key) <type>        -> ok list(key)   entriesOfType
c05k.kind <kindBySuffix> <tsFlag> <key>              -> ok s | i | d | x   (time_series key tested first, then ids, then data)
c05k.fromdict <tsFlag> list(<key> <value>)           -> ok none | ok some <ids> <data> <ts>    attrFromDict ⟨1, 1, tsFlag⟩
```
A tree without the repair (`tsFlag = 0`) writes `attrToDict pre a.twoKey`: the two keys, whatever the flag. -/
namespace Femio.C05K
open Femio.Proto

def mkAttr (tsFlag ts : Bool) : Attr := if tsFlag then ⟨0, 0, ts⟩ else Attr.twoKey ⟨0, 0, ts⟩

def handle : List String → Option String
  | "c05k.todict" :: rest => do
    let (f, c) ← run (do
      let f ← bool
      let c ← listOf (do let n ← str; let ts ← listOf (do let t ← str; let b ← bool; pure (t, b)); pure (n, ts))
      pure (f, c)) rest
    let coll : List (Str × EAttr) := c.map fun (n, ts) => (n, ts.map fun (t, b) => (t, mkAttr f b))
    some ("ok " ++ showList (fun (e : Str × Nat) => escape e.1) (ecollToDict coll))
  | "c05k.ntodict" :: rest => do
    let (f, c) ← run (do let f ← bool; let c ← listOf (do let n ← str; let b ← bool; pure (n, b)); pure (f, c)) rest
    some ("ok " ++ showList (fun (e : Str × Nat) => escape e.1) (collToDict (c.map fun (n, b) => (n, mkAttr f b))))
  | "c05k.split" :: rest => do
    let (b, ks, t) ← run (do let b ← bool; let ks ← listOf str; let t ← str; pure (b, ks, t)) rest
    some ("ok " ++ showList (fun (e : Str × Nat) => escape e.1) (entriesOfType ⟨b, true, true⟩ (ks.map fun k => (k, 0)) t))
  | "c05k.kind" :: rest => do
    let (b, f, k) ← run (do let b ← bool; let f ← bool; let k ← str; pure (b, f, k)) rest
    let cfg : Cfg := ⟨true, b, f⟩
    some ("ok " ++ (if isTsKey cfg k then "s" else if isIdsKey cfg k then "i" else if isDataKey cfg k then "d" else "x"))
  | "c05k.fromdict" :: rest => do
    let (f, d) ← run (do let f ← bool; let d ← listOf (do let k ← str; let v ← nat; pure (k, v)); pure (f, d)) rest
    match attrFromDict ⟨true, true, f⟩ d with
    | none => some "ok none"
    | some a => some s!"ok some {a.ids} {a.data} {showBool a.ts}"
  | _ => none

end Femio.C05K
