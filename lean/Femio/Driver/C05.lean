import Femio.Driver.Proto
import Femio.Model.NpyDir
import Femio.Model.NpyKeys
/-! driver commands for C05 (stateless)

```
dir  := c c c c c c c          (nodes elements nodal elemental constraints settings sentinel;  c := a | t | <tag>)
obj  := <tag> <hasNodal> <hasElemental> <hasConstraints>
c05.step  <unlinkFirst> <removeStale> <dir> read <obj>                      -> ok <dir after> <dir returned>
c05.step  <unlinkFirst> <removeStale> <dir> save <obj> <meshOnly>           -> ok <dir after>
c05.step  <unlinkFirst> <removeStale> <dir> crash <obj> <meshOnly> <k> <torn> -> ok <dir after>
c05.steps <unlinkFirst> <removeStale> <obj> <meshOnly>                      -> ok <n> (R|W) <file> …
``` -/
namespace Femio.C05
open Femio.Proto

def files : List File := [.nodes, .elements, .nodal, .elemental, .constraints, .settings, .sentinel]
def fileName : File → String
  | .nodes => "nodes" | .elements => "elements" | .nodal => "nodal" | .elemental => "elemental"
  | .constraints => "constraints" | .settings => "settings" | .sentinel => "sentinel"

def contentP : P (Option Content) := do
  let t ← tok
  if t = "a" then pure none else if t = "t" then pure (some .torn) else
  match t.toNat? with | some n => pure (some (.ok n)) | none => failure

def dirP : P Dir := do
  let cs ← (files.mapM fun _ => contentP)
  pure fun f => (cs[files.idxOf f]?).join

def objP : P Obj := do let t ← nat; let a ← bool; let b ← bool; let c ← bool; pure ⟨t, a, b, c⟩

def showContent : Option Content → String
  | none => "a" | some .torn => "t" | some (.ok n) => toString n
def showDir (d : Dir) : String := String.intercalate " " (files.map fun f => showContent (d f))

def handle : List String → Option String
  | "c05.step" :: rest => do
    let (cfg, d, rest') ← (do
      let u ← bool; let r ← bool; let d ← dirP; let rest ← get; set ([] : List String); pure ((⟨u, r⟩ : Cfg), d, rest) : P _).run rest |>.map (·.1)
    match rest' with
    | "read" :: t => do
      let src ← run objP t
      let r := readDir cfg d src
      some s!"ok {showDir r.2} {showDir r.1}"
    | "save" :: t => do
      let (x, mo) ← run (do let x ← objP; let mo ← bool; pure (x, mo)) t
      some s!"ok {showDir (dstep cfg d (.save x mo))}"
    | "crash" :: t => do
      let (x, mo, k, torn) ← run (do let x ← objP; let mo ← bool; let k ← nat; let tn ← bool; pure (x, mo, k, tn)) t
      some s!"ok {showDir (dstep cfg d (.crash x mo k torn))}"
    | _ => some "err bad-op"
  | "c05.steps" :: rest => do
    let (cfg, x, mo) ← run (do let u ← bool; let r ← bool; let x ← objP; let mo ← bool; pure ((⟨u, r⟩ : Cfg), x, mo)) rest
    let ss := saveSteps cfg x mo
    some ("ok " ++ showList (fun s => match s with
      | Step.write f _ => s!"W {fileName f}" | Step.remove f => s!"R {fileName f}") ss)
  | _ => none

end Femio.C05

/-! key scheme (`Model/NpyKeys.lean`)

```
c05k.todict list(<name> list(<type>))          -> ok list(key)       keys of ecollToDict (elemental collection)
c05k.ntodict list(<name>)                      -> ok list(key)       keys of collToDict (nodal collection)
c05k.split <typeByComponent> list(key) <type>  -> ok list(key)       entriesOfType
c05k.kind <kindBySuffix> <key>                 -> ok i | d | x
``` -/
namespace Femio.C05K
open Femio.Proto

def handle : List String → Option String
  | "c05k.todict" :: rest => do
    let c ← run (listOf (do let n ← str; let ts ← listOf str; pure (n, ts))) rest
    let coll : List (Str × EAttr) := c.map fun (n, ts) => (n, ts.map fun t => (t, (⟨0, 0⟩ : Attr)))
    some ("ok " ++ showList (fun (e : Str × Nat) => escape e.1) (ecollToDict coll))
  | "c05k.ntodict" :: rest => do
    let c ← run (listOf str) rest
    some ("ok " ++ showList (fun (e : Str × Nat) => escape e.1) (collToDict (c.map fun n => (n, (⟨0, 0⟩ : Attr)))))
  | "c05k.split" :: rest => do
    let (b, ks, t) ← run (do let b ← bool; let ks ← listOf str; let t ← str; pure (b, ks, t)) rest
    some ("ok " ++ showList (fun (e : Str × Nat) => escape e.1) (entriesOfType ⟨b, true⟩ (ks.map fun k => (k, 0)) t))
  | "c05k.kind" :: rest => do
    let (b, k) ← run (do let b ← bool; let k ← str; pure (b, k)) rest
    some ("ok " ++ (if isIdsKey ⟨true, b⟩ k then "i" else if isDataKey ⟨true, b⟩ k then "d" else "x"))
  | _ => none

end Femio.C05K
