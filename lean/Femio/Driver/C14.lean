import Femio.Driver.Proto
import Femio.Driver.Mesh
import Femio.Driver.C11
import Femio.Model.Convert
import Femio.Model.GraphOps
/-! driver commands for C14 (exact rational conversions)

```
c14.n2e <mesh> <list column>                   column = list rat, one value per node in storage order
   -> ok <list (eid <list (1 value | 0)>)>     elements in flattened order; per column the mean of the own nodes
c14.e2n <mode> <wkind> <mesh> <list rat> <list column>
   mode = mean | effective;  wkind = 0 (weight=False) | 1 (explicit weights, the <list rat>, flattened order)
          | 2 (implicit: signed volumes of the model's centroid kernels)
   column = one value per element in flattened order
   -> ok <list (node id <list (1 value)>)>  nodes in storage order
      | ok nometric                             an element type without a volume kernel (wkind 2)
c14.e2n1 <mode> <mesh> <list column>           the same with order1_only=True, weight=False (also reached through an explicit
   -> ok <list (node id <list (1 value)>)>     incidence= calculate_incidence_matrix(order1_only=True)): rows = first-order nodes
      | ok unsupported                          a second-order type other than tet2 / hex2
c14.hist <mesh> <list call>                    a history of single-column conversions that all receive the SAME incidence object
   call = <mode> <wkind> <list rat> <column>   (`e2nHistory`); wkind / weights as for c14.e2n
   -> ok <list (list rat)>                     what every call returned (one value per node, storage order)
         <pairs>                               the stored entries (row, col) of the incidence object AFTER the history
         <list (<list rat> <list rat>)>        per call: its weights object and its data object after the call
      | ok nometric
``` -/
namespace Femio.C14
open Femio.Proto Core

def colFn (c : List Rat) (j : Nat) : Rat := c.getD j 0

def showCell : Option Rat → String
  | none => "0"
  | some v => "1 " ++ showRat v

def handle : List String → Option String
  | "c14.n2e" :: rest => do
    let (m, cols) ← run (do let m ← meshP; let cols ← listOf (listOf rat); pure (m, cols)) rest
    let flat := flatten m.elemBlocks
    let ids := m.nodeIds
    some ("ok " ++ showList (fun (e : Elem) =>
      toString e.id ++ " " ++ showList (fun col => showCell (nodal2elemental ids col e.conn)) cols) flat)
  | "c14.e2n" :: rest => do
    let (mode, wkind, m, ws, cols) ← run (do
      let mode ← tok; let wk ← nat; let m ← meshP; let ws ← listOf rat; let cols ← listOf (listOf rat)
      pure (mode, wk, m, ws, cols)) rest
    let flat := flatten m.elemBlocks
    let ids := m.nodeIds
    let n := ids.length
    let e := flat.length
    let pairs := incidence ids m.elemBlocks
    -- row-wise adjacency for speed; `inc i j` is `incOfPairs pairs i j`
    let rows : Array (List Nat) := pairs.foldl (fun a (i, j) => if i < a.size then a.modify i (j :: ·) else a) (Array.replicate n [])
    let inc : Nat → Nat → Bool := fun i j => (rows.getD i []).contains j
    let weights : Option (List Rat) :=
      match wkind with
      | 0 => some (List.replicate e 1)
      | 1 => if ws.length = e then some ws else none
      | _ => flat.mapM fun el =>
          ((Femio.C11.gather m.nodes el.conn).bind (Femio.C11.volume (Femio.C11.typeName el.ty) .centroid)).map (·.val)
    match weights with
    | none => some (if wkind = 2 then "ok nometric" else "err bad-op")
    | some wl =>
      let out : List (Nat × List (Option Rat)) := (ids.zip (List.range n)).map fun (nid, i) =>
        (nid, cols.map fun col =>
          -- a node without elements: the sparse row is empty in femio (value 0); the model computes 0 · (1/0) = 0
          if mode = "mean" then some (e2nMean e inc (colFn wl) (colFn col) i)
          else some (e2nEffective n e inc (colFn col) i))
      if mode = "mean" ∨ mode = "effective" then
        some ("ok " ++ showList (fun (nid, vs) => toString nid ++ " " ++ showList showCell vs) out)
      else some "err bad-op"
  | "c14.e2n1" :: rest => do
    let (mode, m, cols) ← run (do let mode ← tok; let m ← meshP; let cols ← listOf (listOf rat); pure (mode, m, cols)) rest
    if !Femio.C13.supportedO1 m.elemBlocks then some "ok unsupported" else
    let flat := flatten m.elemBlocks
    let ids := Femio.C13.order1Nodes m.nodeIds m.elemBlocks
    let n := Femio.C13.nRows true m.nodeIds m.elemBlocks
    let e := flat.length
    let pairs := Femio.C13.incidenceOpt true m.nodeIds m.elemBlocks
    let rows : Array (List Nat) := pairs.foldl (fun a (i, j) => if i < a.size then a.modify i (j :: ·) else a) (Array.replicate n [])
    let inc : Nat → Nat → Bool := fun i j => (rows.getD i []).contains j
    let out : List (Nat × List (Option Rat)) := (ids.zip (List.range n)).map fun (nid, i) =>
      (nid, cols.map fun col =>
        if mode = "mean" then some (e2nMean e inc (fun _ => 1) (colFn col) i)
        else some (e2nEffective n e inc (colFn col) i))
    if mode = "mean" ∨ mode = "effective" then
      some ("ok " ++ showList (fun (nid, vs) => toString nid ++ " " ++ showList showCell vs) out)
    else some "err bad-op"
  | "c14.hist" :: rest => do
    let (m, calls) ← run (do
      let m ← meshP
      let calls ← listOf (do let mode ← tok; let wk ← nat; let ws ← listOf rat; let col ← listOf rat; pure (mode, wk, ws, col))
      pure (m, calls)) rest
    let flat := flatten m.elemBlocks
    let ids := m.nodeIds
    let n := ids.length
    let e := flat.length
    let pairs := incidence ids m.elemBlocks
    let rows : Array (List Nat) := pairs.foldl (fun a (i, j) => if i < a.size then a.modify i (j :: ·) else a) (Array.replicate n [])
    -- the incidence object: its stored entries together with row-wise adjacency lists (read by `rel`; `rel o i j` is `incOfPairs o.2 i j`)
    let rel : Array (List Nat) × List (Nat × Nat) → Nat → Nat → Bool := fun o i j => (o.1.getD i []).contains j
    if calls.any (fun c => c.1 ≠ "mean" ∧ c.1 ≠ "effective") then some "err bad-op" else
    let implicit : Option (List Rat) := flat.mapM fun el =>
      ((Femio.C11.gather m.nodes el.conn).bind (Femio.C11.volume (Femio.C11.typeName el.ty) .centroid)).map (·.val)
    let cs : Option (List (ConvCall Rat)) := calls.mapM fun (mode, wk, ws, col) =>
      let md := if mode = "mean" then ConvMode.mean else ConvMode.effective
      match wk with
      | 0 => some ⟨md, List.replicate e 1, col⟩
      | 1 => if ws.length = e then some ⟨md, ws, col⟩ else none
      | _ => implicit.map fun wl => ⟨md, wl, col⟩
    match cs with
    | none => some (if calls.any (fun c => c.2.1 = 2) ∧ implicit.isNone then "ok nometric" else "err bad-op")
    | some cs =>
      let h := e2nHistory rel n e cs (rows, pairs)
      some ("ok " ++ showList (fun (out : List Rat × ConvArgs _ Rat) => showList showRat out.1) h.1 ++ " "
        ++ showPairs h.2.2 ++ " "
        ++ showList (fun (out : List Rat × ConvArgs _ Rat) => showList showRat out.2.weights ++ " " ++ showList showRat out.2.data) h.1)
  | _ => none

end Femio.C14
