import Femio.Driver.Proto
import Femio.Driver.C01
import Femio.Model.FistrCnt
import Femio.Model.FistrCntCanon
/-! driver commands for C03 (FrontISTR `.cnt`)

```
c03.write <cntin>                      -> ok 1 <list line> | ok 0
c03.read <list group> <list line>      -> ok 1 <cntread>   | ok 0
c03.expected <cntin>                   -> ok <wf> <cntread>   (wf = decide (Femio.C03.WFCnt c), cntread = expectedCnt c:
                                          hypothesis and right-hand side of theorem C03_file_roundtrip)
cntin   := str bool opt(table) opt(table) opt(table) opt(slist) opt(slist) opt(slist)
table   := list(id list(opt sci))      slist := list(id sci)
cntread := str opt(rtable) opt(rtable) opt(rtable) opt(rslist) opt(rslist) opt(rslist)
rtable  := list(id list(opt dec))      rslist := list(id dec)
``` -/
namespace Femio.C03
open Femio.Proto Femio.Fistr Femio.C01

def tableP : P (List (Cnt.Row Sci)) := listOf (do let i ← nat; let c ← listOf (optOf sciP); pure (i, c))
def slistP : P (List (Nat × Sci)) := listOf (do let i ← nat; let s ← sciP; pure (i, s))

def cntInP : P CntIn := do
  let sol ← str; let os ← bool
  let b ← optOf tableP; let s ← optOf tableP; let l ← optOf tableP
  let ft ← optOf slistP; let cf ← optOf slistP; let pf ← optOf slistP
  pure ⟨sol, os, b, s, l, ft, cf, pf⟩

def showTable (t : List (Cnt.Row Dec)) : String :=
  showList (fun (r : Cnt.Row Dec) => s!"{r.1} " ++ showList (showOpt showDec) r.2) t
def showSList (t : List (Nat × Dec)) : String := showList (fun (r : Nat × Dec) => s!"{r.1} " ++ showDec r.2) t

def showCntRead (r : CntRead) : String :=
  String.intercalate " " [escape r.solution, showOpt showTable r.boundary, showOpt showTable r.spring,
    showOpt showTable r.cload, showOpt showSList r.fixtemp, showOpt showSList r.cflux, showOpt showSList r.pureCflux]

def handle : List String → Option String
  | "c03.write" :: rest => do
    let c ← run cntInP rest
    match writeCnt c with
    | some ls => some ("ok 1 " ++ showLines ls)
    | none => some "ok 0"
  | "c03.expected" :: rest => do
    let c ← run cntInP rest
    some ("ok " ++ showBool (decide (WFCnt c)) ++ " " ++ showCntRead (expectedCnt c))
  | "c03.read" :: rest => do
    let (ng, ls) ← run (do let g ← listOf groupP; let l ← listOf str; pure (g, l)) rest
    match readCnt ng ls with
    | some r => some ("ok 1 " ++ showCntRead r)
    | none => some "ok 0"
  | _ => none

end Femio.C03
