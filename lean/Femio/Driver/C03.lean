import Femio.Driver.Proto
import Femio.Driver.C01
import Femio.Model.FistrCnt
import Femio.Model.FistrCntCanon
import Femio.Model.FistrCntHist
import Femio.Model.FistrCntGroups
/-! driver commands for C03 (FrontISTR `.cnt`)

```
c03.write <cntin>                      -> ok 1 <list line> | ok 0
c03.read <list group> <list line>      -> ok 1 <cntread>   | ok 0
c03.readfiles <rect> <list line msh> <list line cnt> -> ok 1 <cntread> | ok 0   readCntFiles ⟨rect, false⟩: the node groups are read
                                          from the !NGROUP blocks of the mesh text (rect = 1 upstream, 0 = ragged blocks accepted)
c03.expected <cntin>                   -> ok <wf> <cntread>   (wf = decide (Femio.C03.WFCnt c), cntread = expectedCnt c:
                                          hypothesis and right-hand side of theorem C03_file_roundtrip)
c03.hist <cfg> <cntin> <list op>       -> ok <cntin>       ((ObjSt.fresh c).run ops).view ⟨cfg⟩: cfg = 1 the object's current
                                          public state (.ids, .data) = what write_cnt takes; cfg = 0 what its pandas frames hold
op      := t <k> <aop(list(opt sci))> | s <k> <aop(sci)> | pt <k> opt(table) | ps <k> opt(slist) | sol str      k := 0 | 1 | 2
aop(ρ)  := cell <r> <c> opt(sci)  (tables only: arr[r, c] = v) | row <r> ρ (arr[r] = ρ) | set list(ρ) | wt list(nat) list(ρ)
cntin   := str bool opt(table) opt(table) opt(table) opt(slist) opt(slist) opt(slist)
table   := list(id list(opt sci))      slist := list(id sci)
cntread := str opt(rtable) opt(rtable) opt(rtable) opt(rslist) opt(rslist) opt(rslist)
rtable  := list(id list(opt dec))      rslist := list(id dec)
``` -/
namespace Femio.C03
open Femio.Proto Femio.Fistr Femio.C01

def tableP : P (List (Cnt.Row Sci)) := listOf (do let i ← nat; let c ← listOf (optOf sciP); pure (i, c))
def slistP : P (List (Nat × Sci)) := listOf (do let i ← nat; let s ← sciP; pure (i, s))

def cntInP : P CntIn := do
  let sol ← str; let os ← bool
  let b ← optOf tableP; let s ← optOf tableP; let l ← optOf tableP
  let ft ← optOf slistP; let cf ← optOf slistP; let pf ← optOf slistP
  pure ⟨sol, os, b, s, l, ft, cf, pf⟩

def showTable (t : List (Cnt.Row Dec)) : String :=
  showList (fun (r : Cnt.Row Dec) => s!"{r.1} " ++ showList (showOpt showDec) r.2) t
def showSList (t : List (Nat × Dec)) : String := showList (fun (r : Nat × Dec) => s!"{r.1} " ++ showDec r.2) t

def showCntRead (r : CntRead) : String :=
  String.intercalate " " [escape r.solution, showOpt showTable r.boundary, showOpt showTable r.spring,
    showOpt showTable r.cload, showOpt showSList r.fixtemp, showOpt showSList r.cflux, showOpt showSList r.pureCflux]

def showSci (x : Sci) : String := s!"{showBool x.neg} {x.mant} {x.exp}"
def showTableS (t : List (Cnt.Row Sci)) : String :=
  showList (fun (r : Cnt.Row Sci) => s!"{r.1} " ++ showList (showOpt showSci) r.2) t
def showSListS (t : List (Nat × Sci)) : String := showList (fun (r : Nat × Sci) => s!"{r.1} " ++ showSci r.2) t
def showCntIn (c : CntIn) : String :=
  String.intercalate " " [escape c.solution, showBool c.onlySolid, showOpt showTableS c.boundary, showOpt showTableS c.spring,
    showOpt showTableS c.cload, showOpt showSListS c.fixtemp, showOpt showSListS c.cflux, showOpt showSListS c.pureCflux]

def tkindP : P TKind := do
  let k ← nat
  match k with | 0 => pure .boundary | 1 => pure .spring | 2 => pure .cload | _ => failure
def skindP : P SKind := do
  let k ← nat
  match k with | 0 => pure .fixtemp | 1 => pure .cflux | 2 => pure .pureCflux | _ => failure

def aopP {ρ} (rowP : P ρ) (cellOp : Nat → Nat → Option Sci → Option (ρ → ρ)) : P (AttrOp ρ) := do
  let t ← tok
  match t with
  | "cell" => do
    let r ← nat; let c ← nat; let v ← optOf sciP
    match cellOp r c v with
    | some f => pure (.poke r f)
    | none => failure
  | "row" => do let r ← nat; let x ← rowP; pure (.poke r (fun _ => x))
  | "set" => do let d ← listOf rowP; pure (.setData d)
  | "wt" => do let pos ← listOf nat; let d ← listOf rowP; pure (.writeThrough pos d)
  | _ => failure

def objOpP : P ObjOp := do
  let t ← tok
  match t with
  | "t" => do
    let k ← tkindP
    let op ← aopP (listOf (optOf sciP)) (fun _ c v => some (fun (row : TRow) => row.set c v))
    pure (.table k op)
  | "s" => do let k ← skindP; let op ← aopP sciP (fun _ _ _ => none); pure (.scalar k op)
  | "pt" => do let k ← tkindP; let r ← optOf tableP; pure (.putTable k r)
  | "ps" => do let k ← skindP; let r ← optOf slistP; pure (.putScalar k r)
  | "sol" => do let s ← str; pure (.solution s)
  | _ => failure

def handle : List String → Option String
  | "c03.hist" :: rest => do
    let (cfg, c, ops) ← run (do let b ← bool; let c ← cntInP; let o ← listOf objOpP; pure (b, c, o)) rest
    some ("ok " ++ showCntIn (((ObjSt.fresh c).run ops).view ⟨cfg⟩))
  | "c03.write" :: rest => do
    let c ← run cntInP rest
    match writeCnt c with
    | some ls => some ("ok 1 " ++ showLines ls)
    | none => some "ok 0"
  | "c03.expected" :: rest => do
    let c ← run cntInP rest
    some ("ok " ++ showBool (decide (WFCnt c)) ++ " " ++ showCntRead (expectedCnt c))
  | "c03.readfiles" :: rest => do
    let (rect, msh, cnt) ← run (do let b ← bool; let m ← listOf str; let l ← listOf str; pure (b, m, l)) rest
    match readCntFiles ⟨rect, false⟩ msh cnt with
    | some r => some ("ok 1 " ++ showCntRead r)
    | none => some "ok 0"
  | "c03.read" :: rest => do
    let (ng, ls) ← run (do let g ← listOf groupP; let l ← listOf str; pure (g, l)) rest
    match readCnt ng ls with
    | some r => some ("ok 1 " ++ showCntRead r)
    | none => some "ok 0"
  | _ => none

end Femio.C03
