import Femio.Driver.Proto
import Femio.Model.UcdText
import Femio.Model.UcdFem
import Femio.Model.UcdHist
import Femio.Model.UcdAlignInt
/-! driver commands for C04 (AVS UCD)

```
fem  := nodes: list(nat list(str))  blocks: list(nat list(nat list(nat)))  nodalVars: list(var)  elemVars: list(var)
var  := str nat ids: list(nat) rows: list(list(str))    -- name, width, the variable's own ids and rows
text := str                                             -- the whole file: characters, lines terminated by newline
tab  := str nat list(nat) list(list(str))               -- one variable read back: name, width, ids, rows
c04.write <alignById 0|1> <fem>  -> ok <hyp 0|1> <text>
      -- text = `fileText (toMesh cfg fem)`; hyp = the Boolean hypotheses of `C04_own_order_chars` /
      -- `C04_roundtrip_chars` (`femOKB fem && meshOKB (toMesh cfg fem)`) evaluated on this input
c04.read <text>   -> ok 0 | ok 1 <nodes> <blocks> <nodal tables: list(tab)> <elemental tables: list(tab)>
      -- `readText` (lines between newlines, whitespace lexer, positional reader) then `readTables`
c04.ws            -> ok list(nat)                       -- the lexer's whitespace code points (`Femio.Text.wsCodes`)
c04.session <fromPublicViews 0|1> list(step)  -> ok list(nat text)
      -- step := a <fem> | i <fem> | w <path: nat>   (`Step.assign`, `Step.inplace`, `Step.write` of `Model/UcdHist.lean`)
      -- reply: `currentFiles` of the session run from the empty object: every path written, with its final content
c04.align <byKey 0|1> <own ids: list(int)> <mesh ids: list(int)>  -> ok list(opt nat)
      -- `alignPositions` (`Model/UcdAlignInt.lean`): per mesh id the position of the row `_align_data` puts next to it
``` -/
namespace Femio.C04
open Femio.Proto Ucd Femio.Text

def varP : P Var := do let n ← str; let w ← nat; pure ⟨n, w⟩
def idRowP : P (Nat × List Str) := do let i ← nat; let v ← listOf str; pure (i, v)
def elemP : P Elem := do let i ← nat; let c ← listOf nat; pure ⟨i, c⟩
def blockP : P (Nat × List Elem) := do let t ← nat; let es ← listOf elemP; pure (t, es)
def tabP : P (VarTab Str) := do
  let n ← str; let w ← nat; let ids ← listOf nat; let rows ← listOf (listOf str)
  pure ⟨n, w, ids, rows⟩
def femP : P (Fem Str) := do
  let ns ← listOf idRowP; let bs ← listOf blockP
  let nv ← listOf tabP; let ev ← listOf tabP
  pure ⟨ns, bs, nv, ev⟩

def showVar (x : Var) : String := s!"{escape x.name} {x.width}"
def showIdRow (r : Nat × List Str) : String := s!"{r.1} {showList escape r.2}"
def showTab (t : VarTab Str) : String :=
  s!"{escape t.name} {t.width} {showList toString t.ids} {showList (showList escape) t.rows}"
def showElem (e : Elem) : String := s!"{e.id} {showList toString e.conn}"
def showBlock (b : Nat × List Elem) : String := s!"{b.1} {showList showElem b.2}"

def stepP : P Step := do
  let k ← tok
  if k = "a" then do let f ← femP; pure (.assign f)
  else if k = "i" then do let f ← femP; pure (.inplace f)
  else if k = "w" then do let p ← nat; pure (.write p)
  else failure
def emptyFem : Fem Str := ⟨[], [], [], []⟩

def handle : List String → Option String
  | "c04.write" :: rest => do
    let (al, f) ← run (do let al ← bool; let f ← femP; pure (al, f)) rest
    let m := toMesh ⟨al⟩ f
    some (s!"ok {showBool (femOKB f && meshOKB m)} {escape (fileText m)}")
  | "c04.read" :: rest => do
    let text ← run str rest
    match readText text with
    | none => some "ok 0"
    | some r => some (s!"ok 1 {showList showIdRow r.nodes} {showList showBlock r.blocks} "
        ++ s!"{showList showTab (readTables r.nodalVars r.nodalRows)} {showList showTab (readTables r.elemVars r.elemRows)}")
  | "c04.session" :: rest => do
    let (pv, steps) ← run (do let pv ← bool; let st ← listOf stepP; pure (pv, st)) rest
    let s := runSteps ⟨pv⟩ ⟨⟨emptyFem, emptyFem⟩, []⟩ steps
    some ("ok " ++ showList (fun (q : Nat × Str) => s!"{q.1} {escape q.2}") (currentFiles s.files))
  | "c04.align" :: rest => do
    let (k, own, mesh) ← run (do let k ← bool; let a ← listOf int; let b ← listOf int; pure (k, a, b)) rest
    some ("ok " ++ showList (showOpt toString) (alignPositions ⟨k⟩ own mesh))
  | ["c04.ws"] => some ("ok " ++ showList toString wsCodes)
  | _ => none

end Femio.C04
