import Mathlib.Algebra.Ring.Defs
/-! GENERATED from the working tree of the femio repository by harness/gen_kernels.py on every run (symbolic
    execution of the real geometry_processor.py) - do not edit.  One polynomial per kernel / component, already
    multiplied by the model's fixed multiplier; `kernelScales` lists, per kernel, the positive integer by which the
    polynomial had to be multiplied further to clear denominators (1 everywhere = integer coefficients). -/
set_option linter.unusedVariables false
namespace Femio.Gen

def kVolTetLinear {R : Type} [CommRing R] (x0 y0 z0 x1 y1 z1 x2 y2 z2 x3 y3 z3 : R) : R :=
    -x0 * y1 * z2 + x0 * y1 * z3 + x0 * z1 * y2 - x0 * z1 * y3 - x0 * y2 * z3 + x0 * z2 * y3
      + y0 * x1 * z2 - y0 * x1 * z3 - y0 * z1 * x2 + y0 * z1 * x3 + y0 * x2 * z3 - y0 * z2 * x3
      - z0 * x1 * y2 + z0 * x1 * y3 + z0 * y1 * x2 - z0 * y1 * x3 - z0 * x2 * y3 + z0 * y2 * x3
      + x1 * y2 * z3 - x1 * z2 * y3 - y1 * x2 * z3 + y1 * z2 * x3 + z1 * x2 * y3 - z1 * y2 * x3

def kVolTetGaussian {R : Type} [CommRing R] (x0 y0 z0 x1 y1 z1 x2 y2 z2 x3 y3 z3 : R) : R :=
    -x0 * y1 * z2 + x0 * y1 * z3 + x0 * z1 * y2 - x0 * z1 * y3 - x0 * y2 * z3 + x0 * z2 * y3
      + y0 * x1 * z2 - y0 * x1 * z3 - y0 * z1 * x2 + y0 * z1 * x3 + y0 * x2 * z3 - y0 * z2 * x3
      - z0 * x1 * y2 + z0 * x1 * y3 + z0 * y1 * x2 - z0 * y1 * x3 - z0 * x2 * y3 + z0 * y2 * x3
      + x1 * y2 * z3 - x1 * z2 * y3 - y1 * x2 * z3 + y1 * z2 * x3 + z1 * x2 * y3 - z1 * y2 * x3

def kVolTetCentroid {R : Type} [CommRing R] (x0 y0 z0 x1 y1 z1 x2 y2 z2 x3 y3 z3 : R) : R :=
    -x0 * y1 * z2 + x0 * y1 * z3 + x0 * z1 * y2 - x0 * z1 * y3 - x0 * y2 * z3 + x0 * z2 * y3
      + y0 * x1 * z2 - y0 * x1 * z3 - y0 * z1 * x2 + y0 * z1 * x3 + y0 * x2 * z3 - y0 * z2 * x3
      - z0 * x1 * y2 + z0 * x1 * y3 + z0 * y1 * x2 - z0 * y1 * x3 - z0 * x2 * y3 + z0 * y2 * x3
      + x1 * y2 * z3 - x1 * z2 * y3 - y1 * x2 * z3 + y1 * z2 * x3 + z1 * x2 * y3 - z1 * y2 * x3

def kVolTet2Linear {R : Type} [CommRing R] (x0 y0 z0 x1 y1 z1 x2 y2 z2 x3 y3 z3 x4 y4 z4 x5 y5 z5
    x6 y6 z6 x7 y7 z7 x8 y8 z8 x9 y9 z9 : R) : R :=
    -x0 * y1 * z2 + x0 * y1 * z3 + x0 * z1 * y2 - x0 * z1 * y3 - x0 * y2 * z3 + x0 * z2 * y3
      + y0 * x1 * z2 - y0 * x1 * z3 - y0 * z1 * x2 + y0 * z1 * x3 + y0 * x2 * z3 - y0 * z2 * x3
      - z0 * x1 * y2 + z0 * x1 * y3 + z0 * y1 * x2 - z0 * y1 * x3 - z0 * x2 * y3 + z0 * y2 * x3
      + x1 * y2 * z3 - x1 * z2 * y3 - y1 * x2 * z3 + y1 * z2 * x3 + z1 * x2 * y3 - z1 * y2 * x3

def kVolTet2Gaussian {R : Type} [CommRing R] (x0 y0 z0 x1 y1 z1 x2 y2 z2 x3 y3 z3 x4 y4 z4 x5 y5 z5
    x6 y6 z6 x7 y7 z7 x8 y8 z8 x9 y9 z9 : R) : R :=
    -x0 * y1 * z2 + x0 * y1 * z3 + x0 * z1 * y2 - x0 * z1 * y3 - x0 * y2 * z3 + x0 * z2 * y3
      + y0 * x1 * z2 - y0 * x1 * z3 - y0 * z1 * x2 + y0 * z1 * x3 + y0 * x2 * z3 - y0 * z2 * x3
      - z0 * x1 * y2 + z0 * x1 * y3 + z0 * y1 * x2 - z0 * y1 * x3 - z0 * x2 * y3 + z0 * y2 * x3
      + x1 * y2 * z3 - x1 * z2 * y3 - y1 * x2 * z3 + y1 * z2 * x3 + z1 * x2 * y3 - z1 * y2 * x3

def kVolTet2Centroid {R : Type} [CommRing R] (x0 y0 z0 x1 y1 z1 x2 y2 z2 x3 y3 z3 x4 y4 z4 x5 y5 z5
    x6 y6 z6 x7 y7 z7 x8 y8 z8 x9 y9 z9 : R) : R :=
    -x0 * y1 * z2 + x0 * y1 * z3 + x0 * z1 * y2 - x0 * z1 * y3 - x0 * y2 * z3 + x0 * z2 * y3
      + y0 * x1 * z2 - y0 * x1 * z3 - y0 * z1 * x2 + y0 * z1 * x3 + y0 * x2 * z3 - y0 * z2 * x3
      - z0 * x1 * y2 + z0 * x1 * y3 + z0 * y1 * x2 - z0 * y1 * x3 - z0 * x2 * y3 + z0 * y2 * x3
      + x1 * y2 * z3 - x1 * z2 * y3 - y1 * x2 * z3 + y1 * z2 * x3 + z1 * x2 * y3 - z1 * y2 * x3

def kVolPyrLinear {R : Type} [CommRing R] (x0 y0 z0 x1 y1 z1 x2 y2 z2 x3 y3 z3 x4 y4 z4 : R) : R :=
    -x0 * y1 * z2 + x0 * y1 * z4 + x0 * z1 * y2 - x0 * z1 * y4 - x0 * y2 * z3 + x0 * z2 * y3
      - x0 * y3 * z4 + x0 * z3 * y4 + y0 * x1 * z2 - y0 * x1 * z4 - y0 * z1 * x2 + y0 * z1 * x4
      + y0 * x2 * z3 - y0 * z2 * x3 + y0 * x3 * z4 - y0 * z3 * x4 - z0 * x1 * y2 + z0 * x1 * y4
      + z0 * y1 * x2 - z0 * y1 * x4 - z0 * x2 * y3 + z0 * y2 * x3 - z0 * x3 * y4 + z0 * y3 * x4
      + x1 * y2 * z4 - x1 * z2 * y4 - y1 * x2 * z4 + y1 * z2 * x4 + z1 * x2 * y4 - z1 * y2 * x4
      + x2 * y3 * z4 - x2 * z3 * y4 - y2 * x3 * z4 + y2 * z3 * x4 + z2 * x3 * y4 - z2 * y3 * x4

def kVolPyrGaussian {R : Type} [CommRing R] (x0 y0 z0 x1 y1 z1 x2 y2 z2 x3 y3 z3 x4 y4 z4 : R) : R :=
    -x0 * y1 * z2 + x0 * y1 * z4 + x0 * z1 * y2 - x0 * z1 * y4 - x0 * y2 * z3 + x0 * z2 * y3
      - x0 * y3 * z4 + x0 * z3 * y4 + y0 * x1 * z2 - y0 * x1 * z4 - y0 * z1 * x2 + y0 * z1 * x4
      + y0 * x2 * z3 - y0 * z2 * x3 + y0 * x3 * z4 - y0 * z3 * x4 - z0 * x1 * y2 + z0 * x1 * y4
      + z0 * y1 * x2 - z0 * y1 * x4 - z0 * x2 * y3 + z0 * y2 * x3 - z0 * x3 * y4 + z0 * y3 * x4
      + x1 * y2 * z4 - x1 * z2 * y4 - y1 * x2 * z4 + y1 * z2 * x4 + z1 * x2 * y4 - z1 * y2 * x4
      + x2 * y3 * z4 - x2 * z3 * y4 - y2 * x3 * z4 + y2 * z3 * x4 + z2 * x3 * y4 - z2 * y3 * x4

def kVolPyrCentroid {R : Type} [CommRing R] (x0 y0 z0 x1 y1 z1 x2 y2 z2 x3 y3 z3 x4 y4 z4 : R) : R :=
    -2 * x0 * y1 * z2 - 2 * x0 * y1 * z3 + 4 * x0 * y1 * z4 + 2 * x0 * z1 * y2 + 2 * x0 * z1 * y3
      - 4 * x0 * z1 * y4 - 2 * x0 * y2 * z3 + 2 * x0 * z2 * y3 - 4 * x0 * y3 * z4
      + 4 * x0 * z3 * y4 + 2 * y0 * x1 * z2 + 2 * y0 * x1 * z3 - 4 * y0 * x1 * z4
      - 2 * y0 * z1 * x2 - 2 * y0 * z1 * x3 + 4 * y0 * z1 * x4 + 2 * y0 * x2 * z3
      - 2 * y0 * z2 * x3 + 4 * y0 * x3 * z4 - 4 * y0 * z3 * x4 - 2 * z0 * x1 * y2
      - 2 * z0 * x1 * y3 + 4 * z0 * x1 * y4 + 2 * z0 * y1 * x2 + 2 * z0 * y1 * x3
      - 4 * z0 * y1 * x4 - 2 * z0 * x2 * y3 + 2 * z0 * y2 * x3 - 4 * z0 * x3 * y4
      + 4 * z0 * y3 * x4 - 2 * x1 * y2 * z3 + 4 * x1 * y2 * z4 + 2 * x1 * z2 * y3
      - 4 * x1 * z2 * y4 + 2 * y1 * x2 * z3 - 4 * y1 * x2 * z4 - 2 * y1 * z2 * x3
      + 4 * y1 * z2 * x4 - 2 * z1 * x2 * y3 + 4 * z1 * x2 * y4 + 2 * z1 * y2 * x3
      - 4 * z1 * y2 * x4 + 4 * x2 * y3 * z4 - 4 * x2 * z3 * y4 - 4 * y2 * x3 * z4
      + 4 * y2 * z3 * x4 + 4 * z2 * x3 * y4 - 4 * z2 * y3 * x4

def kVolPrismLinear {R : Type} [CommRing R] (x0 y0 z0 x1 y1 z1 x2 y2 z2 x3 y3 z3 x4 y4 z4 x5 y5 z5 : R) : R :=
    x0 * y1 * z2 - x0 * y1 * z3 - x0 * z1 * y2 + x0 * z1 * y3 + x0 * y2 * z3 - x0 * z2 * y3
      - y0 * x1 * z2 + y0 * x1 * z3 + y0 * z1 * x2 - y0 * z1 * x3 - y0 * x2 * z3 + y0 * z2 * x3
      + z0 * x1 * y2 - z0 * x1 * y3 - z0 * y1 * x2 + z0 * y1 * x3 + z0 * x2 * y3 - z0 * y2 * x3
      - x1 * y2 * z4 + x1 * z2 * y4 + x1 * y3 * z4 - x1 * z3 * y4 + y1 * x2 * z4 - y1 * z2 * x4
      - y1 * x3 * z4 + y1 * z3 * x4 - z1 * x2 * y4 + z1 * y2 * x4 + z1 * x3 * y4 - z1 * y3 * x4
      - x2 * y3 * z5 + x2 * z3 * y5 + x2 * y4 * z5 - x2 * z4 * y5 + y2 * x3 * z5 - y2 * z3 * x5
      - y2 * x4 * z5 + y2 * z4 * x5 - z2 * x3 * y5 + z2 * y3 * x5 + z2 * x4 * y5 - z2 * y4 * x5
      - x3 * y4 * z5 + x3 * z4 * y5 + y3 * x4 * z5 - y3 * z4 * x5 - z3 * x4 * y5 + z3 * y4 * x5

def kVolPrismGaussian {R : Type} [CommRing R] (x0 y0 z0 x1 y1 z1 x2 y2 z2 x3 y3 z3 x4 y4 z4 x5 y5 z5 : R) : R :=
    x0 * y1 * z2 - x0 * y1 * z3 - x0 * z1 * y2 + x0 * z1 * y3 + x0 * y2 * z3 - x0 * z2 * y3
      - y0 * x1 * z2 + y0 * x1 * z3 + y0 * z1 * x2 - y0 * z1 * x3 - y0 * x2 * z3 + y0 * z2 * x3
      + z0 * x1 * y2 - z0 * x1 * y3 - z0 * y1 * x2 + z0 * y1 * x3 + z0 * x2 * y3 - z0 * y2 * x3
      - x1 * y2 * z4 + x1 * z2 * y4 + x1 * y3 * z4 - x1 * z3 * y4 + y1 * x2 * z4 - y1 * z2 * x4
      - y1 * x3 * z4 + y1 * z3 * x4 - z1 * x2 * y4 + z1 * y2 * x4 + z1 * x3 * y4 - z1 * y3 * x4
      - x2 * y3 * z5 + x2 * z3 * y5 + x2 * y4 * z5 - x2 * z4 * y5 + y2 * x3 * z5 - y2 * z3 * x5
      - y2 * x4 * z5 + y2 * z4 * x5 - z2 * x3 * y5 + z2 * y3 * x5 + z2 * x4 * y5 - z2 * y4 * x5
      - x3 * y4 * z5 + x3 * z4 * y5 + y3 * x4 * z5 - y3 * z4 * x5 - z3 * x4 * y5 + z3 * y4 * x5

def kVolPrismCentroid {R : Type} [CommRing R] (x0 y0 z0 x1 y1 z1 x2 y2 z2 x3 y3 z3 x4 y4 z4 x5 y5 z5 : R) : R :=
    4 * x0 * y1 * z2 - 2 * x0 * y1 * z3 - 2 * x0 * y1 * z4 - 4 * x0 * z1 * y2 + 2 * x0 * z1 * y3
      + 2 * x0 * z1 * y4 + 2 * x0 * y2 * z3 + 2 * x0 * y2 * z5 - 2 * x0 * z2 * y3
      - 2 * x0 * z2 * y5 + 2 * x0 * y3 * z4 - 2 * x0 * y3 * z5 - 2 * x0 * z3 * y4
      + 2 * x0 * z3 * y5 - 4 * y0 * x1 * z2 + 2 * y0 * x1 * z3 + 2 * y0 * x1 * z4
      + 4 * y0 * z1 * x2 - 2 * y0 * z1 * x3 - 2 * y0 * z1 * x4 - 2 * y0 * x2 * z3
      - 2 * y0 * x2 * z5 + 2 * y0 * z2 * x3 + 2 * y0 * z2 * x5 - 2 * y0 * x3 * z4
      + 2 * y0 * x3 * z5 + 2 * y0 * z3 * x4 - 2 * y0 * z3 * x5 + 4 * z0 * x1 * y2
      - 2 * z0 * x1 * y3 - 2 * z0 * x1 * y4 - 4 * z0 * y1 * x2 + 2 * z0 * y1 * x3
      + 2 * z0 * y1 * x4 + 2 * z0 * x2 * y3 + 2 * z0 * x2 * y5 - 2 * z0 * y2 * x3
      - 2 * z0 * y2 * x5 + 2 * z0 * x3 * y4 - 2 * z0 * x3 * y5 - 2 * z0 * y3 * x4
      + 2 * z0 * y3 * x5 - 2 * x1 * y2 * z4 - 2 * x1 * y2 * z5 + 2 * x1 * z2 * y4
      + 2 * x1 * z2 * y5 + 2 * x1 * y3 * z4 - 2 * x1 * z3 * y4 + 2 * x1 * y4 * z5
      - 2 * x1 * z4 * y5 + 2 * y1 * x2 * z4 + 2 * y1 * x2 * z5 - 2 * y1 * z2 * x4
      - 2 * y1 * z2 * x5 - 2 * y1 * x3 * z4 + 2 * y1 * z3 * x4 - 2 * y1 * x4 * z5
      + 2 * y1 * z4 * x5 - 2 * z1 * x2 * y4 - 2 * z1 * x2 * y5 + 2 * z1 * y2 * x4
      + 2 * z1 * y2 * x5 + 2 * z1 * x3 * y4 - 2 * z1 * y3 * x4 + 2 * z1 * x4 * y5
      - 2 * z1 * y4 * x5 - 2 * x2 * y3 * z5 + 2 * x2 * z3 * y5 + 2 * x2 * y4 * z5
      - 2 * x2 * z4 * y5 + 2 * y2 * x3 * z5 - 2 * y2 * z3 * x5 - 2 * y2 * x4 * z5
      + 2 * y2 * z4 * x5 - 2 * z2 * x3 * y5 + 2 * z2 * y3 * x5 + 2 * z2 * x4 * y5
      - 2 * z2 * y4 * x5 - 4 * x3 * y4 * z5 + 4 * x3 * z4 * y5 + 4 * y3 * x4 * z5
      - 4 * y3 * z4 * x5 - 4 * z3 * x4 * y5 + 4 * z3 * y4 * x5

def kVolHexprismLinear {R : Type} [CommRing R] (x0 y0 z0 x1 y1 z1 x2 y2 z2 x3 y3 z3 x4 y4 z4 x5 y5 z5
    x6 y6 z6 x7 y7 z7 x8 y8 z8 x9 y9 z9 x10 y10 z10 x11 y11 z11 : R) : R :=
    -x0 * y1 * z3 + x0 * y1 * z6 + x0 * z1 * y3 - x0 * z1 * y6 - x0 * y3 * z5 + x0 * z3 * y5
      - x0 * y5 * z6 + x0 * z5 * y6 + y0 * x1 * z3 - y0 * x1 * z6 - y0 * z1 * x3 + y0 * z1 * x6
      + y0 * x3 * z5 - y0 * z3 * x5 + y0 * x5 * z6 - y0 * z5 * x6 - z0 * x1 * y3 + z0 * x1 * y6
      + z0 * y1 * x3 - z0 * y1 * x6 - z0 * x3 * y5 + z0 * y3 * x5 - z0 * x5 * y6 + z0 * y5 * x6
      - x1 * y2 * z3 + x1 * y2 * z8 + x1 * z2 * y3 - x1 * z2 * y8 - x1 * y6 * z7 + x1 * z6 * y7
      - x1 * y7 * z8 + x1 * z7 * y8 + y1 * x2 * z3 - y1 * x2 * z8 - y1 * z2 * x3 + y1 * z2 * x8
      + y1 * x6 * z7 - y1 * z6 * x7 + y1 * x7 * z8 - y1 * z7 * x8 - z1 * x2 * y3 + z1 * x2 * y8
      + z1 * y2 * x3 - z1 * y2 * x8 - z1 * x6 * y7 + z1 * y6 * x7 - z1 * x7 * y8 + z1 * y7 * x8
      + x2 * y3 * z8 - x2 * z3 * y8 - y2 * x3 * z8 + y2 * z3 * x8 + z2 * x3 * y8 - z2 * y3 * x8
      - x3 * y4 * z5 + x3 * y4 * z10 + x3 * z4 * y5 - x3 * z4 * y10 - x3 * y8 * z9 + x3 * z8 * y9
      - x3 * y9 * z10 + x3 * z9 * y10 + y3 * x4 * z5 - y3 * x4 * z10 - y3 * z4 * x5 + y3 * z4 * x10
      + y3 * x8 * z9 - y3 * z8 * x9 + y3 * x9 * z10 - y3 * z9 * x10 - z3 * x4 * y5 + z3 * x4 * y10
      + z3 * y4 * x5 - z3 * y4 * x10 - z3 * x8 * y9 + z3 * y8 * x9 - z3 * x9 * y10 + z3 * y9 * x10
      + x4 * y5 * z10 - x4 * z5 * y10 - y4 * x5 * z10 + y4 * z5 * x10 + z4 * x5 * y10
      - z4 * y5 * x10 + x5 * y6 * z11 - x5 * z6 * y11 - x5 * y10 * z11 + x5 * z10 * y11
      - y5 * x6 * z11 + y5 * z6 * x11 + y5 * x10 * z11 - y5 * z10 * x11 + z5 * x6 * y11
      - z5 * y6 * x11 - z5 * x10 * y11 + z5 * y10 * x11 + x6 * y7 * z8 - x6 * z7 * y8
      + x6 * y8 * z9 - x6 * z8 * y9 + x6 * y9 * z10 - x6 * z9 * y10 + x6 * y10 * z11
      - x6 * z10 * y11 - y6 * x7 * z8 + y6 * z7 * x8 - y6 * x8 * z9 + y6 * z8 * x9 - y6 * x9 * z10
      + y6 * z9 * x10 - y6 * x10 * z11 + y6 * z10 * x11 + z6 * x7 * y8 - z6 * y7 * x8
      + z6 * x8 * y9 - z6 * y8 * x9 + z6 * x9 * y10 - z6 * y9 * x10 + z6 * x10 * y11
      - z6 * y10 * x11

def kVolHexprismGaussian {R : Type} [CommRing R] (x0 y0 z0 x1 y1 z1 x2 y2 z2 x3 y3 z3 x4 y4 z4 x5 y5 z5
    x6 y6 z6 x7 y7 z7 x8 y8 z8 x9 y9 z9 x10 y10 z10 x11 y11 z11 : R) : R :=
    -x0 * y1 * z3 + x0 * y1 * z6 + x0 * z1 * y3 - x0 * z1 * y6 - x0 * y3 * z5 + x0 * z3 * y5
      - x0 * y5 * z6 + x0 * z5 * y6 + y0 * x1 * z3 - y0 * x1 * z6 - y0 * z1 * x3 + y0 * z1 * x6
      + y0 * x3 * z5 - y0 * z3 * x5 + y0 * x5 * z6 - y0 * z5 * x6 - z0 * x1 * y3 + z0 * x1 * y6
      + z0 * y1 * x3 - z0 * y1 * x6 - z0 * x3 * y5 + z0 * y3 * x5 - z0 * x5 * y6 + z0 * y5 * x6
      - x1 * y2 * z3 + x1 * y2 * z8 + x1 * z2 * y3 - x1 * z2 * y8 - x1 * y6 * z7 + x1 * z6 * y7
      - x1 * y7 * z8 + x1 * z7 * y8 + y1 * x2 * z3 - y1 * x2 * z8 - y1 * z2 * x3 + y1 * z2 * x8
      + y1 * x6 * z7 - y1 * z6 * x7 + y1 * x7 * z8 - y1 * z7 * x8 - z1 * x2 * y3 + z1 * x2 * y8
      + z1 * y2 * x3 - z1 * y2 * x8 - z1 * x6 * y7 + z1 * y6 * x7 - z1 * x7 * y8 + z1 * y7 * x8
      + x2 * y3 * z8 - x2 * z3 * y8 - y2 * x3 * z8 + y2 * z3 * x8 + z2 * x3 * y8 - z2 * y3 * x8
      - x3 * y4 * z5 + x3 * y4 * z10 + x3 * z4 * y5 - x3 * z4 * y10 - x3 * y8 * z9 + x3 * z8 * y9
      - x3 * y9 * z10 + x3 * z9 * y10 + y3 * x4 * z5 - y3 * x4 * z10 - y3 * z4 * x5 + y3 * z4 * x10
      + y3 * x8 * z9 - y3 * z8 * x9 + y3 * x9 * z10 - y3 * z9 * x10 - z3 * x4 * y5 + z3 * x4 * y10
      + z3 * y4 * x5 - z3 * y4 * x10 - z3 * x8 * y9 + z3 * y8 * x9 - z3 * x9 * y10 + z3 * y9 * x10
      + x4 * y5 * z10 - x4 * z5 * y10 - y4 * x5 * z10 + y4 * z5 * x10 + z4 * x5 * y10
      - z4 * y5 * x10 + x5 * y6 * z11 - x5 * z6 * y11 - x5 * y10 * z11 + x5 * z10 * y11
      - y5 * x6 * z11 + y5 * z6 * x11 + y5 * x10 * z11 - y5 * z10 * x11 + z5 * x6 * y11
      - z5 * y6 * x11 - z5 * x10 * y11 + z5 * y10 * x11 + x6 * y7 * z8 - x6 * z7 * y8
      + x6 * y8 * z9 - x6 * z8 * y9 + x6 * y9 * z10 - x6 * z9 * y10 + x6 * y10 * z11
      - x6 * z10 * y11 - y6 * x7 * z8 + y6 * z7 * x8 - y6 * x8 * z9 + y6 * z8 * x9 - y6 * x9 * z10
      + y6 * z9 * x10 - y6 * x10 * z11 + y6 * z10 * x11 + z6 * x7 * y8 - z6 * y7 * x8
      + z6 * x8 * y9 - z6 * y8 * x9 + z6 * x9 * y10 - z6 * y9 * x10 + z6 * x10 * y11
      - z6 * y10 * x11

def kVolHexprismCentroid {R : Type} [CommRing R] (x0 y0 z0 x1 y1 z1 x2 y2 z2 x3 y3 z3 x4 y4 z4 x5 y5 z5
    x6 y6 z6 x7 y7 z7 x8 y8 z8 x9 y9 z9 x10 y10 z10 x11 y11 z11 : R) : R :=
    -x0 * y1 * z3 + x0 * y1 * z6 + x0 * z1 * y3 - x0 * z1 * y6 - x0 * y3 * z5 + x0 * z3 * y5
      - x0 * y5 * z6 + x0 * z5 * y6 + y0 * x1 * z3 - y0 * x1 * z6 - y0 * z1 * x3 + y0 * z1 * x6
      + y0 * x3 * z5 - y0 * z3 * x5 + y0 * x5 * z6 - y0 * z5 * x6 - z0 * x1 * y3 + z0 * x1 * y6
      + z0 * y1 * x3 - z0 * y1 * x6 - z0 * x3 * y5 + z0 * y3 * x5 - z0 * x5 * y6 + z0 * y5 * x6
      - x1 * y2 * z3 + x1 * y2 * z8 + x1 * z2 * y3 - x1 * z2 * y8 - x1 * y6 * z7 + x1 * z6 * y7
      - x1 * y7 * z8 + x1 * z7 * y8 + y1 * x2 * z3 - y1 * x2 * z8 - y1 * z2 * x3 + y1 * z2 * x8
      + y1 * x6 * z7 - y1 * z6 * x7 + y1 * x7 * z8 - y1 * z7 * x8 - z1 * x2 * y3 + z1 * x2 * y8
      + z1 * y2 * x3 - z1 * y2 * x8 - z1 * x6 * y7 + z1 * y6 * x7 - z1 * x7 * y8 + z1 * y7 * x8
      + x2 * y3 * z8 - x2 * z3 * y8 - y2 * x3 * z8 + y2 * z3 * x8 + z2 * x3 * y8 - z2 * y3 * x8
      - x3 * y4 * z5 + x3 * y4 * z10 + x3 * z4 * y5 - x3 * z4 * y10 - x3 * y8 * z9 + x3 * z8 * y9
      - x3 * y9 * z10 + x3 * z9 * y10 + y3 * x4 * z5 - y3 * x4 * z10 - y3 * z4 * x5 + y3 * z4 * x10
      + y3 * x8 * z9 - y3 * z8 * x9 + y3 * x9 * z10 - y3 * z9 * x10 - z3 * x4 * y5 + z3 * x4 * y10
      + z3 * y4 * x5 - z3 * y4 * x10 - z3 * x8 * y9 + z3 * y8 * x9 - z3 * x9 * y10 + z3 * y9 * x10
      + x4 * y5 * z10 - x4 * z5 * y10 - y4 * x5 * z10 + y4 * z5 * x10 + z4 * x5 * y10
      - z4 * y5 * x10 + x5 * y6 * z11 - x5 * z6 * y11 - x5 * y10 * z11 + x5 * z10 * y11
      - y5 * x6 * z11 + y5 * z6 * x11 + y5 * x10 * z11 - y5 * z10 * x11 + z5 * x6 * y11
      - z5 * y6 * x11 - z5 * x10 * y11 + z5 * y10 * x11 + x6 * y7 * z8 - x6 * z7 * y8
      + x6 * y8 * z9 - x6 * z8 * y9 + x6 * y9 * z10 - x6 * z9 * y10 + x6 * y10 * z11
      - x6 * z10 * y11 - y6 * x7 * z8 + y6 * z7 * x8 - y6 * x8 * z9 + y6 * z8 * x9 - y6 * x9 * z10
      + y6 * z9 * x10 - y6 * x10 * z11 + y6 * z10 * x11 + z6 * x7 * y8 - z6 * y7 * x8
      + z6 * x8 * y9 - z6 * y8 * x9 + z6 * x9 * y10 - z6 * y9 * x10 + z6 * x10 * y11
      - z6 * y10 * x11

def kVolHexLinear {R : Type} [CommRing R] (x0 y0 z0 x1 y1 z1 x2 y2 z2 x3 y3 z3 x4 y4 z4 x5 y5 z5 x6 y6 z6 x7 y7 z7 : R) : R :=
    -x0 * y1 * z3 + x0 * y1 * z4 + x0 * z1 * y3 - x0 * z1 * y4 - x0 * y3 * z4 + x0 * z3 * y4
      + y0 * x1 * z3 - y0 * x1 * z4 - y0 * z1 * x3 + y0 * z1 * x4 + y0 * x3 * z4 - y0 * z3 * x4
      - z0 * x1 * y3 + z0 * x1 * y4 + z0 * y1 * x3 - z0 * y1 * x4 - z0 * x3 * y4 + z0 * y3 * x4
      - x1 * y2 * z3 + x1 * y2 * z6 + x1 * z2 * y3 - x1 * z2 * y6 - x1 * y4 * z5 + x1 * z4 * y5
      - x1 * y5 * z6 + x1 * z5 * y6 + y1 * x2 * z3 - y1 * x2 * z6 - y1 * z2 * x3 + y1 * z2 * x6
      + y1 * x4 * z5 - y1 * z4 * x5 + y1 * x5 * z6 - y1 * z5 * x6 - z1 * x2 * y3 + z1 * x2 * y6
      + z1 * y2 * x3 - z1 * y2 * x6 - z1 * x4 * y5 + z1 * y4 * x5 - z1 * x5 * y6 + z1 * y5 * x6
      + x2 * y3 * z6 - x2 * z3 * y6 - y2 * x3 * z6 + y2 * z3 * x6 + z2 * x3 * y6 - z2 * y3 * x6
      + x3 * y4 * z7 - x3 * z4 * y7 - x3 * y6 * z7 + x3 * z6 * y7 - y3 * x4 * z7 + y3 * z4 * x7
      + y3 * x6 * z7 - y3 * z6 * x7 + z3 * x4 * y7 - z3 * y4 * x7 - z3 * x6 * y7 + z3 * y6 * x7
      + x4 * y5 * z6 - x4 * z5 * y6 + x4 * y6 * z7 - x4 * z6 * y7 - y4 * x5 * z6 + y4 * z5 * x6
      - y4 * x6 * z7 + y4 * z6 * x7 + z4 * x5 * y6 - z4 * y5 * x6 + z4 * x6 * y7 - z4 * y6 * x7

def kVolHexCentroid {R : Type} [CommRing R] (x0 y0 z0 x1 y1 z1 x2 y2 z2 x3 y3 z3 x4 y4 z4 x5 y5 z5 x6 y6 z6 x7 y7 z7 : R) : R :=
    -2 * x0 * y1 * z2 - 2 * x0 * y1 * z3 + 2 * x0 * y1 * z4 + 2 * x0 * y1 * z5 + 2 * x0 * z1 * y2
      + 2 * x0 * z1 * y3 - 2 * x0 * z1 * y4 - 2 * x0 * z1 * y5 - 2 * x0 * y2 * z3
      + 2 * x0 * z2 * y3 - 2 * x0 * y3 * z4 - 2 * x0 * y3 * z7 + 2 * x0 * z3 * y4
      + 2 * x0 * z3 * y7 - 2 * x0 * y4 * z5 + 2 * x0 * y4 * z7 + 2 * x0 * z4 * y5
      - 2 * x0 * z4 * y7 + 2 * y0 * x1 * z2 + 2 * y0 * x1 * z3 - 2 * y0 * x1 * z4
      - 2 * y0 * x1 * z5 - 2 * y0 * z1 * x2 - 2 * y0 * z1 * x3 + 2 * y0 * z1 * x4
      + 2 * y0 * z1 * x5 + 2 * y0 * x2 * z3 - 2 * y0 * z2 * x3 + 2 * y0 * x3 * z4
      + 2 * y0 * x3 * z7 - 2 * y0 * z3 * x4 - 2 * y0 * z3 * x7 + 2 * y0 * x4 * z5
      - 2 * y0 * x4 * z7 - 2 * y0 * z4 * x5 + 2 * y0 * z4 * x7 - 2 * z0 * x1 * y2
      - 2 * z0 * x1 * y3 + 2 * z0 * x1 * y4 + 2 * z0 * x1 * y5 + 2 * z0 * y1 * x2
      + 2 * z0 * y1 * x3 - 2 * z0 * y1 * x4 - 2 * z0 * y1 * x5 - 2 * z0 * x2 * y3
      + 2 * z0 * y2 * x3 - 2 * z0 * x3 * y4 - 2 * z0 * x3 * y7 + 2 * z0 * y3 * x4
      + 2 * z0 * y3 * x7 - 2 * z0 * x4 * y5 + 2 * z0 * x4 * y7 + 2 * z0 * y4 * x5
      - 2 * z0 * y4 * x7 - 2 * x1 * y2 * z3 + 2 * x1 * y2 * z5 + 2 * x1 * y2 * z6
      + 2 * x1 * z2 * y3 - 2 * x1 * z2 * y5 - 2 * x1 * z2 * y6 - 2 * x1 * y4 * z5
      + 2 * x1 * z4 * y5 - 2 * x1 * y5 * z6 + 2 * x1 * z5 * y6 + 2 * y1 * x2 * z3
      - 2 * y1 * x2 * z5 - 2 * y1 * x2 * z6 - 2 * y1 * z2 * x3 + 2 * y1 * z2 * x5
      + 2 * y1 * z2 * x6 + 2 * y1 * x4 * z5 - 2 * y1 * z4 * x5 + 2 * y1 * x5 * z6
      - 2 * y1 * z5 * x6 - 2 * z1 * x2 * y3 + 2 * z1 * x2 * y5 + 2 * z1 * x2 * y6
      + 2 * z1 * y2 * x3 - 2 * z1 * y2 * x5 - 2 * z1 * y2 * x6 - 2 * z1 * x4 * y5
      + 2 * z1 * y4 * x5 - 2 * z1 * x5 * y6 + 2 * z1 * y5 * x6 + 2 * x2 * y3 * z6
      + 2 * x2 * y3 * z7 - 2 * x2 * z3 * y6 - 2 * x2 * z3 * y7 - 2 * x2 * y5 * z6
      + 2 * x2 * z5 * y6 - 2 * x2 * y6 * z7 + 2 * x2 * z6 * y7 - 2 * y2 * x3 * z6
      - 2 * y2 * x3 * z7 + 2 * y2 * z3 * x6 + 2 * y2 * z3 * x7 + 2 * y2 * x5 * z6
      - 2 * y2 * z5 * x6 + 2 * y2 * x6 * z7 - 2 * y2 * z6 * x7 + 2 * z2 * x3 * y6
      + 2 * z2 * x3 * y7 - 2 * z2 * y3 * x6 - 2 * z2 * y3 * x7 - 2 * z2 * x5 * y6
      + 2 * z2 * y5 * x6 - 2 * z2 * x6 * y7 + 2 * z2 * y6 * x7 + 2 * x3 * y4 * z7
      - 2 * x3 * z4 * y7 - 2 * x3 * y6 * z7 + 2 * x3 * z6 * y7 - 2 * y3 * x4 * z7
      + 2 * y3 * z4 * x7 + 2 * y3 * x6 * z7 - 2 * y3 * z6 * x7 + 2 * z3 * x4 * y7
      - 2 * z3 * y4 * x7 - 2 * z3 * x6 * y7 + 2 * z3 * y6 * x7 + 2 * x4 * y5 * z6
      + 2 * x4 * y5 * z7 - 2 * x4 * z5 * y6 - 2 * x4 * z5 * y7 + 2 * x4 * y6 * z7
      - 2 * x4 * z6 * y7 - 2 * y4 * x5 * z6 - 2 * y4 * x5 * z7 + 2 * y4 * z5 * x6
      + 2 * y4 * z5 * x7 - 2 * y4 * x6 * z7 + 2 * y4 * z6 * x7 + 2 * z4 * x5 * y6
      + 2 * z4 * x5 * y7 - 2 * z4 * y5 * x6 - 2 * z4 * y5 * x7 + 2 * z4 * x6 * y7
      - 2 * z4 * y6 * x7 + 2 * x5 * y6 * z7 - 2 * x5 * z6 * y7 - 2 * y5 * x6 * z7
      + 2 * y5 * z6 * x7 + 2 * z5 * x6 * y7 - 2 * z5 * y6 * x7

def kVolPolyTetLinear {R : Type} [CommRing R] (x0 y0 z0 x1 y1 z1 x2 y2 z2 x3 y3 z3 : R) : R :=
    -x0 * y1 * z2 + x0 * y1 * z3 + x0 * z1 * y2 - x0 * z1 * y3 - x0 * y2 * z3 + x0 * z2 * y3
      + y0 * x1 * z2 - y0 * x1 * z3 - y0 * z1 * x2 + y0 * z1 * x3 + y0 * x2 * z3 - y0 * z2 * x3
      - z0 * x1 * y2 + z0 * x1 * y3 + z0 * y1 * x2 - z0 * y1 * x3 - z0 * x2 * y3 + z0 * y2 * x3
      + x1 * y2 * z3 - x1 * z2 * y3 - y1 * x2 * z3 + y1 * z2 * x3 + z1 * x2 * y3 - z1 * y2 * x3

def kVolPolyTetGaussian {R : Type} [CommRing R] (x0 y0 z0 x1 y1 z1 x2 y2 z2 x3 y3 z3 : R) : R :=
    -x0 * y1 * z2 + x0 * y1 * z3 + x0 * z1 * y2 - x0 * z1 * y3 - x0 * y2 * z3 + x0 * z2 * y3
      + y0 * x1 * z2 - y0 * x1 * z3 - y0 * z1 * x2 + y0 * z1 * x3 + y0 * x2 * z3 - y0 * z2 * x3
      - z0 * x1 * y2 + z0 * x1 * y3 + z0 * y1 * x2 - z0 * y1 * x3 - z0 * x2 * y3 + z0 * y2 * x3
      + x1 * y2 * z3 - x1 * z2 * y3 - y1 * x2 * z3 + y1 * z2 * x3 + z1 * x2 * y3 - z1 * y2 * x3

def kVolPolyTetCentroid {R : Type} [CommRing R] (x0 y0 z0 x1 y1 z1 x2 y2 z2 x3 y3 z3 : R) : R :=
    -3 * x0 * y1 * z2 + 3 * x0 * y1 * z3 + 3 * x0 * z1 * y2 - 3 * x0 * z1 * y3 - 3 * x0 * y2 * z3
      + 3 * x0 * z2 * y3 + 3 * y0 * x1 * z2 - 3 * y0 * x1 * z3 - 3 * y0 * z1 * x2
      + 3 * y0 * z1 * x3 + 3 * y0 * x2 * z3 - 3 * y0 * z2 * x3 - 3 * z0 * x1 * y2
      + 3 * z0 * x1 * y3 + 3 * z0 * y1 * x2 - 3 * z0 * y1 * x3 - 3 * z0 * x2 * y3
      + 3 * z0 * y2 * x3 + 3 * x1 * y2 * z3 - 3 * x1 * z2 * y3 - 3 * y1 * x2 * z3
      + 3 * y1 * z2 * x3 + 3 * z1 * x2 * y3 - 3 * z1 * y2 * x3

def kVolPolyPyrLinear {R : Type} [CommRing R] (x0 y0 z0 x1 y1 z1 x2 y2 z2 x3 y3 z3 x4 y4 z4 : R) : R :=
    -x0 * y1 * z2 + x0 * y1 * z4 + x0 * z1 * y2 - x0 * z1 * y4 - x0 * y2 * z3 + x0 * z2 * y3
      - x0 * y3 * z4 + x0 * z3 * y4 + y0 * x1 * z2 - y0 * x1 * z4 - y0 * z1 * x2 + y0 * z1 * x4
      + y0 * x2 * z3 - y0 * z2 * x3 + y0 * x3 * z4 - y0 * z3 * x4 - z0 * x1 * y2 + z0 * x1 * y4
      + z0 * y1 * x2 - z0 * y1 * x4 - z0 * x2 * y3 + z0 * y2 * x3 - z0 * x3 * y4 + z0 * y3 * x4
      + x1 * y2 * z4 - x1 * z2 * y4 - y1 * x2 * z4 + y1 * z2 * x4 + z1 * x2 * y4 - z1 * y2 * x4
      + x2 * y3 * z4 - x2 * z3 * y4 - y2 * x3 * z4 + y2 * z3 * x4 + z2 * x3 * y4 - z2 * y3 * x4

def kVolPolyPyrGaussian {R : Type} [CommRing R] (x0 y0 z0 x1 y1 z1 x2 y2 z2 x3 y3 z3 x4 y4 z4 : R) : R :=
    -x0 * y1 * z2 + x0 * y1 * z4 + x0 * z1 * y2 - x0 * z1 * y4 - x0 * y2 * z3 + x0 * z2 * y3
      - x0 * y3 * z4 + x0 * z3 * y4 + y0 * x1 * z2 - y0 * x1 * z4 - y0 * z1 * x2 + y0 * z1 * x4
      + y0 * x2 * z3 - y0 * z2 * x3 + y0 * x3 * z4 - y0 * z3 * x4 - z0 * x1 * y2 + z0 * x1 * y4
      + z0 * y1 * x2 - z0 * y1 * x4 - z0 * x2 * y3 + z0 * y2 * x3 - z0 * x3 * y4 + z0 * y3 * x4
      + x1 * y2 * z4 - x1 * z2 * y4 - y1 * x2 * z4 + y1 * z2 * x4 + z1 * x2 * y4 - z1 * y2 * x4
      + x2 * y3 * z4 - x2 * z3 * y4 - y2 * x3 * z4 + y2 * z3 * x4 + z2 * x3 * y4 - z2 * y3 * x4

def kVolPolyPyrCentroid {R : Type} [CommRing R] (x0 y0 z0 x1 y1 z1 x2 y2 z2 x3 y3 z3 x4 y4 z4 : R) : R :=
    -6 * x0 * y1 * z2 - 6 * x0 * y1 * z3 + 12 * x0 * y1 * z4 + 6 * x0 * z1 * y2 + 6 * x0 * z1 * y3
      - 12 * x0 * z1 * y4 - 6 * x0 * y2 * z3 + 6 * x0 * z2 * y3 - 12 * x0 * y3 * z4
      + 12 * x0 * z3 * y4 + 6 * y0 * x1 * z2 + 6 * y0 * x1 * z3 - 12 * y0 * x1 * z4
      - 6 * y0 * z1 * x2 - 6 * y0 * z1 * x3 + 12 * y0 * z1 * x4 + 6 * y0 * x2 * z3
      - 6 * y0 * z2 * x3 + 12 * y0 * x3 * z4 - 12 * y0 * z3 * x4 - 6 * z0 * x1 * y2
      - 6 * z0 * x1 * y3 + 12 * z0 * x1 * y4 + 6 * z0 * y1 * x2 + 6 * z0 * y1 * x3
      - 12 * z0 * y1 * x4 - 6 * z0 * x2 * y3 + 6 * z0 * y2 * x3 - 12 * z0 * x3 * y4
      + 12 * z0 * y3 * x4 - 6 * x1 * y2 * z3 + 12 * x1 * y2 * z4 + 6 * x1 * z2 * y3
      - 12 * x1 * z2 * y4 + 6 * y1 * x2 * z3 - 12 * y1 * x2 * z4 - 6 * y1 * z2 * x3
      + 12 * y1 * z2 * x4 - 6 * z1 * x2 * y3 + 12 * z1 * x2 * y4 + 6 * z1 * y2 * x3
      - 12 * z1 * y2 * x4 + 12 * x2 * y3 * z4 - 12 * x2 * z3 * y4 - 12 * y2 * x3 * z4
      + 12 * y2 * z3 * x4 + 12 * z2 * x3 * y4 - 12 * z2 * y3 * x4

def kAreaTriLinearX {R : Type} [CommRing R] (x0 y0 z0 x1 y1 z1 x2 y2 z2 : R) : R :=
    y0 * z1 - y0 * z2 - z0 * y1 + z0 * y2 + y1 * z2 - z1 * y2
def kAreaTriLinearY {R : Type} [CommRing R] (x0 y0 z0 x1 y1 z1 x2 y2 z2 : R) : R :=
    -x0 * z1 + x0 * z2 + z0 * x1 - z0 * x2 - x1 * z2 + z1 * x2
def kAreaTriLinearZ {R : Type} [CommRing R] (x0 y0 z0 x1 y1 z1 x2 y2 z2 : R) : R :=
    x0 * y1 - x0 * y2 - y0 * x1 + y0 * x2 + x1 * y2 - y1 * x2

def kAreaTriGaussianX {R : Type} [CommRing R] (x0 y0 z0 x1 y1 z1 x2 y2 z2 : R) : R :=
    y0 * z1 - y0 * z2 - z0 * y1 + z0 * y2 + y1 * z2 - z1 * y2
def kAreaTriGaussianY {R : Type} [CommRing R] (x0 y0 z0 x1 y1 z1 x2 y2 z2 : R) : R :=
    -x0 * z1 + x0 * z2 + z0 * x1 - z0 * x2 - x1 * z2 + z1 * x2
def kAreaTriGaussianZ {R : Type} [CommRing R] (x0 y0 z0 x1 y1 z1 x2 y2 z2 : R) : R :=
    x0 * y1 - x0 * y2 - y0 * x1 + y0 * x2 + x1 * y2 - y1 * x2

def kAreaTriCentroidX {R : Type} [CommRing R] (x0 y0 z0 x1 y1 z1 x2 y2 z2 : R) : R :=
    y0 * z1 - y0 * z2 - z0 * y1 + z0 * y2 + y1 * z2 - z1 * y2
def kAreaTriCentroidY {R : Type} [CommRing R] (x0 y0 z0 x1 y1 z1 x2 y2 z2 : R) : R :=
    -x0 * z1 + x0 * z2 + z0 * x1 - z0 * x2 - x1 * z2 + z1 * x2
def kAreaTriCentroidZ {R : Type} [CommRing R] (x0 y0 z0 x1 y1 z1 x2 y2 z2 : R) : R :=
    x0 * y1 - x0 * y2 - y0 * x1 + y0 * x2 + x1 * y2 - y1 * x2

def kAreaQuadLinearV0X {R : Type} [CommRing R] (x0 y0 z0 x1 y1 z1 x2 y2 z2 x3 y3 z3 : R) : R :=
    y0 * z1 - y0 * z2 - z0 * y1 + z0 * y2 + y1 * z2 - z1 * y2
def kAreaQuadLinearV0Y {R : Type} [CommRing R] (x0 y0 z0 x1 y1 z1 x2 y2 z2 x3 y3 z3 : R) : R :=
    -x0 * z1 + x0 * z2 + z0 * x1 - z0 * x2 - x1 * z2 + z1 * x2
def kAreaQuadLinearV0Z {R : Type} [CommRing R] (x0 y0 z0 x1 y1 z1 x2 y2 z2 x3 y3 z3 : R) : R :=
    x0 * y1 - x0 * y2 - y0 * x1 + y0 * x2 + x1 * y2 - y1 * x2
def kAreaQuadLinearV1X {R : Type} [CommRing R] (x0 y0 z0 x1 y1 z1 x2 y2 z2 x3 y3 z3 : R) : R :=
    y0 * z2 - y0 * z3 - z0 * y2 + z0 * y3 + y2 * z3 - z2 * y3
def kAreaQuadLinearV1Y {R : Type} [CommRing R] (x0 y0 z0 x1 y1 z1 x2 y2 z2 x3 y3 z3 : R) : R :=
    -x0 * z2 + x0 * z3 + z0 * x2 - z0 * x3 - x2 * z3 + z2 * x3
def kAreaQuadLinearV1Z {R : Type} [CommRing R] (x0 y0 z0 x1 y1 z1 x2 y2 z2 x3 y3 z3 : R) : R :=
    x0 * y2 - x0 * y3 - y0 * x2 + y0 * x3 + x2 * y3 - y2 * x3

def kAreaQuadCentroidX {R : Type} [CommRing R] (x0 y0 z0 x1 y1 z1 x2 y2 z2 x3 y3 z3 : R) : R :=
    16 * y0 * z1 - 16 * y0 * z3 - 16 * z0 * y1 + 16 * z0 * y3 + 16 * y1 * z2 - 16 * z1 * y2
      + 16 * y2 * z3 - 16 * z2 * y3
def kAreaQuadCentroidY {R : Type} [CommRing R] (x0 y0 z0 x1 y1 z1 x2 y2 z2 x3 y3 z3 : R) : R :=
    -16 * x0 * z1 + 16 * x0 * z3 + 16 * z0 * x1 - 16 * z0 * x3 - 16 * x1 * z2 + 16 * z1 * x2
      - 16 * x2 * z3 + 16 * z2 * x3
def kAreaQuadCentroidZ {R : Type} [CommRing R] (x0 y0 z0 x1 y1 z1 x2 y2 z2 x3 y3 z3 : R) : R :=
    16 * x0 * y1 - 16 * x0 * y3 - 16 * y0 * x1 + 16 * y0 * x3 + 16 * x1 * y2 - 16 * y1 * x2
      + 16 * x2 * y3 - 16 * y2 * x3

def kAreaPolygon3LinearX {R : Type} [CommRing R] (x0 y0 z0 x1 y1 z1 x2 y2 z2 : R) : R :=
    9 * y0 * z1 - 9 * y0 * z2 - 9 * z0 * y1 + 9 * z0 * y2 + 9 * y1 * z2 - 9 * z1 * y2
def kAreaPolygon3LinearY {R : Type} [CommRing R] (x0 y0 z0 x1 y1 z1 x2 y2 z2 : R) : R :=
    -9 * x0 * z1 + 9 * x0 * z2 + 9 * z0 * x1 - 9 * z0 * x2 - 9 * x1 * z2 + 9 * z1 * x2
def kAreaPolygon3LinearZ {R : Type} [CommRing R] (x0 y0 z0 x1 y1 z1 x2 y2 z2 : R) : R :=
    9 * x0 * y1 - 9 * x0 * y2 - 9 * y0 * x1 + 9 * y0 * x2 + 9 * x1 * y2 - 9 * y1 * x2

def kAreaPolygon3GaussianX {R : Type} [CommRing R] (x0 y0 z0 x1 y1 z1 x2 y2 z2 : R) : R :=
    9 * y0 * z1 - 9 * y0 * z2 - 9 * z0 * y1 + 9 * z0 * y2 + 9 * y1 * z2 - 9 * z1 * y2
def kAreaPolygon3GaussianY {R : Type} [CommRing R] (x0 y0 z0 x1 y1 z1 x2 y2 z2 : R) : R :=
    -9 * x0 * z1 + 9 * x0 * z2 + 9 * z0 * x1 - 9 * z0 * x2 - 9 * x1 * z2 + 9 * z1 * x2
def kAreaPolygon3GaussianZ {R : Type} [CommRing R] (x0 y0 z0 x1 y1 z1 x2 y2 z2 : R) : R :=
    9 * x0 * y1 - 9 * x0 * y2 - 9 * y0 * x1 + 9 * y0 * x2 + 9 * x1 * y2 - 9 * y1 * x2

def kAreaPolygon3CentroidX {R : Type} [CommRing R] (x0 y0 z0 x1 y1 z1 x2 y2 z2 : R) : R :=
    y0 * z1 - y0 * z2 - z0 * y1 + z0 * y2 + y1 * z2 - z1 * y2
def kAreaPolygon3CentroidY {R : Type} [CommRing R] (x0 y0 z0 x1 y1 z1 x2 y2 z2 : R) : R :=
    -x0 * z1 + x0 * z2 + z0 * x1 - z0 * x2 - x1 * z2 + z1 * x2
def kAreaPolygon3CentroidZ {R : Type} [CommRing R] (x0 y0 z0 x1 y1 z1 x2 y2 z2 : R) : R :=
    x0 * y1 - x0 * y2 - y0 * x1 + y0 * x2 + x1 * y2 - y1 * x2

def kAreaPolygon5LinearX {R : Type} [CommRing R] (x0 y0 z0 x1 y1 z1 x2 y2 z2 x3 y3 z3 x4 y4 z4 : R) : R :=
    25 * y0 * z1 - 25 * y0 * z4 - 25 * z0 * y1 + 25 * z0 * y4 + 25 * y1 * z2 - 25 * z1 * y2
      + 25 * y2 * z3 - 25 * z2 * y3 + 25 * y3 * z4 - 25 * z3 * y4
def kAreaPolygon5LinearY {R : Type} [CommRing R] (x0 y0 z0 x1 y1 z1 x2 y2 z2 x3 y3 z3 x4 y4 z4 : R) : R :=
    -25 * x0 * z1 + 25 * x0 * z4 + 25 * z0 * x1 - 25 * z0 * x4 - 25 * x1 * z2 + 25 * z1 * x2
      - 25 * x2 * z3 + 25 * z2 * x3 - 25 * x3 * z4 + 25 * z3 * x4
def kAreaPolygon5LinearZ {R : Type} [CommRing R] (x0 y0 z0 x1 y1 z1 x2 y2 z2 x3 y3 z3 x4 y4 z4 : R) : R :=
    25 * x0 * y1 - 25 * x0 * y4 - 25 * y0 * x1 + 25 * y0 * x4 + 25 * x1 * y2 - 25 * y1 * x2
      + 25 * x2 * y3 - 25 * y2 * x3 + 25 * x3 * y4 - 25 * y3 * x4

def kAreaPolygon5GaussianX {R : Type} [CommRing R] (x0 y0 z0 x1 y1 z1 x2 y2 z2 x3 y3 z3 x4 y4 z4 : R) : R :=
    25 * y0 * z1 - 25 * y0 * z4 - 25 * z0 * y1 + 25 * z0 * y4 + 25 * y1 * z2 - 25 * z1 * y2
      + 25 * y2 * z3 - 25 * z2 * y3 + 25 * y3 * z4 - 25 * z3 * y4
def kAreaPolygon5GaussianY {R : Type} [CommRing R] (x0 y0 z0 x1 y1 z1 x2 y2 z2 x3 y3 z3 x4 y4 z4 : R) : R :=
    -25 * x0 * z1 + 25 * x0 * z4 + 25 * z0 * x1 - 25 * z0 * x4 - 25 * x1 * z2 + 25 * z1 * x2
      - 25 * x2 * z3 + 25 * z2 * x3 - 25 * x3 * z4 + 25 * z3 * x4
def kAreaPolygon5GaussianZ {R : Type} [CommRing R] (x0 y0 z0 x1 y1 z1 x2 y2 z2 x3 y3 z3 x4 y4 z4 : R) : R :=
    25 * x0 * y1 - 25 * x0 * y4 - 25 * y0 * x1 + 25 * y0 * x4 + 25 * x1 * y2 - 25 * y1 * x2
      + 25 * x2 * y3 - 25 * y2 * x3 + 25 * x3 * y4 - 25 * y3 * x4

def kAreaPolygon5CentroidX {R : Type} [CommRing R] (x0 y0 z0 x1 y1 z1 x2 y2 z2 x3 y3 z3 x4 y4 z4 : R) : R :=
    y0 * z1 - y0 * z4 - z0 * y1 + z0 * y4 + y1 * z2 - z1 * y2 + y2 * z3 - z2 * y3 + y3 * z4
      - z3 * y4
def kAreaPolygon5CentroidY {R : Type} [CommRing R] (x0 y0 z0 x1 y1 z1 x2 y2 z2 x3 y3 z3 x4 y4 z4 : R) : R :=
    -x0 * z1 + x0 * z4 + z0 * x1 - z0 * x4 - x1 * z2 + z1 * x2 - x2 * z3 + z2 * x3 - x3 * z4
      + z3 * x4
def kAreaPolygon5CentroidZ {R : Type} [CommRing R] (x0 y0 z0 x1 y1 z1 x2 y2 z2 x3 y3 z3 x4 y4 z4 : R) : R :=
    x0 * y1 - x0 * y4 - y0 * x1 + y0 * x4 + x1 * y2 - y1 * x2 + x2 * y3 - y2 * x3 + x3 * y4
      - y3 * x4

def kNormalTriLinearX {R : Type} [CommRing R] (x0 y0 z0 x1 y1 z1 x2 y2 z2 : R) : R :=
    y0 * z1 - y0 * z2 - z0 * y1 + z0 * y2 + y1 * z2 - z1 * y2
def kNormalTriLinearY {R : Type} [CommRing R] (x0 y0 z0 x1 y1 z1 x2 y2 z2 : R) : R :=
    -x0 * z1 + x0 * z2 + z0 * x1 - z0 * x2 - x1 * z2 + z1 * x2
def kNormalTriLinearZ {R : Type} [CommRing R] (x0 y0 z0 x1 y1 z1 x2 y2 z2 : R) : R :=
    x0 * y1 - x0 * y2 - y0 * x1 + y0 * x2 + x1 * y2 - y1 * x2

def kNormalTriGaussianX {R : Type} [CommRing R] (x0 y0 z0 x1 y1 z1 x2 y2 z2 : R) : R :=
    y0 * z1 - y0 * z2 - z0 * y1 + z0 * y2 + y1 * z2 - z1 * y2
def kNormalTriGaussianY {R : Type} [CommRing R] (x0 y0 z0 x1 y1 z1 x2 y2 z2 : R) : R :=
    -x0 * z1 + x0 * z2 + z0 * x1 - z0 * x2 - x1 * z2 + z1 * x2
def kNormalTriGaussianZ {R : Type} [CommRing R] (x0 y0 z0 x1 y1 z1 x2 y2 z2 : R) : R :=
    x0 * y1 - x0 * y2 - y0 * x1 + y0 * x2 + x1 * y2 - y1 * x2

def kNormalTriCentroidX {R : Type} [CommRing R] (x0 y0 z0 x1 y1 z1 x2 y2 z2 : R) : R :=
    y0 * z1 - y0 * z2 - z0 * y1 + z0 * y2 + y1 * z2 - z1 * y2
def kNormalTriCentroidY {R : Type} [CommRing R] (x0 y0 z0 x1 y1 z1 x2 y2 z2 : R) : R :=
    -x0 * z1 + x0 * z2 + z0 * x1 - z0 * x2 - x1 * z2 + z1 * x2
def kNormalTriCentroidZ {R : Type} [CommRing R] (x0 y0 z0 x1 y1 z1 x2 y2 z2 : R) : R :=
    x0 * y1 - x0 * y2 - y0 * x1 + y0 * x2 + x1 * y2 - y1 * x2

def kNormalQuadLinearX {R : Type} [CommRing R] (x0 y0 z0 x1 y1 z1 x2 y2 z2 x3 y3 z3 : R) : R :=
    y0 * z1 - y0 * z3 - z0 * y1 + z0 * y3 + y1 * z2 - z1 * y2 + y2 * z3 - z2 * y3
def kNormalQuadLinearY {R : Type} [CommRing R] (x0 y0 z0 x1 y1 z1 x2 y2 z2 x3 y3 z3 : R) : R :=
    -x0 * z1 + x0 * z3 + z0 * x1 - z0 * x3 - x1 * z2 + z1 * x2 - x2 * z3 + z2 * x3
def kNormalQuadLinearZ {R : Type} [CommRing R] (x0 y0 z0 x1 y1 z1 x2 y2 z2 x3 y3 z3 : R) : R :=
    x0 * y1 - x0 * y3 - y0 * x1 + y0 * x3 + x1 * y2 - y1 * x2 + x2 * y3 - y2 * x3

def kNormalQuadGaussianX {R : Type} [CommRing R] (x0 y0 z0 x1 y1 z1 x2 y2 z2 x3 y3 z3 : R) : R :=
    y0 * z1 - y0 * z3 - z0 * y1 + z0 * y3 + y1 * z2 - z1 * y2 + y2 * z3 - z2 * y3
def kNormalQuadGaussianY {R : Type} [CommRing R] (x0 y0 z0 x1 y1 z1 x2 y2 z2 x3 y3 z3 : R) : R :=
    -x0 * z1 + x0 * z3 + z0 * x1 - z0 * x3 - x1 * z2 + z1 * x2 - x2 * z3 + z2 * x3
def kNormalQuadGaussianZ {R : Type} [CommRing R] (x0 y0 z0 x1 y1 z1 x2 y2 z2 x3 y3 z3 : R) : R :=
    x0 * y1 - x0 * y3 - y0 * x1 + y0 * x3 + x1 * y2 - y1 * x2 + x2 * y3 - y2 * x3

def kNormalQuadCentroidX {R : Type} [CommRing R] (x0 y0 z0 x1 y1 z1 x2 y2 z2 x3 y3 z3 : R) : R :=
    16 * y0 * z1 - 16 * y0 * z3 - 16 * z0 * y1 + 16 * z0 * y3 + 16 * y1 * z2 - 16 * z1 * y2
      + 16 * y2 * z3 - 16 * z2 * y3
def kNormalQuadCentroidY {R : Type} [CommRing R] (x0 y0 z0 x1 y1 z1 x2 y2 z2 x3 y3 z3 : R) : R :=
    -16 * x0 * z1 + 16 * x0 * z3 + 16 * z0 * x1 - 16 * z0 * x3 - 16 * x1 * z2 + 16 * z1 * x2
      - 16 * x2 * z3 + 16 * z2 * x3
def kNormalQuadCentroidZ {R : Type} [CommRing R] (x0 y0 z0 x1 y1 z1 x2 y2 z2 x3 y3 z3 : R) : R :=
    16 * x0 * y1 - 16 * x0 * y3 - 16 * y0 * x1 + 16 * y0 * x3 + 16 * x1 * y2 - 16 * y1 * x2
      + 16 * x2 * y3 - 16 * y2 * x3

def kNormalPolygon3LinearX {R : Type} [CommRing R] (x0 y0 z0 x1 y1 z1 x2 y2 z2 : R) : R :=
    y0 * z1 - y0 * z2 - z0 * y1 + z0 * y2 + y1 * z2 - z1 * y2
def kNormalPolygon3LinearY {R : Type} [CommRing R] (x0 y0 z0 x1 y1 z1 x2 y2 z2 : R) : R :=
    -x0 * z1 + x0 * z2 + z0 * x1 - z0 * x2 - x1 * z2 + z1 * x2
def kNormalPolygon3LinearZ {R : Type} [CommRing R] (x0 y0 z0 x1 y1 z1 x2 y2 z2 : R) : R :=
    x0 * y1 - x0 * y2 - y0 * x1 + y0 * x2 + x1 * y2 - y1 * x2

def kNormalPolygon3GaussianX {R : Type} [CommRing R] (x0 y0 z0 x1 y1 z1 x2 y2 z2 : R) : R :=
    y0 * z1 - y0 * z2 - z0 * y1 + z0 * y2 + y1 * z2 - z1 * y2
def kNormalPolygon3GaussianY {R : Type} [CommRing R] (x0 y0 z0 x1 y1 z1 x2 y2 z2 : R) : R :=
    -x0 * z1 + x0 * z2 + z0 * x1 - z0 * x2 - x1 * z2 + z1 * x2
def kNormalPolygon3GaussianZ {R : Type} [CommRing R] (x0 y0 z0 x1 y1 z1 x2 y2 z2 : R) : R :=
    x0 * y1 - x0 * y2 - y0 * x1 + y0 * x2 + x1 * y2 - y1 * x2

def kNormalPolygon3CentroidX {R : Type} [CommRing R] (x0 y0 z0 x1 y1 z1 x2 y2 z2 : R) : R :=
    9 * y0 * z1 - 9 * y0 * z2 - 9 * z0 * y1 + 9 * z0 * y2 + 9 * y1 * z2 - 9 * z1 * y2
def kNormalPolygon3CentroidY {R : Type} [CommRing R] (x0 y0 z0 x1 y1 z1 x2 y2 z2 : R) : R :=
    -9 * x0 * z1 + 9 * x0 * z2 + 9 * z0 * x1 - 9 * z0 * x2 - 9 * x1 * z2 + 9 * z1 * x2
def kNormalPolygon3CentroidZ {R : Type} [CommRing R] (x0 y0 z0 x1 y1 z1 x2 y2 z2 : R) : R :=
    9 * x0 * y1 - 9 * x0 * y2 - 9 * y0 * x1 + 9 * y0 * x2 + 9 * x1 * y2 - 9 * y1 * x2

def kNormalPolygon5LinearX {R : Type} [CommRing R] (x0 y0 z0 x1 y1 z1 x2 y2 z2 x3 y3 z3 x4 y4 z4 : R) : R :=
    y0 * z1 - y0 * z4 - z0 * y1 + z0 * y4 + y1 * z2 - z1 * y2 + y2 * z3 - z2 * y3 + y3 * z4
      - z3 * y4
def kNormalPolygon5LinearY {R : Type} [CommRing R] (x0 y0 z0 x1 y1 z1 x2 y2 z2 x3 y3 z3 x4 y4 z4 : R) : R :=
    -x0 * z1 + x0 * z4 + z0 * x1 - z0 * x4 - x1 * z2 + z1 * x2 - x2 * z3 + z2 * x3 - x3 * z4
      + z3 * x4
def kNormalPolygon5LinearZ {R : Type} [CommRing R] (x0 y0 z0 x1 y1 z1 x2 y2 z2 x3 y3 z3 x4 y4 z4 : R) : R :=
    x0 * y1 - x0 * y4 - y0 * x1 + y0 * x4 + x1 * y2 - y1 * x2 + x2 * y3 - y2 * x3 + x3 * y4
      - y3 * x4

def kNormalPolygon5GaussianX {R : Type} [CommRing R] (x0 y0 z0 x1 y1 z1 x2 y2 z2 x3 y3 z3 x4 y4 z4 : R) : R :=
    y0 * z1 - y0 * z4 - z0 * y1 + z0 * y4 + y1 * z2 - z1 * y2 + y2 * z3 - z2 * y3 + y3 * z4
      - z3 * y4
def kNormalPolygon5GaussianY {R : Type} [CommRing R] (x0 y0 z0 x1 y1 z1 x2 y2 z2 x3 y3 z3 x4 y4 z4 : R) : R :=
    -x0 * z1 + x0 * z4 + z0 * x1 - z0 * x4 - x1 * z2 + z1 * x2 - x2 * z3 + z2 * x3 - x3 * z4
      + z3 * x4
def kNormalPolygon5GaussianZ {R : Type} [CommRing R] (x0 y0 z0 x1 y1 z1 x2 y2 z2 x3 y3 z3 x4 y4 z4 : R) : R :=
    x0 * y1 - x0 * y4 - y0 * x1 + y0 * x4 + x1 * y2 - y1 * x2 + x2 * y3 - y2 * x3 + x3 * y4
      - y3 * x4

def kNormalPolygon5CentroidX {R : Type} [CommRing R] (x0 y0 z0 x1 y1 z1 x2 y2 z2 x3 y3 z3 x4 y4 z4 : R) : R :=
    25 * y0 * z1 - 25 * y0 * z4 - 25 * z0 * y1 + 25 * z0 * y4 + 25 * y1 * z2 - 25 * z1 * y2
      + 25 * y2 * z3 - 25 * z2 * y3 + 25 * y3 * z4 - 25 * z3 * y4
def kNormalPolygon5CentroidY {R : Type} [CommRing R] (x0 y0 z0 x1 y1 z1 x2 y2 z2 x3 y3 z3 x4 y4 z4 : R) : R :=
    -25 * x0 * z1 + 25 * x0 * z4 + 25 * z0 * x1 - 25 * z0 * x4 - 25 * x1 * z2 + 25 * z1 * x2
      - 25 * x2 * z3 + 25 * z2 * x3 - 25 * x3 * z4 + 25 * z3 * x4
def kNormalPolygon5CentroidZ {R : Type} [CommRing R] (x0 y0 z0 x1 y1 z1 x2 y2 z2 x3 y3 z3 x4 y4 z4 : R) : R :=
    25 * x0 * y1 - 25 * x0 * y4 - 25 * y0 * x1 + 25 * y0 * x4 + 25 * x1 * y2 - 25 * y1 * x2
      + 25 * x2 * y3 - 25 * y2 * x3 + 25 * x3 * y4 - 25 * y3 * x4

/-- (kernel, extra factor that was needed to make its coefficients integers) -/
def kernelScales : List (String × Nat) := [
  ("vol_tet_linear", 1),
  ("vol_tet_gaussian", 1),
  ("vol_tet_centroid", 1),
  ("vol_tet2_linear", 1),
  ("vol_tet2_gaussian", 1),
  ("vol_tet2_centroid", 1),
  ("vol_pyr_linear", 1),
  ("vol_pyr_gaussian", 1),
  ("vol_pyr_centroid", 1),
  ("vol_prism_linear", 1),
  ("vol_prism_gaussian", 1),
  ("vol_prism_centroid", 1),
  ("vol_hexprism_linear", 1),
  ("vol_hexprism_gaussian", 1),
  ("vol_hexprism_centroid", 1),
  ("vol_hex_linear", 1),
  ("vol_hex_centroid", 1),
  ("vol_polyTet_linear", 1),
  ("vol_polyTet_gaussian", 1),
  ("vol_polyTet_centroid", 1),
  ("vol_polyPyr_linear", 1),
  ("vol_polyPyr_gaussian", 1),
  ("vol_polyPyr_centroid", 1),
  ("area_tri_linear", 1),
  ("area_tri_gaussian", 1),
  ("area_tri_centroid", 1),
  ("area_quad_linear", 1),
  ("area_quad_centroid", 1),
  ("area_polygon3_linear", 1),
  ("area_polygon3_gaussian", 1),
  ("area_polygon3_centroid", 1),
  ("area_polygon5_linear", 1),
  ("area_polygon5_gaussian", 1),
  ("area_polygon5_centroid", 1),
  ("normal_tri_linear", 1),
  ("normal_tri_gaussian", 1),
  ("normal_tri_centroid", 1),
  ("normal_quad_linear", 1),
  ("normal_quad_gaussian", 1),
  ("normal_quad_centroid", 1),
  ("normal_polygon3_linear", 1),
  ("normal_polygon3_gaussian", 1),
  ("normal_polygon3_centroid", 1),
  ("normal_polygon5_linear", 1),
  ("normal_polygon5_gaussian", 1),
  ("normal_polygon5_centroid", 1)]

end Femio.Gen
