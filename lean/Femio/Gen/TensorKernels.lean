import Mathlib.Algebra.Field.Defs
/-! GENERATED from the working tree of the femio repository by harness/gen_tensor_kernels.py on every run (symbolic
    execution of the real tensor helpers of femio/functions.py and femio/signal_processor.py) - do not edit.
    One list of polynomials (rational coefficients) per helper x option combination. -/
set_option linter.unusedVariables false
namespace Femio.Gen

def tArr2Mat_e0_o0 {R : Type} [Field R] (v0 v1 v2 v3 v4 v5 : R) : List R :=
  [v0,
   v3,
   v5,
   v3,
   v1,
   v4,
   v5,
   v4,
   v2]

def tMat2Arr_e0_o0 {R : Type} [Field R] (v0 v1 v2 v3 v4 v5 v6 v7 v8 : R) : List R :=
  [v0,
   v4,
   v8,
   v1,
   v5,
   v2]

def tArr2Mat_e0_o1 {R : Type} [Field R] (v0 v1 v2 v3 v4 v5 : R) : List R :=
  [v5,
   v2,
   v0,
   v2,
   v4,
   v1,
   v0,
   v1,
   v3]

def tMat2Arr_e0_o1 {R : Type} [Field R] (v0 v1 v2 v3 v4 v5 v6 v7 v8 : R) : List R :=
  [v2,
   v5,
   v1,
   v8,
   v4,
   v0]

def tArr2Mat_e0_o2 {R : Type} [Field R] (v0 v1 v2 v3 v4 v5 : R) : List R :=
  [v1,
   v4,
   v3,
   v4,
   v2,
   v5,
   v3,
   v5,
   v0]

def tMat2Arr_e0_o2 {R : Type} [Field R] (v0 v1 v2 v3 v4 v5 v6 v7 v8 : R) : List R :=
  [v4,
   v8,
   v0,
   v5,
   v2,
   v1]

def tArr2Mat_e0_o3 {R : Type} [Field R] (v0 v1 v2 v3 v4 v5 : R) : List R :=
  [v3,
   v0,
   v4,
   v0,
   v5,
   v2,
   v4,
   v2,
   v1]

def tMat2Arr_e0_o3 {R : Type} [Field R] (v0 v1 v2 v3 v4 v5 v6 v7 v8 : R) : List R :=
  [v1,
   v2,
   v4,
   v0,
   v8,
   v5]

def tArr2Mat_e1_o0 {R : Type} [Field R] (v0 v1 v2 v3 v4 v5 : R) : List R :=
  [v0,
   (1 / 2 : R) * v3,
   (1 / 2 : R) * v5,
   (1 / 2 : R) * v3,
   v1,
   (1 / 2 : R) * v4,
   (1 / 2 : R) * v5,
   (1 / 2 : R) * v4,
   v2]

def tMat2Arr_e1_o0 {R : Type} [Field R] (v0 v1 v2 v3 v4 v5 v6 v7 v8 : R) : List R :=
  [v0,
   v4,
   v8,
   2 * v1,
   2 * v5,
   2 * v2]

def tArr2Mat_e1_o1 {R : Type} [Field R] (v0 v1 v2 v3 v4 v5 : R) : List R :=
  [v5,
   (1 / 2 : R) * v2,
   (1 / 2 : R) * v0,
   (1 / 2 : R) * v2,
   v4,
   (1 / 2 : R) * v1,
   (1 / 2 : R) * v0,
   (1 / 2 : R) * v1,
   v3]

def tMat2Arr_e1_o1 {R : Type} [Field R] (v0 v1 v2 v3 v4 v5 v6 v7 v8 : R) : List R :=
  [2 * v2,
   2 * v5,
   2 * v1,
   v8,
   v4,
   v0]

def tArr2Mat_e1_o2 {R : Type} [Field R] (v0 v1 v2 v3 v4 v5 : R) : List R :=
  [v1,
   (1 / 2 : R) * v4,
   (1 / 2 : R) * v3,
   (1 / 2 : R) * v4,
   v2,
   (1 / 2 : R) * v5,
   (1 / 2 : R) * v3,
   (1 / 2 : R) * v5,
   v0]

def tMat2Arr_e1_o2 {R : Type} [Field R] (v0 v1 v2 v3 v4 v5 v6 v7 v8 : R) : List R :=
  [v4,
   v8,
   v0,
   2 * v5,
   2 * v2,
   2 * v1]

def tArr2Mat_e1_o3 {R : Type} [Field R] (v0 v1 v2 v3 v4 v5 : R) : List R :=
  [v3,
   (1 / 2 : R) * v0,
   (1 / 2 : R) * v4,
   (1 / 2 : R) * v0,
   v5,
   (1 / 2 : R) * v2,
   (1 / 2 : R) * v4,
   (1 / 2 : R) * v2,
   v1]

def tMat2Arr_e1_o3 {R : Type} [Field R] (v0 v1 v2 v3 v4 v5 v6 v7 v8 : R) : List R :=
  [2 * v1,
   2 * v2,
   v4,
   v0,
   v8,
   2 * v5]

def tFromEigens {R : Type} [Field R] (v0 v1 v2 v3 v4 v5 v6 v7 v8 v9 v10 v11 : R) : List R :=
  [v0 * v3 * v3 + v1 * v6 * v6 + v2 * v9 * v9,
   v0 * v3 * v4 + v1 * v6 * v7 + v2 * v9 * v10,
   v0 * v3 * v5 + v1 * v6 * v8 + v2 * v9 * v11,
   v0 * v3 * v4 + v1 * v6 * v7 + v2 * v9 * v10,
   v0 * v4 * v4 + v1 * v7 * v7 + v2 * v10 * v10,
   v0 * v4 * v5 + v1 * v7 * v8 + v2 * v10 * v11,
   v0 * v3 * v5 + v1 * v6 * v8 + v2 * v9 * v11,
   v0 * v4 * v5 + v1 * v7 * v8 + v2 * v10 * v11,
   v0 * v5 * v5 + v1 * v8 * v8 + v2 * v11 * v11]

def tArrayFromEigens_e0 {R : Type} [Field R] (v0 v1 v2 v3 v4 v5 v6 v7 v8 v9 v10 v11 : R) : List R :=
  [v0 * v3 * v3 + v1 * v6 * v6 + v2 * v9 * v9,
   v0 * v4 * v4 + v1 * v7 * v7 + v2 * v10 * v10,
   v0 * v5 * v5 + v1 * v8 * v8 + v2 * v11 * v11,
   v0 * v3 * v4 + v1 * v6 * v7 + v2 * v9 * v10,
   v0 * v4 * v5 + v1 * v7 * v8 + v2 * v10 * v11,
   v0 * v3 * v5 + v1 * v6 * v8 + v2 * v9 * v11]

def tArrayFromEigens_e1 {R : Type} [Field R] (v0 v1 v2 v3 v4 v5 v6 v7 v8 v9 v10 v11 : R) : List R :=
  [v0 * v3 * v3 + v1 * v6 * v6 + v2 * v9 * v9,
   v0 * v4 * v4 + v1 * v7 * v7 + v2 * v10 * v10,
   v0 * v5 * v5 + v1 * v8 * v8 + v2 * v11 * v11,
   2 * v0 * v3 * v4 + 2 * v1 * v6 * v7 + 2 * v2 * v9 * v10,
   2 * v0 * v4 * v5 + 2 * v1 * v7 * v8 + 2 * v2 * v10 * v11,
   2 * v0 * v3 * v5 + 2 * v1 * v6 * v8 + 2 * v2 * v9 * v11]

def tPrincipalPost {R : Type} [Field R] (v0 v1 v2 v3 v4 v5 v6 v7 v8 v9 v10 v11 : R) : List R :=
  [v2,
   v1,
   v0,
   v5,
   v8,
   v11,
   v4,
   v7,
   v10,
   -v7 * v11 + v8 * v10,
   v4 * v11 - v5 * v10,
   -v4 * v8 + v5 * v7,
   v2 * v5,
   v2 * v8,
   v2 * v11,
   v1 * v4,
   v1 * v7,
   v1 * v10,
   -v0 * v7 * v11 + v0 * v8 * v10,
   v0 * v4 * v11 - v0 * v5 * v10,
   -v0 * v4 * v8 + v0 * v5 * v7]

def tPrincipalEighArg_e0 {R : Type} [Field R] (v0 v1 v2 v3 v4 v5 : R) : List R :=
  [v3,
   v0,
   v4,
   v0,
   v5,
   v2,
   v4,
   v2,
   v1]

def tPrincipalEighArg_e1 {R : Type} [Field R] (v0 v1 v2 v3 v4 v5 : R) : List R :=
  [v3,
   (1 / 2 : R) * v0,
   (1 / 2 : R) * v4,
   (1 / 2 : R) * v0,
   v5,
   (1 / 2 : R) * v2,
   (1 / 2 : R) * v4,
   (1 / 2 : R) * v2,
   v1]

def tLteMatrix {R : Type} [Field R] (v0 v1 v2 v3 v4 v5 : R) : List R :=
  [v0,
   (1 / 2 : R) * v3,
   (1 / 2 : R) * v5,
   (1 / 2 : R) * v3,
   v1,
   (1 / 2 : R) * v4,
   (1 / 2 : R) * v5,
   (1 / 2 : R) * v4,
   v2]

def tLteGlobal2LocalPost {R : Type} [Field R] (v0 v1 v2 v3 v4 v5 v6 v7 v8 v9 v10 v11 : R) : List R :=
  [v0,
   v1,
   v2,
   v3,
   v6,
   v9,
   v4,
   v7,
   v10,
   0,
   0,
   0]

def tLteLocal2Global {R : Type} [Field R] (v0 v1 v2 v3 v4 v5 v6 v7 v8 v9 v10 v11 : R) : List R :=
  [v0 * v3 * v3 + v1 * v6 * v6 + v2 * v4 * v4 * v8 * v8 - 2 * v2 * v4 * v5 * v7 * v8 + v2 * v5 * v5 * v7 * v7,
   v0 * v4 * v4 + v1 * v7 * v7 + v2 * v3 * v3 * v8 * v8 - 2 * v2 * v3 * v5 * v6 * v8 + v2 * v5 * v5 * v6 * v6,
   v0 * v5 * v5 + v1 * v8 * v8 + v2 * v3 * v3 * v7 * v7 - 2 * v2 * v3 * v4 * v6 * v7 + v2 * v4 * v4 * v6 * v6,
   2 * v0 * v3 * v4 + 2 * v1 * v6 * v7 - 2 * v2 * v3 * v4 * v8 * v8 + 2 * v2 * v3 * v5 * v7 * v8 + 2 * v2 * v4 * v5 * v6 * v8 - 2 * v2 * v5 * v5 * v6 * v7,
   2 * v0 * v4 * v5 + 2 * v1 * v7 * v8 - 2 * v2 * v3 * v3 * v7 * v8 + 2 * v2 * v3 * v4 * v6 * v8 + 2 * v2 * v3 * v5 * v6 * v7 - 2 * v2 * v4 * v5 * v6 * v6,
   2 * v0 * v3 * v5 + 2 * v1 * v6 * v8 + 2 * v2 * v3 * v4 * v7 * v8 - 2 * v2 * v3 * v5 * v7 * v7 - 2 * v2 * v4 * v4 * v6 * v8 + 2 * v2 * v4 * v5 * v6 * v7]

end Femio.Gen
