#!/bin/bash
# tools/run_all.sh [quick|thorough] [ids...]: every registered check against /repo, 4 at a time; prints the verdict lines
cd "$(dirname "$0")/.."
tier=${1:-quick}; shift
ids=${@:-$(python3 -c "import json; print(' '.join(c['property_id'] for c in json.load(open('MANIFEST.json'))['checks']))")}
printf '%s\n' $ids | xargs -P 4 -I{} sh -c "./check {} --tier $tier 2>&1 | grep -v '^KNOWN-FINDING' | tail -1"
