#!/usr/bin/env python3
"""tools/run_seeded.py [<seeded-id> ...] [--tier quick|thorough] [--in-repo]

Runs the check of the property a seeded change breaks against that change and says whether it is detected.
Default: the patch is applied in a scratch worktree of /repo (removed afterwards) and the check is pointed
at it with FEMIO_REPO; with --in-repo the patch is applied to /repo itself (git apply … ; git checkout -- .)
exactly as the brief describes.  Also runs the demonstration with and without the change."""
import json
import os
import subprocess
import sys
import tempfile

HERE = os.path.dirname(os.path.dirname(os.path.abspath(__file__)))
SEEDED = os.path.join(HERE, 'seeded')


def sh(cmd, **kw):
    return subprocess.run(cmd, shell=True, stdout=subprocess.PIPE, stderr=subprocess.STDOUT, text=True, **kw)


def main():
    args = [a for a in sys.argv[1:] if not a.startswith('--')]
    tier = 'thorough' if '--thorough' in sys.argv else 'quick'
    in_repo = '--in-repo' in sys.argv
    ids = args or sorted(d for d in os.listdir(SEEDED) if os.path.isdir(os.path.join(SEEDED, d)))
    results = {}
    for sid in ids:
        d = os.path.join(SEEDED, sid)
        meta = json.load(open(os.path.join(d, 'meta.json')))
        prop = meta['property']
        patch = os.path.join(d, 'patch.diff')
        if in_repo:
            wt = '/repo'
            r = sh(f'git -C /repo apply {patch}')
        else:
            wt = tempfile.mkdtemp(prefix='femio-seeded-')
            os.rmdir(wt)
            sh(f'git -C /repo worktree add --detach {wt} HEAD -q')
            r = sh(f'git -C {wt} apply {patch}')
        if r.returncode != 0:
            print(sid, 'PATCH DOES NOT APPLY', r.stdout[-300:])
            results[sid] = 'patch-does-not-apply'
        else:
            demo = os.path.join(d, 'demo.py')
            dm = sh(f'PYTHONPATH={wt} /venv/bin/python {demo}', cwd=tempfile.gettempdir()) if os.path.exists(demo) else None
            env = dict(os.environ)
            if not in_repo:
                env['FEMIO_REPO'] = wt
            verdicts = []
            if dm is not None and dm.returncode == 0:
                # the demonstration passes WITH the change on this HEAD: a later fix: commit made the change harmless for
                # the property (meta.neutralised_by); nothing to detect
                print(f'{sid:28s} {prop} demo_with_change_exit=0 -> NEUTRALISED (the demonstration passes with the change on this HEAD: '
                      f'{(meta.get("neutralised_by") or {}).get("commit", "?")})')
                results[sid] = 'neutralised'
                if in_repo:
                    sh('git -C /repo checkout -- .')
                else:
                    sh(f'git -C /repo worktree remove --force {wt}')
                continue
            # meta['also_check']: other properties whose check is expected to see this change as well (a change that
            # needs a history manifests under the history property C19 / C08 even when it was seeded for another one)
            for pr in [prop] + list(meta.get('also_check', [])):
                out = sh(f'./check {pr} --tier {tier}', cwd=HERE, env=env)
                lines = [l for l in out.stdout.splitlines() if l.startswith('VIOLATION') or l.startswith(pr)]
                detected = any(l.startswith('VIOLATION') for l in lines)
                concrete = detected and not any('no-failing-input-found' in l for l in lines if l.startswith('VIOLATION'))
                v = ('detected+replay' if concrete else 'detected(no-failing-input-found)' if detected else 'MISSED')
                verdicts.append(f'{pr}:{v}')
                print(f'{sid:28s} {pr} demo_with_change_exit={dm.returncode if dm else "-"} -> {v}')
                for l in lines[-2:]:
                    print('    ', l[:200])
            results[sid] = ' '.join(verdicts)
        if in_repo:
            sh('git -C /repo checkout -- .')
        else:
            sh(f'git -C /repo worktree remove --force {wt}')
    print(json.dumps(results, indent=1))
    return 0


if __name__ == '__main__':
    sys.exit(main())
