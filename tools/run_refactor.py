#!/usr/bin/env python3
"""tools/run_refactor.py [ids...] [--all-checks]

Behaviour-preserving refactorings of femio (written blind by sub-agents from a property text only, kept under
/verif/refactors/<id>/: patch.diff, equiv.py, meta.json) are the negative control of the seeded changes: the
check of the property (with --all-checks: every registered check) must stay GREEN on a tree with the
refactoring applied.  The patch is applied in a scratch worktree of /repo (removed afterwards) and the check is
pointed at it with FEMIO_REPO."""
import json
import os
import subprocess
import sys
import tempfile

HERE = os.path.dirname(os.path.dirname(os.path.abspath(__file__)))
REF = os.path.join(HERE, 'refactors')


def sh(cmd, **kw):
    return subprocess.run(cmd, shell=True, stdout=subprocess.PIPE, stderr=subprocess.STDOUT, text=True, **kw)


def main():
    args = [a for a in sys.argv[1:] if not a.startswith('--')]
    all_checks = '--all-checks' in sys.argv
    ids = args or sorted(d for d in os.listdir(REF) if os.path.isdir(os.path.join(REF, d)))
    props_all = [c['property_id'] for c in json.load(open(os.path.join(HERE, 'MANIFEST.json')))['checks']]
    results = {}
    for rid in ids:
        d = os.path.join(REF, rid)
        meta = json.load(open(os.path.join(d, 'meta.json')))
        wt = tempfile.mkdtemp(prefix='femio-refactor-')
        os.rmdir(wt)
        sh(f'git -C /repo worktree add --detach {wt} HEAD -q')
        try:
            r = sh(f'git -C {wt} apply {os.path.join(d, "patch.diff")}')
            if r.returncode != 0:
                results[rid] = 'patch-does-not-apply'
                print(rid, 'PATCH DOES NOT APPLY')
                continue
            env = dict(os.environ, FEMIO_REPO=wt)
            verdicts = []
            todo = props_all if all_checks else [meta['property']] + list(meta.get('also_check', []))
            from concurrent.futures import ThreadPoolExecutor
            with ThreadPoolExecutor(4) as ex:
                outs = list(ex.map(lambda pr: sh(f'./check {pr} --tier quick', cwd=HERE, env=env), todo))
            for pr, out in zip(todo, outs):
                last = [l for l in out.stdout.splitlines() if l.startswith(pr + ' ')]
                viol = [l for l in out.stdout.splitlines() if l.startswith('VIOLATION')]
                ok = out.returncode == 0 and not viol
                verdicts.append(f'{pr}:{"green" if ok else "ALARM" if viol else "exit" + str(out.returncode)}')
                if not ok:
                    print('   ', (viol or last or [out.stdout[-300:]])[0][:220])
            results[rid] = ' '.join(verdicts)
            print(f'{rid:14s} {results[rid]}')
        finally:
            sh(f'git -C /repo worktree remove --force {wt}')
    print(json.dumps(results, indent=1))
    return 0


if __name__ == '__main__':
    sys.exit(main())
