#!/bin/bash
# tools/run_seeded_par.sh <jobs> <seeded ids...>: like run_seeded.py, but <jobs> at a time, each job with its own private copy of
# the Lean project (FEMIO_VERIF_LEAN, copied from /verif/lean including .lake) so that regenerated tables of different mutated
# trees do not disturb each other or the main build.  Output: one verdict line per (seeded id, property).
cd "$(dirname "$0")/.."
jobs=$1; shift
export TAG=-$$     # one private directory per invocation: concurrent invocations must not share slots
mkdir -p /root/work/par$TAG
for k in $(seq 1 $jobs); do
  rm -rf /root/work/par$TAG/lean$k; cp -r lean /root/work/par$TAG/lean$k
done
printf '%s\n' "$@" | xargs -P $jobs -I{} bash -c '
  slot=$(( ($(echo {} | cksum | cut -d" " -f1) ) ))
  # pick a free slot by lock file
  for k in $(seq 1 '$jobs'); do
    if mkdir /root/work/par$TAG/lock$k 2>/dev/null; then
      FEMIO_VERIF_LEAN=/root/work/par$TAG/lean$k python3 tools/run_seeded.py {} 2>&1 | grep -E "^C[0-9]{2}-[0-9]+ " ; rmdir /root/work/par$TAG/lock$k; exit 0
    fi
  done
  echo "{} NO-SLOT"'
rm -rf /root/work/par$TAG
