#!/bin/bash
# tools/run_refactor_par.sh <jobs> <refactor ids...>: like run_refactor.py, <jobs> at a time, each with a private copy of the Lean
# project (FEMIO_VERIF_LEAN) so that concurrent runs do not disturb each other or the main build.  One verdict line per id.
cd "$(dirname "$0")/.."
jobs=$1; shift
export TAG=-$$     # one private directory per invocation: concurrent invocations must not share slots
mkdir -p /root/work/parr$TAG
for k in $(seq 1 $jobs); do rm -rf /root/work/parr$TAG/lean$k; cp -r lean /root/work/parr$TAG/lean$k; done
printf '%s\n' "$@" | xargs -P $jobs -I{} bash -c '
  for k in $(seq 1 '$jobs'); do
    if mkdir /root/work/parr$TAG/lock$k 2>/dev/null; then
      FEMIO_VERIF_LEAN=/root/work/parr$TAG/lean$k python3 tools/run_refactor.py {} 2>&1 | grep -E "^C[0-9]{2}-r[0-9]+ " ; rmdir /root/work/parr$TAG/lock$k; exit 0
    fi
  done
  echo "{} NO-SLOT"'
rm -rf /root/work/parr$TAG
