#!/usr/bin/env python3
"""tools/coverage_report.py <Cxx> [--evidence-dir DIR]: prints the source lines of femio, inside the functions the property
is anchored in, that the last run of the check never executed (from evidence/<Cxx>.json: coverage.code_coverage)."""
import json, os, sys
HERE = os.path.dirname(os.path.dirname(os.path.abspath(__file__)))
prop = sys.argv[1]
evd = sys.argv[sys.argv.index('--evidence-dir') + 1] if '--evidence-dir' in sys.argv else os.path.join(HERE, 'evidence')
repo = os.environ.get('FEMIO_REPO', '/repo')
cov = json.load(open(os.path.join(evd, prop + '.json')))['coverage'].get('code_coverage', {})
print(f"{prop}: executed {cov.get('executed_by_this_run')} of {cov.get('executable_lines_in_anchors')} executable lines in the anchored functions")
for rel, info in cov.get('files', {}).items():
    if 'error' in info:
        print(rel, info['error']); continue
    print(f"\n== {rel}: {info['executed']}/{info['executable_lines']}  njit (not traceable): {info['njit_functions_not_traceable']}")
    src = open(os.path.join(repo, rel)).read().splitlines()
    for r in info['not_executed']:
        lo, _, hi = r.partition('-'); lo = int(lo); hi = int(hi or lo)
        for l in range(lo, hi + 1):
            print(f'  {l:5d}  {src[l-1]}')
        print('  ...')
