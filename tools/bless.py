#!/usr/bin/env python3
"""tools/bless.py: record the fingerprint of /repo's femio sources as the tree the harness was validated against
(blessed_tree.json).  Run after the clean-tree runs of every check are green on /repo's HEAD.  See common.tree_is_blessed."""
import json, os, subprocess, sys
HERE = os.path.dirname(os.path.dirname(os.path.abspath(__file__)))
sys.path.insert(0, HERE)
os.environ.setdefault('FEMIO_REPO', '/repo')
from harness import common as C
head = subprocess.run(['git', '-C', str(C.REPO), 'rev-parse', 'HEAD'], capture_output=True, text=True).stdout.strip()
dirty = subprocess.run(['git', '-C', str(C.REPO), 'status', '--porcelain', '--', 'femio'], capture_output=True, text=True).stdout.strip()
if dirty:
    sys.exit('refusing to bless a dirty tree:\n' + dirty)
json.dump({'fingerprint': C.tree_fingerprint(), 'repo_head': head}, open(os.path.join(HERE, 'blessed_tree.json'), 'w'), indent=1)
print('blessed', head)
