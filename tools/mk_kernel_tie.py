"""Writer of lean/Femio/Props/KernelTie.lean + lean/Femio/Audit/KernelTie.lean (tie S, DESIGN.md 2.5).

NOT part of a check run: Props/KernelTie.lean is a static file (the hand specification "which model kernel belongs to which
traced (api, element type, mode)" lives in `model()` below); this script only saves typing when a kernel is added to
`harness/gen_kernels.py: kernel_table()`.  It needs Gen/kernels.json of a run on the unchanged tree (the integer values in
the `example`s are computed from it).  Usage (private Lean copy!):
    FEMIO_VERIF_LEAN=/root/work/<pkg>/lean PYTHONPATH=/repo:/verif /venv/bin/python tools/mk_kernel_tie.py
then update KT_KERNELS in harness/c11.py if the kernel table changed.
"""
import sys
from pathlib import Path
sys.path.insert(0, str(Path(__file__).resolve().parent.parent))
from harness import common as C
from harness import gen_kernels as K

def P(i): return f'⟨x{i}, y{i}, z{i}⟩'
def pts(idx): return ' '.join(P(i) for i in idx)
def lst(idx): return '[' + ', '.join(P(i) for i in idx) + ']'
def args(n): return ' '.join(f'x{i} y{i} z{i}' for i in range(n))

def model(name, api, ty, mode, n, faces):
    """(list of (label, model expression)), doc"""
    cen = mode == 'centroid'
    if api == 'volume':
        if ty in ('tet', 'tet2'): return [('', 'tet6 ' + pts(range(4)))]
        if ty == 'hex': return [('', ('hexC24 ' if cen else 'hexLin6 ') + pts(range(8)))]
        if ty == 'pyr': return [('', ('pyrC24 4 ' if cen else 'pyrLin6 ') + pts(range(5)))]
        if ty == 'prism': return [('', ('prismC24 4 ' if cen else 'prismLin6 ') + pts(range(6)))]
        if ty == 'hexprism':
            return [('', 'hexLin6 ' + pts([0, 1, 2, 3, 6, 7, 8, 9]) + ' + hexLin6 ' + pts([0, 3, 4, 5, 6, 9, 10, 11]))]
        if ty == 'polyhedron':
            fl = '[' + ', '.join(lst(f) for f in faces) + ']'
            if cen:
                return [('', f'{K.multiplier(api, ty, mode, n, faces) // 6} * polyC6 kinv {fl}')]
            return [('', f'polyFan6 {fl}')]
    if ty == 'tri': return [('', 'triCross ' + pts(range(3)))]
    if ty == 'quad':
        if cen: return [('', 'quadCrossC ' + pts(range(4)) + ' 4')]
        if api == 'area': return [('V0', 'quadLinCross1 ' + pts(range(4))), ('V1', 'quadLinCross2 ' + pts(range(4)))]
        return [('', 'quadLinNormal ' + pts(range(4)))]
    if ty == 'polygon':
        fan = cen if api == 'area' else not cen
        return [('', f'polyFanCross {lst(range(n))}' if fan else f'polyCentroidCross {n} {lst(range(n))}')]
    raise KeyError(name)

import json
out = []
for name, api, ty, mode, n, faces in K.kernel_table():
    out.append((name, api, ty, mode, n, faces, model(name, api, ty, mode, n, faces)))

# ------------------------------------------------------------------ write the Lean files
import random
import re
from fractions import Fraction
polys = json.load(open(C.LEAN / 'Femio' / 'Gen' / 'kernels.json'))
rng = random.Random(11)
PTS = [[rng.randint(-3, 4) for _ in range(3)] for _ in range(12)]
PTS[0] = [1, 0, -2]

def evalp(comp, n):
    v = 0
    for m, a, d in comp:
        t = Fraction(a, d)
        for k in m:
            t *= PTS[k // 3][k % 3]
        v += t
    assert v.denominator == 1
    return int(v)

DOC = {
 'volume': 'calculate_element_volumes', 'area': 'calculate_element_areas', 'normal': 'calculate_element_normals'}
def what(api, ty, mode, n, faces, mult):
    if api == 'volume':
        s = f'`{mult} · calculate_element_volumes(mode="{mode}")` of one `{ty}`'
        if faces: s += f' with the faces {faces}'
        return s
    if api == 'area':
        return (f'`calculate_element_areas(mode="{mode}")` of one `{ty}`' + (f' with {n} nodes' if ty == 'polygon' else '') +
                f' is `(Σ_k ‖v_k‖) / {K.area_den(ty, mode, n)}` with the vector(s) `v_k` =')
    return (f'`calculate_element_normals(mode="{mode}")` of one `{ty}`' + (f' with {n} nodes' if ty == 'polygon' else '') +
            f' is the normalised vector `c` with `{mult} · c` =' if mult != 1 else
            f'`calculate_element_normals(mode="{mode}")` of one `{ty}`' + (f' with {n} nodes' if ty == 'polygon' else '') +
            ' is the normalised vector `c` =')

L = []
L.append('''import Femio.Gen.Kernels
import Femio.Model.GeomKernels
import Mathlib.Tactic.Ring
import Mathlib.Tactic.LinearCombination
import Mathlib.Tactic.NormNum
/-! # Tie S — the model kernels ARE the polynomials the code computes (symbolic-execution translator)

`Femio/Gen/Kernels.lean` is regenerated on every run by `harness/gen_kernels.py`: the real
`calculate_element_volumes / _areas / _normals` of the current working tree are executed on a single element
with *symbolic* node coordinates `x0 y0 z0 x1 …`; the polynomial that comes out (times the model's fixed integer
multiplier) is emitted as `Femio.Gen.kVol… / kArea… / kNormal…`.  Each theorem below states, over an arbitrary
commutative ring, that this polynomial equals the hand-written model kernel of `Model/Geom*.lean` /
`Model/GeomKernels.lean` on the points `⟨x0,y0,z0⟩, …` — proved by unfolding the model and `ring`, so Lean's kernel
re-checks it against what the code computes *now*.  A changed term in `geometry_processor.py` changes the generated
polynomial and the corresponding `KT_…` no longer builds.

Naming: `KT_<api>_<element type>_<mode>`; for each (type, mode) the right-hand side is what the model's dispatch
(`Femio.C11.volume / area / normal / volumePoly`) evaluates for that type and mode.  Areas: the code returns
`Σ_k c_k ‖v_k‖`; the generated vectors are `c_k · den · v_k` with `den = AreaNF.den`, so that
`area = (Σ_k √(normSq (model vector k))) / den` exactly as in the model.  Normals: the un-normalised vector (times the
stated integer).  Not covered here (tie P only): hex `gaussian` volume, quad `gaussian` area.
Each `KT_<kernel>` is followed by an `example` evaluating both sides at concrete integer points (`decide`). -/
open V3 Geom Femio.C11 Femio.Gen
namespace Femio.KT
set_option linter.unusedSimpArgs false
set_option linter.unusedVariables false
set_option linter.style.longLine false
set_option maxRecDepth 16000

/-- unfold the model kernels down to `+ − *` on the coordinates -/
macro "kt_model" : tactic => `(tactic| simp only [tet6, hexLin6, hexC24, quadC4, pyrLin6, pyrC24, prismLin6, prismC24,
    triCross, quadCrossC, quadLinCross1, quadLinCross2, quadLinNormal, polyFanCross, polyCentroidCross, polyFan6, faceFan6,
    faceCentroidK, cycPairs, consecPairs, vsum, vzero,
    List.getLast?_cons_cons, List.getLast?_singleton, List.dropLast, List.tail_cons, List.zip_cons_cons, List.zip_nil_right,
    List.zip_nil_left, List.map_cons, List.map_nil, List.foldr_cons, List.foldr_nil, List.sum_cons, List.sum_nil,
    V3.det, V3.cross, V3.sub, V3.add, V3.smul])

/-- every generated polynomial has integer coefficients after multiplication by the model's multiplier alone
    (a kernel whose scale is not 1 computes a different rational multiple than the model says) -/
theorem KT_integer_coefficients : ∀ p ∈ kernelScales, p.2 = 1 := by decide

section
variable {R : Type} [CommRing R]
''')
names = ['KT_integer_coefficients']
for name, api, ty, mode, n, faces, mdl in out:
    p = polys[name]
    a = args(n)
    mult = K.multiplier(api, ty, mode, n, faces)
    ln = K.lean_name(name)
    labs = p['labels']
    th = 'KT_' + name
    names.append(th)
    hyp = ''
    cen_poly = (ty == 'polyhedron' and mode == 'centroid')
    if cen_poly:
        ks = sorted({len(f) for f in faces})
        hyp = '(kinv : Nat → R) ' + ' '.join(f'(h{k} : kinv {k} * {k} = 1)' for k in ks) + ' '
    L.append(f'/-- {what(api, ty, mode, n, faces, mult)} -/')
    if len(labs) == 1:
        stmt = f'{ln} {a}\n      = {mdl[0][1]}'
        unfold = ln
        fin = 'ring'
    else:
        groups = {}
        for lab in labs:
            groups.setdefault(lab[:-1], []).append(lab)
        parts = []
        for (g, ls), (_, me) in zip(groups.items(), mdl):
            parts.append('(⟨' + ',\n      '.join(f'{ln}{l} {a}' for l in ls) + '⟩ : V3 R)\n      = ' + me)
        stmt = ' ∧\n    '.join(parts)
        unfold = ', '.join(ln + l for l in labs)
        fin = 'congr 1 <;> ring' if len(parts) == 1 else 'constructor <;> congr 1 <;> ring'
    if cen_poly:
        k12 = mult // 6
        pre = ''.join(f'  have e{k} : ({k12} : R) * kinv {k} = {k12 // k} := by linear_combination {k12 // k} * h{k}\n' for k in ks)
        proof = (pre + '  simp only [polyC6, List.map_cons, List.map_nil, List.sum_cons, List.sum_nil, List.length_cons, List.length_nil,\n'
                 '    Nat.reduceAdd, mul_add, mul_zero, add_zero, ← mul_assoc, ' + ', '.join(f'e{k}' for k in ks) + ']\n'
                 f'  simp only [{unfold}]; kt_model; ring')
    else:
        proof = f'  simp only [{unfold}]; kt_model; {fin}'
    L.append(f'theorem {th} {hyp}({a} : R) :\n    {stmt} := by\n{proof}')
    # example at concrete integer points
    ia = ' '.join(('(%d)' % v if v < 0 else str(v)) for i in range(n) for v in PTS[i])
    def IP(i): return '⟨' + ', '.join(str(v) for v in PTS[i]) + '⟩'
    vals = [evalp(c, n) for c in p['comps']]
    assert any(vals), name
    def inst(me):
        me = re.sub(r'⟨x(\d+), y\d+, z\d+⟩', lambda m: IP(int(m.group(1))), me)
        return me
    if cen_poly:
        L.append(f'example : {ln} (R := Int) {ia} = {vals[0]} ∧\n    ∃ kinv : Nat → ℚ, ' + ' ∧ '.join(f'kinv {k} * {k} = 1' for k in ks) +
                 ' :=\n  ⟨by decide, fun k => 1 / k, ' + ', '.join('by norm_num' for k in ks) + '⟩')
    elif len(labs) == 1:
        me = inst(mdl[0][1])
        head, rest = me.split(' ', 1)
        L.append(f'example : {ln} (R := Int) {ia} = {vals[0]} ∧\n    {head} (R := Int) {rest} = {vals[0]} := by decide')
    else:
        conj = []
        vi = 0
        for (g, ls), (_, me) in zip(groups.items(), mdl):
            v3 = vals[vi:vi + 3]; vi += 3
            me = inst(me); head, rest = me.split(' ', 1)
            conj.append('(⟨' + ', '.join(f'{ln}{l} (R := Int) {ia}' for l in ls) + f'⟩ : V3 Int) = ⟨{v3[0]}, {v3[1]}, {v3[2]}⟩')
            conj.append(f'{head} (R := Int) {rest} = ⟨{v3[0]}, {v3[1]}, {v3[2]}⟩')
        L.append('example : ' + ' ∧\n    '.join(conj) + ' := by decide')
    L.append('')
L.append('end\n')
L.append("""/-! ## the same, stated on the model's dispatch functions

`Femio.C11.volume / volumePoly / area / normal` (over `ℚ`) are what the driver evaluates for ties P and D and what the
per-type / per-mode theorems of `Props/C11*.lean` are instantiated with.  For every traced (element type, mode):
the model's value IS the traced polynomial over the model's denominator. -/

/-- close a dispatch goal after the traced polynomial has been rewritten into the model kernel -/
macro "kt_dispatch" : tactic => `(tactic| first | rfl | (simp [volume, volumePoly, area, normal]; done) |
    (simp [volume, volumePoly, area, normal]; norm_num))
""")
DISPATCH_EXAMPLES = {
    'vol_hex_linear': """/-- on the unit cube: 6 V = 6 -/
example : volume "hex" .linear [⟨0,0,0⟩, ⟨1,0,0⟩, ⟨1,1,0⟩, ⟨0,1,0⟩, ⟨0,0,1⟩, ⟨1,0,1⟩, ⟨1,1,1⟩, ⟨0,1,1⟩]
      = some ⟨kVolHexLinear 0 0 0 1 0 0 1 1 0 0 1 0 0 0 1 1 0 1 1 1 1 0 1 1, 6⟩ ∧
    kVolHexLinear (R := ℚ) 0 0 0 1 0 0 1 1 0 0 1 0 0 0 1 1 0 1 1 1 1 0 1 1 = 6 :=
  ⟨KT_dispatch_vol_hex_linear .., by norm_num [kVolHexLinear]⟩""",
    'normal_tri_centroid': """/-- on a right triangle with legs 2, 3: un-normalised normal (0, 0, 6) -/
example : normal "tri" .centroid [⟨0,0,0⟩, ⟨2,0,0⟩, ⟨0,3,0⟩] = some ⟨0, 0, 6⟩ := by
  rw [KT_dispatch_normal_tri_centroid]; norm_num [kNormalTriCentroidX, kNormalTriCentroidY, kNormalTriCentroidZ]""",
    'area_quad_centroid': """/-- on a 2 × 3 rectangle: area = √((32·6)²) / 32 = 6 -/
example : area "quad" .centroid [⟨0,0,0⟩, ⟨2,0,0⟩, ⟨2,3,0⟩, ⟨0,3,0⟩] = some ⟨[(32 * 6) * (32 * 6)], 32⟩ := by
  rw [KT_dispatch_area_quad_centroid]
  norm_num [kAreaQuadCentroidX, kAreaQuadCentroidY, kAreaQuadCentroidZ, V3.normSq, V3.dot]""",
}
dnames = []
def QL(idx): return '[' + ', '.join(P(i) for i in idx) + ']'
for name, api, ty, mode, n, faces, mdl in out:
    p = polys[name]; a = args(n); ln = K.lean_name(name); labs = p['labels']; th = 'KT_dispatch_' + name
    dnames.append(th)
    md = '.' + mode
    if api == 'volume' and ty == 'polyhedron':
        fl = '[' + ', '.join(lst(f) for f in faces) + ']'
        if mode == 'centroid':
            k12 = K.multiplier(api, ty, mode, n, faces) // 6
            ks = sorted({len(f) for f in faces})
            L.append(f'/-- `volumePoly {md}` on the faces {faces}: `{k12} · num` is the traced polynomial, `den = 6` -/')
            L.append(f'theorem {th} ({a} : ℚ) :\n    {k12} * (volumePoly {md} {fl}).num = {ln} {a} ∧\n    (volumePoly {md} {fl}).den = 6 := by\n'
                     f'  refine ⟨?_, rfl⟩\n  rw [KT_{name} (fun k => 1 / (k : ℚ)) ' + ' '.join('(by norm_num)' for k in ks) + ']; rfl')
        else:
            L.append(f'/-- `volumePoly {md}` on the faces {faces} -/')
            L.append(f'theorem {th} ({a} : ℚ) :\n    volumePoly {md} {fl} = ⟨{ln} {a}, 6⟩ := by\n  rw [KT_{name}]; kt_dispatch')
    elif api == 'volume':
        den = K.multiplier(api, ty, mode, n, faces)
        L.append(f'/-- `volume "{ty}" {md}`: the traced polynomial over {den} -/')
        L.append(f'theorem {th} ({a} : ℚ) :\n    volume "{ty}" {md} {QL(range(n))}\n      = some ⟨{ln} {a}, {den}⟩ := by\n  rw [KT_{name}]; kt_dispatch')
    elif api == 'normal':
        L.append(f'/-- `normal "{ty}" {md}`: the traced (un-normalised) vector -/')
        L.append(f'theorem {th} ({a} : ℚ) :\n    normal "{ty}" {md} {QL(range(n))}\n      = some ⟨' + ',\n      '.join(f'{ln}{l} {a}' for l in labs) + f'⟩ := by\n  rw [KT_{name}]; kt_dispatch')
    else:
        den = K.area_den(ty, mode, n)
        groups = {}
        for lab in labs: groups.setdefault(lab[:-1], []).append(lab)
        rads = ',\n      '.join('normSq ⟨' + ', '.join(f'{ln}{l} {a}' for l in ls) + '⟩' for ls in groups.values())
        rw = f'rw [KT_{name}]' if len(groups) == 1 else f'rw [(KT_{name} {a}).1, (KT_{name} {a}).2]'
        L.append(f'/-- `area "{ty}" {md}`: radicands = squared norms of the traced vectors, denominator {den} -/')
        L.append(f'theorem {th} ({a} : ℚ) :\n    area "{ty}" {md} {QL(range(n))}\n      = some ⟨[{rads}], {den}⟩ := by\n  {rw}; kt_dispatch')
    if name in DISPATCH_EXAMPLES:
        L.append(DISPATCH_EXAMPLES[name])
    L.append('')
names += dnames

L.append('end Femio.KT\n')
def wrap(text, width=150):
    res = []
    for line in text.split('\n'):
        ind = len(line) - len(line.lstrip(' '))
        while len(line) > width:
            cut = line.rfind(' ', ind + 8, width)
            if cut <= ind + 8:
                break
            res.append(line[:cut].rstrip())
            line = ' ' * (ind + 4) + line[cut + 1:]
            ind = ind  # continuation lines keep the deeper indent
        res.append(line)
    return '\n'.join(res)
open(C.LEAN / 'Femio' / 'Props' / 'KernelTie.lean', 'w').write(wrap('\n'.join(L)))
open(C.LEAN / 'Femio' / 'Audit' / 'KernelTie.lean', 'w').write(
    'import Femio.Props.KernelTie\n' + ''.join(f'#print axioms Femio.KT.{t}\n' for t in names))
print(len(names), 'theorems')
