#!/usr/bin/env python3
"""tools/seeded_table.py <log files...>: markdown table of the seeded changes (seeded/*/meta.json) with the verdict lines found in
the given run_seeded logs ("<id> <prop> demo_with_change_exit=.. -> verdict"); also updates seeded/RESULTS.json."""
import json, os, re, sys
HERE = os.path.dirname(os.path.dirname(os.path.abspath(__file__)))
res_file = os.path.join(HERE, 'seeded', 'RESULTS.json')
res = json.load(open(res_file)) if os.path.exists(res_file) else {}
for f in sys.argv[1:]:
    for line in open(f, errors='replace'):
        m = re.match(r'^(C\d\d-\d+)\s+(C\d\d) demo_with_change_exit=\S+ -> (\S+)', line)
        if m:
            res.setdefault(m.group(1), {})[m.group(2)] = m.group(3)
json.dump(res, open(res_file, 'w'), indent=1, sort_keys=True)
print('| seeded | what it breaks / needs | verdict of the check(s) |\n|---|---|---|')
for sid in sorted(d for d in os.listdir(os.path.join(HERE, 'seeded')) if os.path.isdir(os.path.join(HERE, 'seeded', d))):
    m = json.load(open(os.path.join(HERE, 'seeded', sid, 'meta.json')))
    t = (m.get('title') or m.get('what_breaks', ''))[:160].replace('|', '/')
    need = (m.get('needs_to_manifest') or '')[:200].replace('|', '/').replace('\n', ' ')
    v = ', '.join(f'{p}: {x}' for p, x in sorted(res.get(sid, {}).items())) or 'not run'
    print(f'| {sid} | {t}; needs: {need} | {v} |')
