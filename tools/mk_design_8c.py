import json,re
r5=json.load(open('/verif/seeded/ROUND5_FIRST_ATTEMPT.json'))
closed=json.load(open('/verif/tools/protocol/r5_closed.json'))
rows=[]
for p in range(1,21):
    for n in (9,10):
        sid=f'C{p:02d}-{n}'
        m=json.load(open(f'/verif/seeded/{sid}/meta.json'))
        t=(m.get('title') or m.get('what_breaks'))[:210].replace('\n',' ').replace('|','/')
        fa=r5.get(sid,'?')
        fa={'MISSED':'**missed**','detected+replay':'caught','detected(no-failing-input-found)':'half: `no-failing-input-found`'}.get(fa,fa)
        c=closed.get(sid,'–') if fa!='caught' else '–'
        rows.append(f'| {sid} | {t} | {fa} | {c} |')
old=[]
for sid in ('C01-7','C01-8','C10-8','C19-7','C19-8'):
    m=json.load(open(f'/verif/seeded/{sid}/meta.json'))
    t=(m.get('title') or m.get('what_breaks'))[:210].replace('\n',' ').replace('|','/')
    old.append(f'| {sid} | {t} | **missed** (state at session start) | {closed.get(sid,"–")} |')
txt='''### 8c. Fifth batch (round 5, fourth session): 40 changes, and what the 15 misses taught

Same protocol (`tools/protocol/SEEDING_PROMPT_round5.txt`; the authors saw the titles of the eight earlier changes of their property and
the list of kinds used so far, and were asked for other kinds: two cooperating sites, swallowed failures, state leaking between
objects / calls, iteration order, tie-breaking, conventions between two functions, rare types / options, boundary values, "only on the
second use"). **23 of 40 caught with a concrete replay at the first attempt, 2 half, 15 missed**
(`seeded/ROUND5_FIRST_ATTEMPT.json`). Ten new classes (K – T, `tools/protocol/ROUND5.md`, the text given to the strengthening
sub-agents): **K** non-injective relations in the input (two sections sharing a material, table key ≠ attribute name, twin groups);
**L** absolute tolerances on dimensional values (fields that are distinct but tiny in spread, clouds `np.allclose` calls equal); **M**
size and shape boundaries again (> 65536 rows, `n_hop` ≥ 4 on graphs of large diameter, n_node = n_element); **N** value kinds
(sequence-valued settings, unsigned / bool variables, ids ≤ 0, mixed int + float inputs, integer fields with fractional results); **O**
mixed-order meshes (tet + tet2 in one mesh); **P** formatting variants a reader must tolerate (several ids per line, blocks split in
two); **Q** partial state after a failure (a raising query followed by another, error-path clean-up deleting an existing file, a
mesh-only read after an interrupted save); **R** options that are only forwarded; **S** state that is stale only on DERIVED objects;
**T** luck — a change caught only when a random scene happens to have the needed structure is not caught (C16-1 / C16-6 had decayed
that way). Closed per property by sub-agents in private copies under the acceptance rules of §8a plus: the missed change reported with a
concrete replay for seeds 0 and 1 in the QUICK tier; clean tree green for seeds 0..4 quick and once thorough; the property's
refactorings green. Every strengthening also demonstrated its new streams on hand-made mutations that pass the old check.

| seeded | what it breaks | first attempt | what closed it (general mechanism; Lean) |
|---|---|---|---|
'''+'\n'.join(old+rows)+'''

Lessons worth keeping (each acted on in the harness of the property named, and written into `tools/protocol/ROUND5.md` for later rounds):
(1) *every identifier the API lets the user set twice* (dict key + object name, section → material) needs a generator in which the two
disagree and collide (C09, C01, C06); (2) *a numeric parameter must be drawn relative to the structure that makes it matter* (hop count
vs graph diameter C13; warp vs layer thickness C12; weight magnitude vs element size C15); (3) *the generator of a check must explore
the whole hypothesis of its own theorem* — C02's model accepted any blank-free name, the generator produced identifiers only; (4) *the
options of the operation under test are dimensions of the histories* (a mesh-only read between an interruption and the repairing default
read, C05); (5) *a failed call is an operation of the history* (C19, C07); (6) *run the operation on derived objects too* and evaluate
`observe_at` clauses on the returned object itself (C18, C09, C13, C04); (7) *where the model cannot express a dimension (ids ≤ 0, dtype,
layout, round-off) the oracle still runs on it and the affected step gets its own small model* (`UcdAlignInt` over ℤ, `TensorRound` in
binary64, `AttrLayout`); (8) *attribution to an open finding must be by mechanism, not by the name of the reader* — otherwise a new
trigger of the same symptom is filed under the known finding (C19: provenance now carries options / failed / modifier-written; C18: the
defect was repaired rather than listed, because a change with the same symptom was indistinguishable while the line was open); (9) an
identification made to keep a stream running (absent = None = 'STATIC') needs a separate literal comparison under its own signature
(C05); (10) detection that depends on luck decays (T).

Genuine defects of the unchanged tree found by the round-5 streams and repaired (one minimal unguarded `fix:` commit each, 220-test
baseline identical, `known_findings.json` `fixed:` entries, notes and candidate diffs under `findings/`): `resolve_degeneracy` left the
id → index tables of its result stale (4d81e0a, C18 — first suspected by a seeding sub-agent, reproduced by the strengthened check);
a ragged `!NGROUP` block raised (e5dce34, C03); an `!INITIAL CONDITION` given in two blocks kept only the last (e7e0a06, C01 — same
route); the cache load rewrote `settings['solution_type']` (153b989, C05); a narrow request id dtype wrapped the stored ids in `update` (48f1102, C08 — pandas `combine_first`; first seen as a
thorough-tier correspondence disagreement on the clean tree); the `time_series` flag was lost by save → load (7a818e7, C05: the former open
finding F6d, repaired together with the extension of the key-scheme model); a one-dimensional field broadcast in the transfer functions of the
mesh compressor (80f1bf5, C20) and their 'mean' accumulated in the dtype of the field (01094bc, C20). The last one came from the final clean-tree run of the thorough tier: `./check C09 --tier thorough` reported `facets:raises` in stream
`chain` — a one-type block cut out of a MIXED mesh carried object-dtype connectivity (`np.stack` of the object rows of the merged table) and
`to_facets()` on that derived object raised (653d314, regression input `corpus/C09/`). After these repairs the only open known
findings are the ones that are design decisions of femio: C19 (no cache invalidation after in-place modification; stored derived variables
ignore options), C16 (elemental hop graph vs its docstring) and C20 (volume change by admitted angle merges).

**Final state of the session** (`tools/run_seeded_par.sh 8 <all ids>` against /repo 653d314, the quick tier, default seed; verdicts in
`seeded/RESULTS.json`): of the **230 seeded changes of rounds 1 – 6, 227 are reported with a concrete replay and 3 are neutralised** by a
repair (C18-2, C18-6, C18-10: their demonstrations pass with the change on the repaired tree); none is missed and none is reported only
as `no-failing-input-found`. The 60 refactorings are green (§9); every check is green on the unchanged tree in the quick tier for seeds
0 – 5 and in the thorough tier (seed 0; C08 and C19 also seed 1).

**Round 6** (`seeded/*-11`, `*-12`, first attempts in `seeded/ROUND6_FIRST_ATTEMPT.json`; 15 properties: first the five whose round-5
changes were all caught — C06, C07, C11, C14, C15 — then, time-boxed to 30 minutes per author, C01, C02, C03, C04, C08, C09, C13, C17,
C18, C19). **30 changes: 21 caught with a replay, 1 half, 8 missed at the first attempt; all 9 closed the same session**, each by a
general mechanism: C06-12 variable names that are not identifiers (punctuated / colliding names in every C06 stream); C07-11 a
pre-existing EMPTY file treated as free (stream `file-kind`: empty, newline-only, binary, a symbolic link whose target is part of the
snapshot); C14-11 `calc_average=True` together with `ravel=True` (every keyword combination of `convert_nodal2elemental` incl. the plain
gather); C15-11 determinant underflow for tiny kernel weights (stream `kernel-scale`: absolute length unit × default `alpha`, weights
down to 1e-260, in scope only where binary64 still represents the problem; `C15_det_underflow_counterexample`); C15-12 a work array
reused across calls (`Held`: every array returned by every earlier call is kept as the caller keeps it and re-compared bit for bit after
every later call; `C15_held_results_stable`, `C15_work_array_counterexample`); C08-12 a write-through by `DataFrame.update` never
overwrites with NaN (NaN cells of an assignment through a slice are VALUES and are now generated); C04-11 `#` in a variable name
dropped as a comment line and C02-12 a one-step series returned as a plain table — in both the oracle was not blind, the HARNESS raised on
the garbled output (exit 2 = a miss; §1.1a "a harness that trips is a missed change": reports made robust, names are arbitrary comma-
and blank-free tokens, shapes checked before indexing, and a trip on a tree that differs from the blessed one is now reported as a
broken correspondence). C09-11 (`filter_with_ids` through `reindex(...).dropna(how='all')` drops a retained node whose value is NaN in every component; first
attempt half: the correspondence broke, `no-failing-input-found`, because no generated variable of C09 held a NaN — values travel to the
model as rationals) was closed by NaN rows / cells in the float64 variables of the oracle-only stream `signed` (token `nan` in the id-keyed
views: a value that is NaN in every component is still a value of its node).

'''
p='/verif/DESIGN.md'; s=open(p).read()
marker='## 9. Negative control: behaviour-preserving refactorings must stay green'
if '### 8c. Fifth batch' in s:
    i=s.index('### 8c. Fifth batch'); j=s.index(marker); s=s[:i]+txt+s[j:]
else:
    s=s.replace(marker, txt+marker)
open(p,'w').write(s)
print('ok')
