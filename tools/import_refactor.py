#!/usr/bin/env python3
"""tools/import_refactor.py <dir produced by a refactoring agent> <id>: confirms independently (scratch worktree of
/repo, removed afterwards) that the patch applies, that equiv.py prints the same digest on the unchanged and on
the refactored tree, and that the pinned baseline is unchanged; only then keeps it under /verif/refactors/<id>/."""
import json, os, shutil, subprocess, sys, tempfile
HERE = os.path.dirname(os.path.dirname(os.path.abspath(__file__)))
def sh(cmd, **kw):
    return subprocess.run(cmd, shell=True, stdout=subprocess.PIPE, stderr=subprocess.STDOUT, text=True, **kw)
def main():
    src, rid = sys.argv[1], sys.argv[2]
    wt = tempfile.mkdtemp(prefix='femio-import-'); os.rmdir(wt)
    sh(f'git -C /repo worktree add --detach {wt} HEAD -q')
    try:
        eq = os.path.join(src, 'equiv.py')
        a = sh(f'PYTHONPATH={wt} /venv/bin/python {eq}', cwd=tempfile.gettempdir())
        if sh(f'git -C {wt} apply {os.path.join(src, "patch.diff")}').returncode != 0:
            print('REJECT: patch does not apply'); return 1
        b = sh(f'PYTHONPATH={wt} /venv/bin/python {eq}', cwd=tempfile.gettempdir())
        same = a.returncode == 0 and b.returncode == 0 and a.stdout == b.stdout
        print(f'equiv.py: exit {a.returncode}/{b.returncode}, identical output: {same}')
        if not same:
            print('REJECT: equivalence script output differs'); print(a.stdout[-300:]); print(b.stdout[-300:]); return 1
        base = sh(f'python3 {HERE}/tools/baseline.py {wt}')
        print(base.stdout.strip().splitlines()[-1])
        if base.returncode != 0:
            print('REJECT: baseline changed'); return 1
        dst = os.path.join(HERE, 'refactors', rid); os.makedirs(dst, exist_ok=True)
        for f in ('patch.diff', 'equiv.py'):
            shutil.copy(os.path.join(src, f), dst)
        meta = json.load(open(os.path.join(src, 'meta.json')))
        meta['confirmed'] = {'repo_head': sh('git -C /repo rev-parse --short HEAD').stdout.strip(), 'equiv_identical': True,
                             'baseline_with_change': base.stdout.strip().splitlines()[-1]}
        json.dump(meta, open(os.path.join(dst, 'meta.json'), 'w'), indent=1)
        print('KEPT', dst); return 0
    finally:
        sh(f'git -C /repo worktree remove --force {wt}')
if __name__ == '__main__':
    sys.exit(main())
