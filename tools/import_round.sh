#!/bin/bash
# tools/import_round.sh <Cxx> <srcdir with out/a out/b> <first new index>: confirm the two proposals of a seeding agent
# independently (tools/import_seeded.py) and, when kept, run the property's check against them (tools/run_seeded.py).
cd "$(dirname "$0")/.."
P=$1; SRC=$2; N=$3
for sub in a b; do
  id=$P-$N; N=$((N+1))
  if [ -d "$SRC/out/$sub" ]; then
    python3 tools/import_seeded.py "$SRC/out/$sub" $id > /tmp/import-$id.log 2>&1
    tail -2 /tmp/import-$id.log | tr '\n' ' '; echo
    if [ -d seeded/$id ]; then
      mkdir -p /root/work/imp; rm -rf /root/work/imp/lean-$id; cp -r lean /root/work/imp/lean-$id
      FEMIO_VERIF_LEAN=/root/work/imp/lean-$id python3 tools/run_seeded.py $id 2>&1 | grep -E "^$id |VIOLATION" | head -6
      rm -rf /root/work/imp/lean-$id
    fi
  else echo "$id: no proposal in $SRC/out/$sub"; fi
done
