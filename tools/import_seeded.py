#!/usr/bin/env python3
"""tools/import_seeded.py <dir produced by a mutation agent> <seeded id>

Confirms a proposed change independently in a scratch worktree of /repo (removed afterwards) and, only if
everything holds, keeps it as /verif/seeded/<id>/ (patch.diff, demo.py, meta.json):
  1. the patch applies to /repo's HEAD;
  2. demo.py exits 0 on the unchanged tree and non-zero with the change;
  3. the pinned baseline (220 tests) passes exactly as before with the change (tools/baseline.py)."""
import json
import os
import shutil
import subprocess
import sys
import tempfile

HERE = os.path.dirname(os.path.dirname(os.path.abspath(__file__)))


def sh(cmd, **kw):
    return subprocess.run(cmd, shell=True, stdout=subprocess.PIPE, stderr=subprocess.STDOUT, text=True, **kw)


def main():
    src, sid = sys.argv[1], sys.argv[2]
    skip_tests = '--skip-tests' in sys.argv
    wt = tempfile.mkdtemp(prefix='femio-import-')
    os.rmdir(wt)
    sh(f'git -C /repo worktree add --detach {wt} HEAD -q')
    try:
        head = sh('git -C /repo rev-parse --short HEAD').stdout.strip()
        demo = os.path.join(src, 'demo.py')
        clean = sh(f'PYTHONPATH={wt} /venv/bin/python {demo}', cwd=tempfile.gettempdir())
        ap = sh(f'git -C {wt} apply {os.path.join(src, "patch.diff")}')
        if ap.returncode != 0:
            print('REJECT: patch does not apply to HEAD', ap.stdout[-300:])
            return 1
        mut = sh(f'PYTHONPATH={wt} /venv/bin/python {demo}', cwd=tempfile.gettempdir())
        print(f'demo: clean exit {clean.returncode}, with change exit {mut.returncode}')
        if clean.returncode != 0 or mut.returncode == 0:
            print('REJECT: demonstration does not discriminate')
            print(clean.stdout[-400:], mut.stdout[-400:])
            return 1
        base = 'skipped'
        if not skip_tests:
            b = sh(f'python3 {HERE}/tools/baseline.py {wt}')
            base = b.stdout.strip().splitlines()[-1]
            print(base)
            if b.returncode != 0:
                print('REJECT: baseline changed')
                return 1
        dst = os.path.join(HERE, 'seeded', sid)
        os.makedirs(dst, exist_ok=True)
        shutil.copy(os.path.join(src, 'patch.diff'), dst)
        shutil.copy(demo, dst)
        meta = json.load(open(os.path.join(src, 'meta.json')))
        meta['confirmed'] = {'repo_head': head, 'demo_exit_clean': clean.returncode, 'demo_exit_with_change': mut.returncode,
                             'demo_output_with_change': mut.stdout[-600:], 'baseline_with_change': base,
                             'how': 'tools/import_seeded.py in a scratch worktree of /repo (removed afterwards)'}
        json.dump(meta, open(os.path.join(dst, 'meta.json'), 'w'), indent=1)
        print('KEPT', dst)
        return 0
    finally:
        sh(f'git -C /repo worktree remove --force {wt}')


if __name__ == '__main__':
    sys.exit(main())
