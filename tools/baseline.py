#!/usr/bin/env python3
"""run the pinned baseline test command on /repo (guard off) and compare with /root/.vp/BASELINE.json"""
import json, subprocess, sys, tempfile, os, xml.etree.ElementTree as ET
repo = sys.argv[1] if len(sys.argv) > 1 else '/repo'
b = json.load(open('/root/.vp/BASELINE.json'))
x = tempfile.mktemp(suffix='.xml')
env = {k: v for k, v in os.environ.items() if k != 'RICOSJP_FEMIO_VERIF'}
subprocess.run(f'cd {repo} && /venv/bin/python -m pytest -ra -q -p no:cacheprovider --timeout=900 --continue-on-collection-errors --junitxml={x}',
               shell=True, stdout=subprocess.DEVNULL, stderr=subprocess.DEVNULL, env=env)
passed = set()
for tc in ET.parse(x).getroot().iter('testcase'):
    if not any(c.tag in ('failure', 'error', 'skipped') for c in tc):
        passed.add(f"{tc.get('classname')}::{tc.get('name')}")
os.unlink(x)
want = set(b['stable_pass'])
print('baseline', len(want), 'passed now', len(passed), 'missing', sorted(want - passed)[:10], 'new', len(passed - want))
sys.exit(0 if want <= passed else 1)
