#!/usr/bin/env python3
"""writes /verif/MANIFEST.json from the table below (one entry per property that has a check)"""
import json
import os
import subprocess
import sys

HERE = os.path.dirname(os.path.dirname(os.path.abspath(__file__)))
TECH = 'Lean 4 theorems over an executable model + checked correspondence (differential, line protocol) with /repo'

CLAIMED = {
    'C01': {
        'text': 'Proof: C01_codes_inverse, C01_prism_perm_involutive, C01_orientation (FrontISTR outward face cycles of the written row = '
                'femio\'s face tables, for tet/tet2/prism/hex/hex2; C01_prism_unpermuted_inverted shows the symmetric error), '
                'C01_float_roundtrip (%.pE vs float() at every precision), C01_roundtrip (WHOLE file: readMsh (writeMsh m) = canon m for '
                'every well-formed mesh incl. groups, section/material, temperatures, remove_useless_nodes), C01_format_insensitive (any '
                'sequence of G1 blank / G2 comment / G3 whitespace / G4 block-split steps on arbitrary text), C01_roundtrip_any_format are '
                'kernel-checked; tied to the tree by string-identical writer text on 13-digit decimals and model reader vs real reader on '
                'the written and G1-G6 mutated text.',
        'note': 'G4 for !EGROUP was false of the upstream code (finding G6, fixed); FrontISTR ordering convention is a hand spec; '
                '%.12E/float() rounding is runtime; the theorem right-hand side (canon) is evaluated by the driver and compared with the real reader',
        'technique': 'Lean 4 proof (string-level lexer/printer lemmas, table obligations by decide, ring for orientation) + differential correspondence of file text',
        'design': '4/C01',
    },
    'C02': {
        'text': 'Proof: C02_parse_render (the reader inverts the solver layout: both header layouts, every variable list, component counts, '
                'wrap widths and ids), C02_split_point (the walk-back lands exactly at the nodal/elemental boundary), C02_columns, '
                'C02_rebinding (per-type re-binding by id, uniform and mixed), C02_steps / C02_steps_latest / C02_step_of_name (numeric '
                'step order, latest step) and C02_timeseries_is_stack / C02_stack_spec are kernel-checked over token-level models; tied to '
                'the tree by the generated header constants (decide) and by model-rendered .res files read with the real reader.',
        'note': 'theorems reach the characters of the file (C02_parse_render_chars, C02_single_chars: printer / whitespace lexer proved); '
                'solver .res layout is a hand spec; >= 1 nodal variable; pd.read_csv quoting / CR handling in read_file not modelled; '
                'unreferenced nodes are a separately labelled stream',
        'technique': 'Lean 4 proof (parse-render inversion, chunk/unchunk with constant stride, sorting lemmas) + differential correspondence on rendered result files',
        'design': '4/C02',
    },
    'C03': {
        'text': 'Proof: C03_boundary / _spring / _cload_roundtrip (prescription set preserved for every NaN pattern, node subset and row order, '
                '3 dofs; C03_boundary_dof_gt3_lost shows the hypothesis is needed), C03_line_roundtrip, C03_fixtemp / _cflux_roundtrip, '
                'C03_group_expansion (group-name rows = explicit member rows), C03_solution_type, C03_file_roundtrip / C03_roundtrip (the '
                'WHOLE control file: readCnt (writeCnt c) = expectedCnt c) are kernel-checked; tied to the tree by '
                'identical control-file text and row-by-row table comparison incl. group-name files.',
        'note': '6-dof tables, all-NaN tables, cflux+pure_cflux are labelled outside streams; %.5E/%E/%.12E rounding is runtime',
        'technique': 'Lean 4 proof (prescription-set lemmas, line lexers) + differential correspondence of control-file text and parsed tables',
        'design': '4/C03',
    },
    'C04': {
        'text': 'Proof: C04_offsets (both header line indices computed by read_headers hit the written blocks, the two independent '
                'elemental offset formulas agree), C04_roundtrip(_printed) (read (write m) = expected m for all node/element/variable '
                'counts, parametric in print/parse), C04_tet2_first_order, C04_nothing_else_changes, C04_bound_to_same_ids are '
                'kernel-checked; tied to the tree byte for byte on the written file and by float bit patterns on the read side.',
        'note': 'parse(print v) = v for Python float repr is trusted; theorems reach the characters of the file (C04_roundtrip_chars); '
                'variables with their own id order proved for Cfg.fixed (C04_bound_to_same_ids_own_order); NaN compared as one token',
        'technique': 'Lean 4 proof (positional reader over segment lemmas) + byte-level differential correspondence of the UCD file and bit-pattern oracle',
        'design': '4/C04',
    },
    'C06': {
        'text': 'Proof: C06_index_translation (points in storage order, one cell row per element, ids[row[l]] = (vtkOrder conn)[l]), '
                'C06_export_succeeds, C06_point_data, C06_type_table (generated tables, decide), C06_tet2_perms_inverse, C06_tet2_edges '
                'are kernel-checked; tied to the tree by reading the real write(\'vtk\') output back with meshio and comparing with the model.',
        'note': 'the VTK file encoding is meshio\'s (the independent reader the property names); VTK cell numbers and mid-edge orders are hand specs',
        'technique': 'Lean 4 proof (id->position translation lemmas, table obligations by decide) + differential correspondence through meshio',
        'design': '4/C06',
    },
    'C05': {
        'text': 'Proof: over the directory state machine of save / read_directory (seven cache files; contents absent / torn / written '
                'from object t) C05_crash_inv, C05_history_inv and C05_crash_safe show that for every history of reads, saves and '
                'saves interrupted at ANY effect (optionally torn inside the next np.savez) a read returns the parse of the source '
                'or exactly one completely saved object; C05_full_save (no stale file survives), C05_cache_transparent and '
                'C05_load_complete_save cover the other clauses. Tied to the tree by (T) the traced order of real file effects of '
                'save() = saveSteps, and (D) random + exhaustive crash-point histories on real directories with injected crashes.',
        'note': 'crash = BaseException before/inside the k-th file effect, earlier effects durable and ordered; key scheme '
                '(to_dict/from_dict) modelled by Model/NpyKeys with the C05_keys_* theorems (incl. the time_series key); no open known finding',
        'technique': 'Lean 4 proof (directory-machine invariant over histories x crash points) + traced-effect tie + differential crash-injection histories',
        'design': '4/C05',
    },
    'C07': {
        'text': 'Proof: C07_no_clobber / C07_only_new_files / C07_spelling_independent are kernel-checked theorems over the '
                'model of write()\'s check/create plan for every format, name, file system and msh-only flag; the model is tied '
                'to the working tree on every run by an exhaustive differential enumeration (format x spelling x every subset '
                'of pre-existing candidate files x overwrite) whose outcomes must equal Femio.C07.observe for Cfg.fixed.',
        'note': 'stl/tvtk encoders are stubbed (not installed); mkdir and directories-as-targets not modelled; Path.parent computed by the harness',
        'technique': 'Lean 4 proof (guarded-plan invariant) + exhaustive differential correspondence of file-system outcomes',
        'design': '4/C07',
    },
    'C08': {
        'text': 'Proof: C08_inv / C08_reachable (invariant "positional table = id-keyed table, id2index = enumeration of ids" is '
                'preserved by every public update, hence by every finite history), C08_views_agree / C08_filter_with_ids (under '
                'the invariant every id-keyed read path returns the row stored at the id\'s position) and C08_mixed_once_sorted '
                '(flattened mixed collection: permutation of the blocks, strictly ascending ids, consistent id->position map) are '
                'kernel-checked for all id sets, tables and histories; tied to the tree by differential random histories on real '
                'FEMAttribute/FEMAttributes objects (state compared after every operation) plus the read-path oracle.',
        'note': 'pandas combine_first / label assignment semantics are modelled and validated by the correspondence only; '
                'time-series and ragged attributes are covered by the oracle, not the model',
        'technique': 'Lean 4 proof (state-machine invariant by induction over operation histories) + differential correspondence of histories',
        'design': '4/C08',
    },
    'C09': {
        'text': 'Proof: for all eight sub-mesh operations (cut by element ids / type / positions / node ids, remove_useless_nodes, '
                'to_first_order, to_surface, to_facets) C09_self_contained_<op>, C09_exact_selection_<op>, C09_values_attached_<op>, '
                'plus C09_sweep_correct / C09_sweep_error_iff for the two-pointer sweep, are kernel-checked over the transcribed model '
                '(27 theorems, explicit WF / Aligned hypotheses); tied to the tree by differential runs on seeded meshes with unsorted / '
                'sparse ids, unreferenced nodes and rank 1-3 variables.',
        'note': 'nodal variables aligned with the mesh order (misaligned variables are a separately labelled stream); pandas/numpy semantics by correspondence only',
        'technique': 'Lean 4 proof (id-keyed lookup lemmas, sweep correctness) + differential correspondence of result meshes as id-keyed maps',
        'design': '4/C09',
    },
    'C10': {
        'text': 'Proof: C10_element_closed (regenerated face tables, decide), C10_element_outward (ring), C10_boundary_spec / '
                'C10_fistr_scan_spec (both algorithms = faces whose sorted node tuple occurs once), C10_closed / C10_closed_manifold, '
                'C10_volume (surface flux = sum of element volumes, cancellation lemma over additive groups), C10_same_face_set, '
                'C10_fistr_same_keys, C10_obj_roundtrip are kernel-checked; hypotheses are Boolean functions the driver evaluates per mesh; '
                'tied by differential face sets / OBJ text and exact-rational volumes.',
        'note': 'quad faces measured by the centroid-fan flux (exact for planar faces); OBJ round trip proved down to characters '
                '(C10_obj_roundtrip_chars); STL export not runnable here',
        'technique': 'Lean 4 proof (boundary cancellation lemma, scan lemma, table obligations) + differential + exact-rational correspondence',
        'design': '4/C10',
    },
    'C11': {
        'text': 'Proof (commutative rings / ordered fields): for every volume kernel K (tet, hex linear/centroid/gaussian, pyr, prism, hexprism, '
                'polyhedron fan/centroid) K(p+t) = K p and K(A.p) = det A . K p (rotation invariance, reflection sign, s^3 scaling in one '
                'identity); area vectors transform with the cofactor matrix and radicands are invariant under rigid motion (s^4 under scaling, '
                'normals rotate); all modes agree with the closed form on affine cells; C11_relabel / C11_storage_perm(_mixed) via id-lookup '
                'lemmas; C11_polyC_translate, mode-defect identities and agreement of all modes on planar-faced (not only affine) hex / prism / '
                'pyramid cells (C11Modes); C11_brick_count / positive / sum for generate_brick. Ties: (S) a translator by symbolic execution runs the '
                'REAL calculate_element_volumes / _areas / _normals of the working tree on symbolic coordinates on every run, emits the traced '
                'polynomials (Gen/Kernels.lean) and 93 KT_ theorems prove by ring that each equals the model kernel and what the model dispatch '
                'returns (46 type x mode kernels); (P) exact-rational evaluation of every kernel x mode against the real float result '
                '(Schwartz-Zippel argument, N and grid size in the evidence); (D) differential id lookup / mixed-mesh assembly / brick connectivity.',
        'note': 'over exact fields; sqrt, float32 accumulators, the truncated Gauss constant and LAPACK are runtime (scale-relative tolerances); '
                'the two Gauss-abscissa kernels and arities other than those traced are tie P only; a kernel the tracer cannot execute is recorded '
                'and falls back to tie P (no alarm); trusted while tracing: Sym arithmetic, 3x3 det specification, formal norm, zero arrays, identity '
                'normalise, float-literal rationalisation',
        'technique': 'Lean 4 proof (ring identities proved structurally, lookup lemmas, counting bijection) + symbolic-execution translator of the real kernels '
                     'with kernel-checked equality to the model (tie S) + exact-rational P-tie + metamorphic oracle',
        'design': '4/C11',
    },
    'C12': {
        'text': 'Proof: C12_structure / C12_structure_count (cell incident to exactly its own faces; 1 or 2 cells per facet), C12_tet_sign, '
                'C12_hex_sign_convex, C12_mirror_sign, C12_area_sum_zero, C12_divergence, C12_normal_is_area_vector are kernel-checked; '
                'tied by differential facet lists / signed incidence triples and exact-rational areas, normals, centres.',
        'note': 'hex sign needs convexity as an explicit hypothesis; scalar area = |vector area| only for planar facets (sqrt not modelled)',
        'technique': 'Lean 4 proof (polynomial identities by ring / linear_combination, incidence structure lemma) + differential + exact-rational correspondence',
        'design': '4/C12',
    },
    'C13': {
        'text': 'Proof: C13_incidence(_order1), C13_adjacency_elem/node, C13_nhop_reach (n-hop = walks of length 1..n, by induction '
                'over Boolean matrix powers, with a refinement lemma down to the materialised arrays the driver executes), '
                'C13_laplacian_rowsum/offdiag/diag, C13_edge_gradient(_undirected), C13_e2v are kernel-checked for every mesh / '
                'adjacency; the model is tied to the working tree by an entry-by-entry differential comparison of every matrix '
                'on seeded uniform/mixed, first/second-order meshes with arbitrary ids and storage order.',
        'note': 'scipy Boolean sparse algebra reproduced by the model and validated by the correspondence; row order of the '
                'edge-gradient matrix / column order of e2v (scipy COO order) compared as sets; isolated vertices are outside e2v\'s theorem',
        'technique': 'Lean 4 proof (spec lemmas + induction on matrix powers + refinement) + differential correspondence of sparse matrices',
        'design': '4/C13',
    },
    'C14': {
        'text': 'Proof: C14_mean_of_nodes, C14_affine_at_centroid, C14_incidence_of_mesh, C14_mean_row_stochastic, C14_constants, C14_bounds, '
                'C14_weights_prop_size (ordered field, positive metrics, node touches an element), C14_effective_colsum, C14_effective_total '
                'are kernel-checked over the list/Rat model of convert_nodal2elemental / convert_elemental2nodal; tied to the tree by exact-'
                'rational evaluation against the real arrays for implicit / explicit / no weights, both modes, all widths.',
        'note': 'ordered-field arithmetic; float error within tolerance; convert_nodal2elemental raises on meshes mixing arities (transcribed)',
        'technique': 'Lean 4 proof (weighted-sum lemmas over Finset / lists) + exact-rational differential correspondence + law oracle',
        'design': '4/C14',
    },
    'C15': {
        'text': 'Proof (any field): C15_const_zero (every variant of the spatial-gradient operator has zero row sums), C15_affine_exact '
                '(with the moment-matrix correction the gradient of a.x+b is a at every vertex, interior or boundary, under IsUnit det M_i), '
                'C15_convenience (convenience functions = stack of the explicit matrices) over the transcription of '
                'calculate_spatial_gradient_adjacency_matrices; tied to the tree by exact-rational comparison of all three sparse matrices.',
        'note': 'kernel weights (exp / gauss x volume) are captured from the real call and are inputs of the model; inv / sqrt / float accuracy are runtime (scale-relative tolerance)',
        'technique': 'Lean 4 proof (Mathlib Matrix algebra over a field) + exact-rational differential correspondence of sparse operators',
        'design': '4/C15',
    },
    'C16': {
        'text': 'Proof: the octree k-nearest search refines an order-independent branch and bound (C16_branch_and_bound: skip / drop / expand / '
                'scan / reorder; C16_knn_refines, C16_knn_terminates with fuel = tree size, C16_knn_output incl. -1/inf padding, offset '
                'vectors and squared distances), C16_lb_sound / C16_ub_sound / C16_root_contains / C16_leaf_contains, C16_hausdorff (pruned '
                'max-min = brute force, symmetric = max of directed), C16_hop_graph / C16_hop_nodal_chain (BFS = reachability) are kernel-'
                'checked over Rat with squared distances; tied by integer-coordinate scenes (ties, duplicates, collinear / coplanar, k '
                'beyond |T|, bounds on realised distances) compared with the model and an exhaustive tie-tolerant oracle.',
        'note': 'binary64 rounding of the octree boxes is not modelled (the repaired octree-gap defect lived exactly there); elemental hop kernel '
                'is stricter than its docstring (open known finding)',
        'technique': 'Lean 4 refinement proof (abstract branch and bound -> concrete loop) + differential correspondence + exhaustive oracle',
        'design': '4/C16',
    },
    'C17': {
        'text': 'Proof: C17_arr_mat_inverse (all 720 component orders x both shear conventions over the generated index tables, symmetry), '
                'C17_principal / C17_principal_array (descending, orthonormal, right-handed, rebuilds the tensor, under the eigh post-condition), '
                'C17_invert_strain (twice = identity, 1+lambda != 0 derived), C17_lte_roundtrip, C17_align_nnz are kernel-checked; tied to the '
                'tree by the generated tables and exact-rational evaluation on captured eigh outputs.',
        'note': 'numpy.linalg.eigh post-condition is an explicit hypothesis checked numerically per call; no-mutation clause is an aliasing fact checked by snapshot only',
        'technique': 'Lean 4 proof (index-table decide + Mathlib matrix identities) + exact-rational correspondence + inverse-law oracle',
        'design': '4/C17',
    },
    'C18': {
        'text': 'Proof: C18_pos_correct (argsort[searchsorted] = storage position), C18_pyr_table / C18_poly_closed / C18_poly_own_nodes / '
                'C18_poly_outward_volume over the polyhedron tables regenerated under a non-identity argsort, C18_degeneracy (four collapse '
                'patterns keep id, node set, volume) / C18_degeneracy_untouched, C18_positive, C18_permute_table are kernel-checked; tied by '
                'differential face lists / element blocks on meshes with non-ascending storage order and exact-rational volumes on fresh objects.',
        'note': 'make_elements_positive modelled for tets only (femio raises otherwise); volumes are centroid kernels',
        'technique': 'Lean 4 proof (searchsorted position lemma, table obligations by decide, ring) + differential + exact-rational correspondence',
        'design': '4/C18',
    },
    'C19': {
        'text': 'Proof (partial, by the property\'s own standard): over the cache model (one LRU per cached method with the generated '
                'capacities, keys (object, argument spelling), nested cached calls with traced keys and receivers, values = mesh-version '
                'stamps) access_good / C19_history_independent_partial show that in every history WITHOUT in-place modifiers, over any '
                'number of objects, every query returns the value of the current mesh; C19_history_independent proves the full statement '
                'for the configuration in which modifiers clear the caches, which the tree does not implement: the decided counterexamples '
                'C19_stale_lru / C19_stale_nested / C19_eviction_refreshes are replayed on the real code and listed as open known findings. '
                'Tie: traced nested-call graph + per-query cache hit/miss counts of random interleavings must equal the model\'s.',
        'note': 'functools.lru_cache semantics assumed (LRU, insert after return, key spelling); stored derived variables '
                '(volume/area/metric) and user-data-untouched are checked by the oracle (fresh-mesh comparison, snapshots), not by the model',
        'technique': 'Lean 4 proof (freshness invariant over nested LRU accesses and histories) + traced call graph + differential hit/miss correspondence',
        'design': '4/C19',
    },
    'C20': {
        'text': 'Proof: C20_pipeline_invariant / C20_pipeline_output / C20_pipeline_flux: for EVERY finite sequence of the modelled compress() '
                'steps (merge any grouping of cells, merge faces along any admissible edge, remove_vertices_2, merge any vertex pair, shrink, '
                'reindex; the heuristic only chooses among them) from closed cells, all cells stay closed with >= 3 distinct nodes per face, the '
                'listed nodes are exactly the used ones, and the total flux (volume) is kept by every run that merges no vertices and merges '
                'faces only when coplanar; C20_check_polyhedron_spec / C20_checker_sound (the coded checker implies closed cells with >= 3 distinct nodes per face), '
                'C20_merge_closed_additive / C20_merge_closed, C20_edge_merge(_flux), C20_nodes_exact (reindex), C20_mean_constants(_back), '
                'C20_sum_total(_back), C20_rows_cols_nonempty are kernel-checked step theorems; every cell of every real compress() output '
                'goes through the verified checker in the driver (validation, labelled so); merge / reindex / remove-edge steps and the four '
                'transfer functions are compared with the model on the real conversion matrices; volumes by exact rationals.',
        'note': 'the CHOICES of the heuristic (hashing seed, float thresholds, greedy orders) are universally quantified, not modelled; '
                'removeOneEdge spec vs literal transcription tied by differential test on every traced call; volume clause is an open known '
                'finding for thresholds admitting non-coplanar merges',
        'technique': 'Lean 4 proof of step lemmas + verified checker applied per output (validation) + differential correspondence on real matrices',
        'design': '4/C20',
    },
}

PENDING_REASON = 'no check registered in this revision yet (model/proofs under construction, see DESIGN.md section 4)'

# third session: what was added per property (appended to the text / note of the entry)
ADDENDA = {
    'C03': ('History dimension: C03_history_roundtrip / _property / _fresh / _fresh_any_cfg / _poke_state (FistrCntHist: a live kind = ids + array + frame; '
            'a fresh object is written identically by a .data writer and a frame writer, a modified one is not); the tie also runs on objects modified '
            'through public means between construction and write (snapshot of the public state just before write, write twice, rebuilt fresh object, '
            'read-modify-write-read).', ''),
    'C04': ('History dimension: C04_history_roundtrip, C04_write_leaves_object, C04_second_write_same_file, C04_file_of_public_state_only, '
            'C04_stale_frame_counterexample (UcdHist session model); the tie also runs on modified / re-written / read-then-written objects and compares '
            'every file on disk with the session model.', ''),
    'C05': ('Interruptions of both kinds: process death AND an exception that unwinds the stack (clean-up effects traced, hypothesis GoodUnwind evaluated per '
            'traced run): C05_crash_inv_unwind, C05_history_inv_unwind, C05_crash_safe_unwind, C05_read_interrupt_inv, C05_interrupted_read_transparent, '
            'C05_unwind_counterexample_marker_in_finally.', 'the clean-up effects are a traced parameter, not derived from the source of save()'),
    'C06': ('Histories: C06_history_export, C06_history_coherent, C06_export_after_history, C06_exports_invisible, C06_ids_setter_counterexample (MeshioHist: '
            'public state + cached id2index table); the tie runs on snapshots of live objects after public modifications, queries and repeated exports.', ''),
    'C07': ('Oracle-only streams (snapshot comparison, the theorems do not depend on the object written): rich mixed object, default target name, '
            'pre-existing files with realistic content, exotic spellings (path leaving a missing directory again, glob meta-characters, blanks, non-ASCII).', ''),
    'C08': ('Histories with RETAINED slices / references and collections: C08_hist_inv, C08_hist_reachable, C08_keepRef_noop, C08_write_through_by_id, '
            'C08_held_write_by_id, C08_collection_filter, C08_collection_set_attribute, C08_counterexample_iloc_scalar, C08_counterexample_slice_alias; state of '
            'the attribute and of every held slice compared with the model after every op.', ''),
    'C09': ('C09_surface_once_only (the surface elements are exactly the once-only faces: sound, complete, not repeated), surface_keep / facets_all variants, '
            'C09_radix_key_injective / _counterexample; small-sparse id styles, renumber and intensify oracle streams.', ''),
    'C10': ('C10_flux_similarity, C10_volume_similarity, C10_enclosed_volume_translate; oracle on objects modified through public means, under 14 scale / offset '
            'transforms against the base mesh, and in shuffled operation histories with snapshots of parent and derived objects.', ''),
    'C12': ('C12_similarity_area / _sign (why the exact model cannot see float effects); oracle streams absolute-scale and far-offset against exact integer '
            'reference geometry with conditioning-derived tolerances.', 'the scale / offset streams are bounded testing of float behaviour, not proof'),
    'C13': ('C13_nhop_mono, _selfloop_diag, _step(_selfloops), _step_noloop_counterexample, C13_memo_history(_fresh), C13_memo_wrong_key_counterexample; every '
            'option combination in shuffled sequences with repeats and call spellings on one live object, returned matrices and user data re-compared.', ''),
    'C14': ('C14_call_returns_arguments, C14_history_fresh, C14_history_value, C14_inplace_counterexample; bit-exact snapshots of every caller-supplied argument, '
            'sequences reusing argument objects, weight-level oracle through indicator fields.', ''),
    'C15': ('C15_translation_invariant, C15_moment_expanded; oracle stream translated (offsets 1e3..1e7 element sizes) with tolerances derived from the harness\'s '
            'own cond(M); all option combinations in live sequences on one object.', 'loss of precision in absolute-position formulas and history independence are checked by the oracle, not proved'),
    'C16': ('Scene style near-plane (integer points at the meeting planes of the octree boxes of a root box of extent 1e7..4e7) found the incomplete octree repair '
            '(fixed 01a357a).', ''),
    'C18': ('Histories: C18_positive_any_history, C18_positive_history_partial, C18_stored_metric_counterexample (Cfg.freshMetric); the three operations run after '
            'random prior histories of public queries and are judged against rebuilt fresh objects only.', ''),
    'C19': ('C19_stale_needs_stale_entry (a stale answer needs an already stale entry of the same object: soundness of the provenance-based attribution), '
            'C19_fresh_object_stays_fresh; [A, modifier, B] for all ordered query pairs, derived objects and polyhedron meshes as live objects, bit-exact '
            'snapshots of every live object after every operation.', ''),
    'C20': ('Admission decision: C20_admit_iff_cos, C20_unsigned_test_counterexample, C20_fan_normal_rotate(_k), C20_upstream_normal_counterexample, '
            'C20_upstream_admits_knife_edge (CompressAdmit), tied per applied merge (c20.admit); sharp-edge body shapes and thin-layer transfer streams.', ''),
}
for _p, (_t, _n) in ADDENDA.items():
    if _p in CLAIMED:
        CLAIMED[_p]['text'] = CLAIMED[_p]['text'] + ' THIRD SESSION: ' + _t
        if _n:
            CLAIMED[_p]['note'] = CLAIMED[_p]['note'] + '; ' + _n


# fourth session: what was added per property (appended to the text / note of the entry)
ADDENDA4 = {
    'C01': ('C01_assign_complete / C01_assign_sound (material assignment for several one-material sections on disjoint groups, any table orders; '
            'Model/FistrSections), C01_assign_dict_counterexample, C01_split_initial_counterexample; two further D ties (section / material lines '
            'string-identical, assignOfRead on the written text = the reader\'s elemental data); structured fields (tiny-distinct, near-uniform), '
            'dtype / layout, > 65536 rows per block, variant G7 (split !INITIAL CONDITION: repaired e7e0a06).',
            'C01_roundtrip itself covers one section; several sections are covered by the assignment theorems + ties'),
    'C02': ('C02_res_glob_any_stem, C02_res_glob_listing, C02_res_file_name (Model/ResDir: which files of a directory read_directory takes for result '
            'files; tied on the real directory listing, c02.find); directory layout as an input (independent mesh / control / result stems, bystander '
            'files), variable names that are not identifiers.', ''),
    'C03': ('C03_ngroup_layout, C03_ngroup_layout_independent (every chunking of a member list into lines / blocks denotes the member list), '
            'C03_ngroup_first_id_counterexample, C03_ngroup_ragged_counterexample_upstream (Model/FistrCntGroups; the model reads the groups from the mesh '
            'TEXT, c03.readfiles); ragged !NGROUP blocks repaired e5dce34.', ''),
    'C04': ('C04_align_by_key, C04_align_any_sign, C04_dense_table_counterexample (Model/UcdAlignInt: _align_data over integer ids of any sign; tie '
            'c04.align); ids <= 0 / at the int32 limits, narrow id dtypes, n_element = n_node, derived objects, > 65536 rows in all four tables.',
            'the character-level model has natural-number ids: objects with an id <= 0 are judged by the oracle, the fresh-object comparison and c04.align'),
    'C05': ('Read options as history dimensions: C05_read_opt_default / _inv / _safe, C05_history_inv_opt, C05_crash_safe_opt, '
            'C05_mesh_only_by_existence_counterexample (readOpt / cacheTrusted / xstep); staged saves: C05_staged_sorted_counterexample, '
            'C05_staged_marker_last_good; key scheme extended by the time_series key: all C05_keys_* re-proved, C05_keys_time_series_flag_roundtrip, '
            'C05_keys_counterexample_no_flag (Cfg.tsFlag detected from behaviour). F6d (time series) repaired 7a818e7, solution_type default '
            'repaired 153b989: NO open finding is left for C05; time series are inside the exactness oracle and the histories.',
            'elemental time series only on single-type meshes (femio cannot construct them over several types)'),
    'C06': ('Variable names that are arbitrary blank-free tokens (punctuation, names differing only in such a character) in every stream.', ''),
    'C07': ('Stream file-kind: pre-existing files that are empty (the mkstemp / touch placeholder), one newline, binary, or a symbolic link whose target is '
            'part of the byte-for-byte snapshot.', ''),
    'C08': ('C08_unsigned_guard_vacuous, C08_signed_guard_sound, C08_counterexample_unsigned_shortcut, C08_layout_C_roundtrip, C08_layout_A_symmetric, '
            'C08_counterexample_layout_A (Model/AttrLayout), C08_update_request_order (the table after an update is invariant under permuting the '
            'request), C08_counterexample_mask_update; by-id oracle after every public update at every level (= C08_update_spec on the real object); dtype and '
            'memory layout in every stream. F20 (narrow request id dtype wraps stored ids) repaired 48f1102.', ''),
    'C09': ('C09_table_by_key, C09_filter_keeps_keys, C09_table_rekey_by_name_counterexample, C09_table_rekey_blind (variable tables keyed by the table KEY, '
            'not the attribute name); stream chain (operations on derived / live objects judged against a snapshot), ids <= 0, narrow dtypes, tet + tet2, '
            'n_node = n_element. Regression 9dd4ddb found by this check.', ''),
    'C10': ('C10_obj_blockwise, C10_obj_roundtrip_blockwise (a line-terminated writer is independent of the cut into blocks: the character-level round trip '
            'holds at any size), C10_obj_blockwise_joined_counterexample; size-boundary stream (> 2^16 nodes and facets in every quick run, exactly 2^k +- in '
            'thorough), ids <= 0, independent OBJ parser.', 'the model is not run on the large meshes (oracle with numpy)'),
    'C11': ('Salvaged round-4 strengthening: polygon meshes with non-convex / hanging-node polygons from every start node.', ''),
    'C12': ('C12_hex_sign_meanplane (sign rule under the mean-plane hypothesis: C12_hex_sign_convex is vacuous on skew faces), '
            'C12_first_node_reference_counterexample, C12_planar_reference_point; stream warped-layers with exact vector-area closure (c12.meanplane per cell), '
            'square-shapes.', 'hull convexity => mean-plane hypothesis is not proved; assertions only where both hold'),
    'C13': ('C13_nhop_add, C13_nhop_double (reachability within a+b hops = Boolean product), C13_nhop_binary_power_counterexample; hop counts drawn relative to '
            'the graph diameter, large-diameter chains / rings, the reachability oracle is the recurrence, numpy hop counts, ids <= 0, derived objects.', ''),
    'C14': ('Every keyword combination of convert_nodal2elemental (calc_average + ravel, the plain gather in connectivity order).', ''),
    'C15': ('C15_row_weight_scale, C15_integer_affine_field, C15_det_underflow_counterexample, C15_held_results_stable, C15_work_array_counterexample; stream '
            'kernel-scale (absolute length unit x default alpha: weights down to 1e-260), every returned array held and re-compared after every later call, '
            'graded meshes, integer / float32 fields.', ''),
    'C16': ('C16_ub_needs_abs_counterexample, C16_hausdorff_positive, C16_hausdorff_directed_not_symmetric; deliberate scene styles near-tie and near-identical, '
            'three public Hausdorff questions per scene (symmetric, directed, roles exchanged), absolute-scale stream.', ''),
    'C17': ('Tie S (DESIGN 2.3b): 25 TT_ theorems (Props/TensorTie) - the tensor helpers EXECUTED on symbolic components (harness/gen_tensor_kernels.py -> '
            'Gen/TensorKernels.lean, regenerated on every run) = the model functions, by ring over every field; C17_align_cast_exact, '
            'C17_align_cast_roundoff_counterexample (binary64 model Model/TensorRound, tie R bit for bit with 4 ulp slack); mixed-dtype align_nnz lists with '
            'deliberately inexact dummy sums, structured special tensors, large sparse shapes.', ''),
    'C18': ('C18_table_current, C18_stale_table_counterexample (Props/C18Derived); stream derived (objects obtained by chains of public calls), observe_at '
            'evaluated on the returned object; resolve_degeneracy stale tables repaired 4d81e0a.', ''),
    'C19': ('C19_failed_query_invisible, C19_partial_table_counterexample, C19_make_positive_drops_table, C19_make_positive_flip_counterexample, '
            'C19_stored_options_ignored_counterexample (Model/StoredMetric); provenance carries the options of the storing query / whether it failed / whether a '
            'modifier wrote the variable: new violation classes history-dependent, left-by-failed-query, modifier-rewrote-derived; user-variable layouts incl. '
            'one-step series compared as stored.', 'the StoredMetric model is tied by the oracle only'),
    'C20': ('C20_sum_truncation_counterexample, C20_mean_wrap_eq, C20_mean_narrow_accumulation_counterexample, C20_merge_via_table_eq, '
            'C20_table_valid_after_merge, C20_stale_table_counterexample (Props/C20Round5: the once-per-sweep vertex -> cell table of merge_vertices, dtype '
            'effects of the transfers); the transferred FIELD as a generator dimension (dtype / layout / rank, snapshot of the source, literal round trip), '
            'stream chain-collapse; one-dimensional fields (80f1bf5) and narrow-dtype accumulation (01094bc) repaired.', ''),
}
for _p, (_t, _n) in ADDENDA4.items():
    if _p in CLAIMED and _t and not _t.startswith('@'):
        CLAIMED[_p]['text'] = CLAIMED[_p]['text'] + ' FOURTH SESSION: ' + _t
        if _n:
            CLAIMED[_p]['note'] = CLAIMED[_p]['note'] + '; ' + _n


def main():
    props = [json.loads(l)['id'] for l in open(os.path.join(HERE, 'properties.jsonl'))]
    checks = []
    for p in props:
        if p not in CLAIMED:
            continue
        c = CLAIMED[p]
        checks.append({
            'property_id': p,
            'quick_cmd': f'./check {p} --tier quick',
            'thorough_cmd': f'./check {p} --tier thorough',
            'evidence_file': f'/verif/evidence/{p}.json',
            'replay_cmd_template': f'./check {p} --replay {{path}}',
            'engine': 'lean4+correspondence',
            'level_claimed': {'category': 'proof', 'text': c['text'], 'design_ref': 'DESIGN.md section ' + c['design']},
            'level_note': c['note'],
            'technique': c.get('technique', TECH),
        })
    hooks = []
    m = {
        'version': 1,
        'setup_cmd': 'cd /verif && ./check --setup',
        'hooks': {
            'guard': 'RICOSJP_FEMIO_VERIF',
            'enable': 'no source hooks are needed: crash points, traces and cache statistics are obtained by wrapping library '
                      'functions from the harness; ./check exports RICOSJP_FEMIO_VERIF=1 for uniformity',
            'baseline_off_cmd': 'cd /repo && /venv/bin/python -m pytest -ra -q -p no:cacheprovider --timeout=900 --continue-on-collection-errors',
            'source_commits': hooks,
            'add_only': True,
        },
        'engines': [{
            'name': 'lean4+correspondence', 'path': 'lean/ (Femio library, femio_driver) + harness/ (Python)',
            'serves_properties': [c['property_id'] for c in checks],
            'kind_free_text': 'Lean 4.33 theorems over hand-written executable models; tables regenerated from /repo '
                              '(harness/gen_tables.py); differential correspondence against real femio through a line protocol',
        }],
        'checks': checks,
        'notes': 'Every check: regenerate tables from /repo -> lake build the property modules -> audit #print axioms -> '
                 'correspondence + property oracle on real femio -> verdict (DESIGN.md 1.1). known_findings.json lists fixed/open findings.',
        'not_applicable': [{'property_id': p, 'reason': PENDING_REASON} for p in props if p not in CLAIMED],
    }
    with open(os.path.join(HERE, 'MANIFEST.json'), 'w') as f:
        json.dump(m, f, indent=1)
    print('claimed:', [c['property_id'] for c in checks])


if __name__ == '__main__':
    main()
