"""C16 - spatial searches return exactly what brute force returns (DESIGN.md section 4, C16).

Tie D on integer-coordinate point sets (every squared distance is an exact binary64 integer, so the real
kernels' comparisons are the model's comparisons on squared values):

* k-nearest nodes: public `nearest_neighbor_search_from_nodes_to_nodes` for every (k, bound) of a sweep per scene (k = 1 ..
  beyond |targets|; bounds inf, 0, tie values, tie values -/+ 1); the harness wraps `build_octree_node` and hands back the tree
  it already built for bit-identical arguments, so a sweep costs one real build -- index / vector / distance arrays compared
  entry by entry with `Femio.C16.knn` (the heap order (d2, -idx) fixes the order also on ties); oracle = exhaustive search, tie
  tolerant (any valid choice among equidistant targets).
* Hausdorff: the three PUBLIC questions per pair of objects -- symmetric, directed self -> target, directed with the roles
  exchanged -- plus both directed kernels on the captured octrees (skipped if the kernel's signature changed) vs `hausDirectedT`;
  oracle = max-min over all pairs in integer arithmetic.  Deliberate structure on every run (not left to the luck of a random
  scene): NEAR TIES of nearest-target distances across leaves with the nearest targets in opposite senses (scene + its point
  reflection), and NEARLY IDENTICAL clouds (equal size and order, a few units apart at coordinates >= 1e6, float32 round trips).
* hop graph: both BFS kernels through `calculate_euclidean_hop_graph` on integer-coordinate tet/hex/mixed bricks vs
  `hopNodal` / `hopElemental`; oracle = the docstring's chain definition evaluated on the node / element graph.
* stream absolute-scale: the same integer scenes handed to femio scaled exactly by 2^e, e = -20 .. 10, radius / bound scaled
  along; hop graph: membership of the documented ball d <= r + 1e-8 decided from the integer squared distances in exact
  rationals (model and oracle at the scaled threshold); k-nearest / Hausdorff: results divided by 2^e against exhaustive search.
"""
import contextlib
import io
import math
from fractions import Fraction as F

import numpy as np

from . import common as C
from . import meshgen as MG

PROP = 'C16'
LEAN_MODULES = ['Femio.Props.C16']
THEOREMS = ['C16_lb_sound', 'C16_ub_sound', 'C16_root_contains', 'C16_leaf_contains', 'C16_branch_and_bound',
            'C16_knn_terminates', 'C16_knn_refines', 'C16_knn_output', 'C16_hausdorff', 'C16_ub_needs_abs_counterexample',
            'C16_hausdorff_positive', 'C16_hausdorff_directed_not_symmetric', 'C16_hop_graph', 'C16_hop_nodal_chain']
PARTIAL = [
    'binary64 rounding of the octree boxes is not modelled: the theorems are over exact rationals, where the eight children '
    'cover their parent (children_cover / C16_leaf_contains); whether the float tree keeps every point is observed per run '
    '(diagnostic stream octree:*) and any loss surfaces through the oracle (finding C16-octree-gap)',
    'C16_hop_graph states what both kernels compute (reachability in the node-element graph through nodes inside the '
    'ball); the docstring\'s chain form is proved for nodal mode (C16_hop_nodal_chain); for elemental mode kernel and '
    'docstring differ on hand-made meshes (decided example in Props/C16.lean, findings/C16-hop-elemental-docstring.md)',
    'internal tree shapes / visiting orders of model and implementation are not compared, only results (the theorems '
    'show the results do not depend on them)',
]
RULE = ('scenes = (style, targets, queries) with integer coordinates; styles: random, clustered, collinear, coplanar, '
        'lattice (many exact ties), duplicates, single-point (zero extent), outliers (Hausdorff: several points per leaf), queries far outside the target box / far '
        'inside, 1..40 targets, 1..12 queries; per scene k in {1,2,3,|T|-1,|T|,|T|+1,|T|+3} x bound in {inf, 0, sqrt(m) '
        'for m a realised squared distance and m-1, m+1}; Hausdorff on pairs of such sets; hop graphs on tet/hex/mixed '
        'bricks mapped by an integer matrix, radii on realised node distances; a case is non-trivial when the answer '
        'is not all-padding / not zero / not empty; distinct = distinct (points, k, bound) resp. (A, B) resp. (mesh, r, mode). '
        'Deliberate styles in every run: near-tie (K = 6..9 source / nearest-target pairs spread over 24..50 D whose distances D, D+1, D+2 .. '
        'differ by far less than a leaf width, directions cycling through the axes / five diagonals with alternating senses, so that '
        'neighbours in the ranking look in opposite directions and every (axis, sense) occurs; Hausdorff: the scene and its point reflection, extra sources on '
        'targets so |A| != |B|; k-nearest: every query with its two nearest targets in opposite directions at d and d + <1) and '
        'near-identical (two clouds of equal size and order, every |coordinate| >= 1e6, differing by 1..3 units in some points / in one '
        'coordinate / by a float32 round trip: relative 1e-8 .. 3e-6; also once at scale 2^-20..2^-14: differences 1e-6 .. 2e-4). '
        'Every Hausdorff scene is asked symmetric, directed A->B and directed B->A through the public method (|A| <, =, > |B| counted). '
        'Stream same-object: each search (k-nearest with two objects and as self-search, Hausdorff symmetric / directed, hop '
        'graph nodal / elemental) is computed on one geometry, the node positions of the SAME objects are replaced through '
        '`nodes.data = …` by an integer-affine image (connectivity unchanged, no cache cleared) and the search is repeated '
        'with the same arguments; expected = exhaustive search on the current positions. '
        'Stream absolute-scale: per hop mesh one exponent e from -20..-14 (cells below 1e-4, where the length tolerance 1e-8 is not '
        'small against r^2) and one from -13..10 (every fourth mesh also one of -20, -14, 10, -17), x nodal / elemental, radius '
        'sqrt(r2) * 2^e with r2 in {0, smallest realised, a small realised, a random realised squared distance, smallest + 1}: femio '
        'gets coordinates = integer mesh * 2^e (exact in binary64); expected = the definition with D2 <= (fl(sqrt(r2)) + 1e-8 / 2^e)^2 '
        'on the integer squared distances (exact rationals; tie D with the model at the same threshold); plus k-nearest (public API, '
        'bound scaled along) and Hausdorff (symmetric / directed alternating) on integer scenes * 2^e, results / 2^e judged by the '
        'exhaustive-search oracle')
ASSUMPTIONS = [
    'distances are compared through their squares: integer coordinates make every squared distance an exact binary64 '
    'integer and sqrt is monotone; the float box bounds of the real octree (w0 = 0.51*extent is inexact) can differ from '
    'the model\'s exact boxes, which may change which boxes are visited but not the result (theorem: the result does '
    'not depend on the tree)',
    'the radius ball of the hop graph is the closed ball with the code\'s tolerance: d^2 <= (r + 1e-8)^2 (the docstring '
    'writes dist < r); 1e-8 is an ABSOLUTE length: at scale s = 2^e the ball in the integer units of the scene is '
    'D2 <= (fl(sqrt(r2)) + 1e-8 / s)^2, computed exactly; a scene with a realised squared distance within a relative 1e-12 of '
    'that threshold is skipped and counted (rounding of (r + 1e-8)^2 inside the kernel may decide it either way)',
    'stream absolute-scale: scaling by a power of two in 2^-20 .. 2^10 commutes with every binary64 operation of the k-nearest / '
    'Hausdorff kernels on these scenes (|coordinates| <= 10^6 in integer units: no overflow, no subnormals), so the scaled answer is '
    'judged by the same exhaustive-search oracle after dividing by 2^e; near-plane scenes (extent ~1e8) stay at unit scale',
    'near-identical scenes: integer coordinates below 2^26, so coordinates, differences and squared distances are exact in binary64 '
    'although the clouds sit at 1e6 .. 6.7e7; the float octree boxes there carry rounding errors of ~1e-8 of a unit, far below the unit '
    'differences that decide the answers (calibrated on the unchanged tree, seeds 0..5, and on extents down to 3 units at 6.7e7)',
    'node->element and element->element searches are randomised (np.random sampling) and outside the property',
]
TRUSTED = ['C16: the harness computes the root box (centre, 0.51*extent in binary64) exactly as the wrapper does and '
           'passes it to the model as exact rationals',
           'C16: within one scene the harness wrapper of build_octree_node returns the tree the real function already built for '
           'bit-identical (points, bounding box) arguments (several public calls per scene cost one build per cloud); the real '
           'function is assumed to be a function of its arguments']

DEPTH = 8


# ---------------------------------------------------------------- real side helpers

def quiet(f, *a, **k):
    with contextlib.redirect_stdout(io.StringIO()), contextlib.redirect_stderr(io.StringIO()):
        return f(*a, **k)


def mk_points(pts):
    from femio import FEMData, FEMAttribute, FEMElementalAttribute
    pts = np.asarray(pts, np.float64).reshape(-1, 3)
    nodes = FEMAttribute('NODE', ids=np.arange(len(pts)) + 1, data=pts, silent=True)
    return quiet(lambda: FEMData(nodes=nodes, elements=FEMElementalAttribute('ELEMENT', {})))


class Capture:
    """wrap GraphProcessorMixin.build_octree_node (a static njit function) to keep the octrees a public call builds.
    `memo=True`: the wrapper additionally returns the tree it already built for bit-identical (points, bounding box)
    arguments within this `with` block, so that several PUBLIC calls on one scene (every (k, bound) of a sweep; symmetric /
    directed self->target / directed target->self) cost one real build (0.8 s, 613 MB) per distinct cloud; every distinct
    input is still built by the real code (`n_built` counts the real builds)."""

    def __init__(self, memo=False):
        from femio.graph_processor import GraphProcessorMixin as G
        self.G = G
        self.orig = G.__dict__['build_octree_node']
        self.trees = []
        self.memo = {} if memo else None
        self.n_built = 0

    def __enter__(self):
        f = self.orig.__func__ if isinstance(self.orig, staticmethod) else self.orig

        def wrapped(points, boundingbox):
            key = None
            if self.memo is not None:
                pa = np.asarray(points)
                key = (pa.dtype.str, pa.shape, pa.tobytes(), tuple(float(v) for v in boundingbox))
                if key in self.memo:
                    t = self.memo[key]
                    self.trees.append(t)
                    return t
            t = f(points, boundingbox)
            self.n_built += 1
            if key is not None:
                self.memo[key] = t
            self.trees.append(t)
            return t
        self.G.build_octree_node = staticmethod(wrapped)
        return self

    def __exit__(self, *a):
        self.G.build_octree_node = self.orig


def kernel_of(name):
    from femio.graph_processor import GraphProcessorMixin as G
    kern = G.__dict__[name]
    return kern.__func__ if isinstance(kern, staticmethod) else kern


def call_kernel(ctx, name, *args):
    """an internal njit kernel called directly on captured octrees (its signature is not part of the property: if the tree under
    check changed it the direct call is skipped and counted; the public calls carry the verdict)"""
    try:
        return quiet(kernel_of(name), *args)
    except TypeError as e:
        ctx.count(f'kernel:{name}:not-callable-with-the-known-signature')
        if not any(name in n for n in ctx.notes):
            ctx.notes.append(f'{name} could not be called directly with the known signature ({str(e)[:120]}); only the public calls were judged')
        return None


def root_box(*sets):
    """centre and half width exactly as the wrappers + build_octree_node compute them (binary64)"""
    P = np.concatenate([np.asarray(s, np.float64).reshape(-1, 3) for s in sets])
    mn, mx = P.min(axis=0), P.max(axis=0)
    w0 = max(mx[0] - mn[0], mx[1] - mn[1], mx[2] - mn[2]) * 0.51
    return [(mn[i] + mx[i]) / 2 for i in range(3)], w0


def enc_pts(pts):
    return C.enc_list(pts, lambda p: ' '.join(str(int(v)) for v in p))


def enc_box(c, w):
    return ' '.join(C.enc_rat(float(v)) for v in c) + ' ' + C.enc_rat(float(w))


def d2(p, q):
    return sum((int(a) - int(b)) ** 2 for a, b in zip(p, q))


def close(a, b):
    if math.isinf(a) or math.isinf(b):
        return a == b
    return abs(a - b) <= 1e-13 * max(1.0, abs(b))


# ---------------------------------------------------------------- generators

def gen_points(rnd, style, n):
    R = rnd.choice([3, 6, 12, 50])
    if style == 'random':
        return [[rnd.randint(-R, R) for _ in range(3)] for _ in range(n)]
    if style == 'cluster':
        cs = [[rnd.randint(-200, 200) for _ in range(3)] for _ in range(rnd.randint(2, 4))]
        return [[c + rnd.randint(-2, 2) for c in rnd.choice(cs)] for _ in range(n)]
    if style == 'collinear':
        o = [rnd.randint(-5, 5) for _ in range(3)]
        d = rnd.choice([[1, 0, 0], [0, 1, 0], [0, 0, 1], [1, 1, 0], [1, 2, 3], [2, -1, 1]])
        return [[o[i] + t * d[i] for i in range(3)] for t in (rnd.randint(-R, R) for _ in range(n))]
    if style == 'coplanar':
        o = [rnd.randint(-5, 5) for _ in range(3)]
        u, v = rnd.choice([([1, 0, 0], [0, 1, 0]), ([1, 0, 0], [0, 0, 1]), ([1, 1, 0], [0, 1, 1]), ([2, 1, 0], [0, 1, -1])])
        out = []
        for _ in range(n):
            s, t = rnd.randint(-R, R), rnd.randint(-R, R)
            out.append([o[i] + s * u[i] + t * v[i] for i in range(3)])
        return out
    if style == 'lattice':
        m = rnd.choice([2, 3, 4])
        allp = [[x, y, z] for x in range(m) for y in range(m) for z in range(m)]
        rnd.shuffle(allp)
        sc = rnd.choice([1, 2, 8])
        return [[sc * v for v in p] for p in allp[:n]]
    if style == 'duplicates':
        base = [[rnd.randint(-3, 3) for _ in range(3)] for _ in range(max(1, n // 3))]
        return [list(rnd.choice(base)) for _ in range(n)]
    if style == 'single':
        p = [rnd.randint(-9, 9) for _ in range(3)]
        return [list(p) for _ in range(n)]
    if style == 'outliers':
        # two far points stretch the root box so that a leaf (half width = 0.51 * extent / 256) holds several of the
        # others: the leaf-level bounds of the Hausdorff kernel then actually decide something
        far = rnd.choice([150, 300, 600])
        ax = rnd.randrange(3)
        base = [[rnd.randint(-8, 8) for _ in range(3)] for _ in range(max(1, n - 2))]
        out = [[far if j == ax else 0 for j in range(3)], [-far if j == ax else 0 for j in range(3)]]
        return (base + out)[:max(n, 1)] if n >= 3 else base
    if style == 'near-plane':
        # integer points within a few units of the CENTRE PLANES of the octree boxes of a very large root box (extent
        # ~1e7 .. 1e8, so that a relative 1e-6 of a box width is a few units): the places where sibling boxes meet, where
        # independent rounding / overlap margins of the boxes decide whether a point reaches a leaf at all
        E = rnd.choice([10 ** 7, 2 * 10 ** 7, 4 * 10 ** 7])      # 3 E^2 < 2^53: squared distances stay exact in binary64
        lo = [rnd.randint(-5, 5) * 1000 for _ in range(3)]
        out = [list(lo), [v + E for v in lo]]
        c = [v + E / 2 for v in lo]
        w0 = E * 0.51
        while len(out) < max(n, 3):
            pt = []
            for ax in range(3):
                L = rnd.randint(1, 4)
                # planes where the children of a level-(L-1) box meet = centres of the level-(L-1) boxes
                t = 0 if L == 1 else 2 * rnd.randrange(-(2 ** (L - 2)), 2 ** (L - 2)) + 1
                plane = c[ax] + w0 * t / 2 ** (L - 1)
                plane = min(max(plane, lo[ax]), lo[ax] + E)
                pt.append(int(round(plane)) + rnd.choice([0, 0, 1, -1, 2, -2, 3, -3, 7, -7, 20, -20]))
            pt = [min(max(v, lo[i]), lo[i] + E) for i, v in enumerate(pt)]
            out.append(pt)
        return out[:max(n, 3)]
    raise ValueError(style)


STYLES = ['random', 'cluster', 'collinear', 'coplanar', 'lattice', 'duplicates', 'single', 'near-plane']


KSTYLES = STYLES + ['near-tie', 'near-identical']          # the k-nearest main stream (the last two: deliberate structure)


def gen_scene(rnd, i, styles=STYLES):
    style = styles[i % len(styles)]
    if style == 'near-tie':
        # every query has its two nearest targets in OPPOSITE directions at nearly the same distance (d and d + <1), in other
        # leaves than the query's; the queries' own nearest distances are a near tie too
        src, tgt, fill, D = gen_near_tie_pairs(rnd, rnd.choice(['axis', 'diagonal', 'mixed']))
        T = list(tgt)
        for c, t in zip(src, tgt):
            o = [c[j] - (t[j] - c[j]) for j in range(3)]
            j = max(range(3), key=lambda j: abs(o[j] - c[j]))
            o[j] += 1 if o[j] > c[j] else -1
            T.append(o)
        rnd.shuffle(T)
        return {'style': style, 'qmode': 'sources', 'targets': T, 'queries': src + fill[:1]}
    if style == 'near-identical':
        A, B, label = gen_near_identical(rnd, rnd.randrange(3), n=rnd.choice([2, 5, 12, 20]))
        return {'style': style, 'qmode': label.split('/')[1], 'targets': A, 'queries': B}     # equal size and order
    nt = rnd.choice([1, 2, 3, 5, 8, 13, 21, 40])
    nq = rnd.randint(1, 12)
    T = gen_points(rnd, style, nt)
    qmode = rnd.choice(['same-style', 'targets', 'far-outside', 'inside', 'other-style'])
    if qmode == 'same-style':
        Q = gen_points(rnd, style, nq)
    elif qmode == 'targets':
        Q = [list(rnd.choice(T)) for _ in range(nq)]
    elif qmode == 'far-outside':
        Q = [[v + rnd.choice([-1, 1]) * rnd.randint(100, 1000) for v in rnd.choice(T)] for _ in range(nq)]
    elif qmode == 'inside':
        lo = [min(p[i] for p in T) for i in range(3)]
        hi = [max(p[i] for p in T) for i in range(3)]
        Q = [[rnd.randint(lo[i], hi[i]) for i in range(3)] for _ in range(nq)]
    else:
        Q = gen_points(rnd, rnd.choice(STYLES), nq)
    return {'style': style, 'qmode': qmode, 'targets': T, 'queries': Q}


def sweep(rnd, T, Q, n_combo):
    nt = len(T)
    ks = sorted({k for k in (1, 2, 3, nt - 1, nt, nt + 1, nt + 3) if k >= 1})
    real = sorted({d2(t, q) for t in T for q in Q})
    ms = {None, 0}
    for m in rnd.sample(real, min(3, len(real))):
        if m < 2 ** 46:
            ms |= {m, max(0, m - 1), m + 1}
        else:
            # sqrt(m) and sqrt(m +- 1) are the same binary64 number for such m: the bound is moved by a relative 2^-20
            # instead and used only if no realised distance lies within a relative 2^-40 of it
            ms.add(m)
            for b in (m - (m >> 20), m + (m >> 20)):
                if all(abs(d - b) > (b >> 40) for d in real):
                    ms.add(b)
    combos = [(k, m) for k in ks for m in ms]
    rnd.shuffle(combos)
    # always keep one unbounded search beyond |T| and one on a tie value
    must = [(nt + 1, None), (min(2, nt), real[len(real) // 2])]
    out = must + [c for c in combos if c not in must]
    return out[:n_combo]


# ---------------------------------------------------------------- kNN

def brute_knn(T, q, k, m):
    ds = sorted(d for d in (d2(t, q) for t in T) if m is None or d <= m)
    return ds[:k]


def check_row(T, q, k, m, idx, vec, dist):
    """the property on one returned row; returns None or a (signature, message)"""
    want = brute_knn(T, q, k, m)
    c = len(want)
    got = []
    for j in range(c):
        i = int(idx[j])
        if not (0 <= i < len(T)):
            return 'knn:wrong-neighbours', f'entry {j}: index {i} although {c} targets lie within the bound'
        got.append(d2(T[i], q))
        if [float(v) for v in vec[j]] != [float(int(a) - int(b)) for a, b in zip(T[i], q)]:
            return 'knn:vectors', f'entry {j}: vector {list(vec[j])} is not target[{i}] - query'
        if not close(float(dist[j]), math.sqrt(got[-1])):
            return 'knn:distances', f'entry {j}: distance {float(dist[j])!r} but |target[{i}] - query| = sqrt({got[-1]})'
    if got != want:
        return 'knn:wrong-neighbours', f'squared distances returned {got}, exhaustive search gives {want}'
    if len({int(i) for i in idx[:c]}) != c:
        return 'knn:wrong-neighbours', f'a target is returned twice: {[int(i) for i in idx[:c]]}'
    for j in range(c, k):
        if int(idx[j]) != -1 or not all(math.isinf(float(v)) and v > 0 for v in vec[j]) or not (math.isinf(float(dist[j])) and dist[j] > 0):
            return 'knn:padding', f'entry {j} should be the padding (-1, inf, inf): {int(idx[j])}, {list(vec[j])}, {float(dist[j])}'
    return None


def model_knn(ctx, T, Q, combos):
    """one request per scene: the driver builds the tree once and answers every (k, bound) of the sweep"""
    c, w = root_box(T)
    cs = C.enc_list(combos, lambda km: f'{km[0]} ' + ('0' if km[1] is None else f'1 {km[1]}'))
    rep = ctx.driver.ask(f'c16.knnsweep {enc_box(c, w)} {DEPTH} {enc_pts(T)} {enc_pts(Q)} {cs}')
    t = C.Toks(rep)
    if t.tok() != 'ok':
        raise RuntimeError('driver: ' + rep[:200])
    if not t.nat():
        raise RuntimeError('model: fuel exhausted (contradicts C16_knn_terminates)')
    out = []
    for k, m in combos:
        rows = []
        for _ in range(len(Q)):
            row = []
            for _ in range(k):
                i = int(t.tok())
                if i == -1:
                    row.append((-1, None, None))
                else:
                    dd = t.rat()
                    row.append((i, dd, [t.rat(), t.rat(), t.rat()]))
            rows.append(row)
        out.append(rows)
    assert t.done()
    return out


def bound_of(m):
    return np.inf if m is None else math.sqrt(m)


def knn_scene(ctx, scene, n_combo):
    T, Q = scene['targets'], scene['queries']
    combos = sweep(ctx.rng, T, Q, n_combo)
    ft, fq = mk_points(T), mk_points(Q)
    # every (k, bound) of the sweep through the PUBLIC call (the memoising capture makes the sweep cost one real octree build)
    with Capture(memo=True) as cap:
        results = [quiet(fq.nearest_neighbor_search_from_nodes_to_nodes, k, distance_upper_bound=bound_of(m), target_fem_data=ft)
                   for k, m in combos]
    octree = cap.trees[-1]
    if cap.n_built != 1:
        ctx.count(f'knn:octrees-built-per-sweep:{cap.n_built}')
    models = model_knn(ctx, T, Q, combos) if ctx.driver is not None else [None] * len(combos)
    check_leaves(ctx, scene, octree)
    for ci, ((k, m), (idx, vec, dist), mod) in enumerate(zip(combos, results, models)):
        case = {'kind': 'knn', 'targets': T, 'queries': Q, 'k': k, 'bound2': m, 'via': 'public', 'style': scene['style']}
        nontriv = False
        for qi, q in enumerate(Q):
            r = check_row(T, q, k, m, idx[qi], vec[qi], dist[qi])
            if r is not None:
                ctx.fail(r[0], f'query {q} (k={k}, bound^2={m}): {r[1]}', {**case, 'query_index': qi},
                         {'indices': idx[qi].tolist(), 'dists': [float(x) for x in dist[qi]]})
                break
            found = int((idx[qi] >= 0).sum())
            nontriv |= found > 0
            ds = [d2(T[int(i)], q) for i in idx[qi][:found]]
            if len(set(ds)) < len(ds):
                ctx.count('knn:row-with-exact-tie')
            if found < k:
                ctx.count('knn:row-padded')
            if mod is not None:
                mrow = mod[qi]
                impl = [int(i) for i in idx[qi]]
                if impl != [h[0] for h in mrow]:
                    # the order is determined wherever the squared distance is realised by one target only
                    alld = [d2(t, q) for t in T]
                    mds = [int(h[1]) for h in mrow if h[0] >= 0]
                    det = [j for j, h in enumerate(mrow) if h[0] < 0 or alld.count(int(h[1])) == 1]
                    if ds != mds or any(impl[j] != mrow[j][0] for j in det):
                        ctx.disagree('knn indices', {**case, 'query_index': qi}, impl, [h[0] for h in mrow])
                        break
                    ctx.count('knn:tie-choice-differs-from-heap-order(d2,-idx)')
                    continue
                for j, h in enumerate(mrow):
                    if h[0] >= 0 and ([F(float(v)) for v in vec[qi][j]] != h[2] or not close(float(dist[qi][j]), math.sqrt(h[1]))):
                        ctx.disagree('knn vector/distance', {**case, 'query_index': qi, 'entry': j},
                                     [vec[qi][j].tolist(), float(dist[qi][j])], [h[2], h[1]])
                        break
        ctx.case(('knn', tuple(map(tuple, T)), tuple(map(tuple, Q)), k, m),
                 sample={'kind': 'knn', 'style': scene['style'], 'qmode': scene['qmode'], 'n_targets': len(T),
                         'n_queries': len(Q), 'k': k, 'bound2': m, 'first_row': [int(i) for i in idx[0]]},
                 nontrivial=nontriv)
        ctx.count('knn:k-' + ('beyond' if k > len(T) else 'equal' if k == len(T) else 'below') + '-|T|')
        ctx.count('knn:bound-' + ('inf' if m is None else 'zero' if m == 0 else 'finite'))
    ctx.count('knn:style:' + scene['style'])
    ctx.count('knn:queries:' + scene['qmode'])


def check_leaves(ctx, scene, octree):
    """C16_leaf_contains observed on the real data structure (diagnostic stream, never a failure by itself): every
    point is stored under exactly one leaf-level node and lies inside that node's box up to a few ulp"""
    points, node_xyzw, node_pt, idx = octree
    first_leaf = (8 ** DEPTH - 1) // 7
    T = scene['targets']
    rows = node_pt[node_pt[:, 0] >= first_leaf]
    seen = sorted(int(i) for i in rows[:, 1])
    if seen != list(range(len(T))):
        # diagnostic only (the tree is not an observable of the property; lost points surface as knn:wrong-neighbours
        # because every scene includes an unbounded search with k > |targets|)
        ctx.count('octree:DIAGNOSTIC:points-missing-from-the-leaf-level')
        if len(ctx.notes) < 5:
            ctx.notes.append(f'octree of {len(T)} targets {T[:3]}...: leaf level stores only points {seen[:12]}')
        return
    for v, i in rows:
        x, y, z, w = node_xyzw[v]
        p = points[i]
        tol = 4e-16 * (abs(x) + abs(y) + abs(z) + w + 1)      # a few ulp: sibling boxes are rounded independently
        if not (x - w - tol <= p[0] <= x + w + tol and y - w - tol <= p[1] <= y + w + tol and z - w - tol <= p[2] <= z + w + tol):
            ctx.count('octree:DIAGNOSTIC:point-outside-its-leaf-box')
            if len(ctx.notes) < 5:
                ctx.notes.append(f'point {i} {p.tolist()} is stored in leaf {int(v)} with box {(x, y, z, w)}')
            return
    ctx.count('leaf:all-points-in-their-leaf')


# ---------------------------------------------------------------- Hausdorff

def brute_hd2(A, B):
    return max(min(d2(a, b) for b in B) for a in A)


def haus_scene(ctx, A, B, label):
    fa, fb = mk_points(A), mk_points(B)
    # the three PUBLIC questions on one pair of objects: symmetric, directed self -> target, and directed with the roles
    # exchanged (the memoising capture makes them cost the two real octree builds of the first call)
    with Capture(memo=True) as cap:
        sym = quiet(fa.calculate_hausdorff_distance_nodes, fb, directed=False)
        trees = list(cap.trees)
        pab = quiet(fa.calculate_hausdorff_distance_nodes, fb, directed=True)
        pba = quiet(fb.calculate_hausdorff_distance_nodes, fa, directed=True)
    want_ab, want_ba = brute_hd2(A, B), brute_hd2(B, A)
    case = {'kind': 'hausdorff', 'A': A, 'B': B, 'label': label}
    judged = [('symmetric', sym, max(want_ab, want_ba)), ('directed A->B (A.calculate_hausdorff_distance_nodes(B, directed=True))', pab, want_ab),
              ('directed B->A (B.calculate_hausdorff_distance_nodes(A, directed=True))', pba, want_ba)]
    ab = ba = None
    if len(trees) == 2:
        # the directed kernel on the octrees the public call built (both directions)
        oa, ob = trees
        ab = call_kernel(ctx, '_calc_directed_hausdorff_nodes', oa, ob)
        ba = call_kernel(ctx, '_calc_directed_hausdorff_nodes', ob, oa) if ab is not None else None
        if ab is not None:
            judged += [('directed-kernel A->B', ab, want_ab), ('directed-kernel B->A', ba, want_ba)]
    else:
        ctx.count(f'hausdorff:octrees-built-by-the-symmetric-call:{len(trees)}')
    for name, got, want in judged:
        if not close(float(got), math.sqrt(want)):
            ctx.fail('hausdorff:' + name.split()[0], f'{name}: returned {float(got)!r}, max-min over all pairs = sqrt({want}) = {math.sqrt(want)!r}',
                     {**case, 'which': name}, float(got))
    if ab is None:
        ab, ba = pab, pba
    if ctx.driver is not None and ctx.quick and len(A) * len(B) > 640:
        # the model's cost grows with |A| * |B| (40 x 40: ~18 s): in the quick tier the large scenes are judged by the oracle only
        ctx.count('hausdorff:model-not-asked (quick tier, |A| * |B| > 640)')
    elif ctx.driver is not None:
        c, w = root_box(A, B)
        rep = ctx.driver.ask(f'c16.hausdorff {enc_box(c, w)} {DEPTH} {enc_pts(A)} {enc_pts(B)}')
        t = C.Toks(rep)
        if t.tok() != 'ok':
            raise RuntimeError('driver: ' + rep[:200])
        mab, mba = t.rat(), t.rat()
        for name, got, mod in (('A->B', ab, mab), ('B->A', ba, mba), ('symmetric', sym, max(mab, mba))):
            if not close(float(got), math.sqrt(mod)):
                ctx.disagree('hausdorff ' + name, case, float(got), str(mod))
    ctx.case(('haus', tuple(map(tuple, A)), tuple(map(tuple, B))),
             sample={'kind': 'hausdorff', 'label': label, 'nA': len(A), 'nB': len(B), 'hd2': [want_ab, want_ba]},
             nontrivial=max(want_ab, want_ba) > 0)
    ctx.count('hausdorff:' + label)
    ctx.count('hausdorff:directed-values-' + ('equal' if want_ab == want_ba else 'differ') +
              (', |A| > |B|' if len(A) > len(B) else ', |A| < |B|' if len(A) < len(B) else ', |A| = |B|'))


def crafted_haus():
    """scenes in which the leaf-level upper bounds decide the answer: six far points fix the root box (centre 0, half width
    5100, leaf width 39.84); a1 and its only near target b1 sit at opposite corners of ONE leaf (distance 65.8, between
    sqrt(2) and sqrt(3) leaf widths), a2 has its nearest target at distance 60 in another leaf.  An upper bound that
    forgets a box width on one axis ranks a1's leaf below 60 and stops before it."""
    far = [[s * 5000 if j == ax else 0 for j in range(3)] for ax in range(3) for s in (1, -1)]
    out = []
    for perm in ([0, 1, 2], [2, 0, 1], [1, 2, 0]):
        def P(p):
            return [p[perm[0]], p[perm[1]], p[perm[2]]]
        A = far + [P([1, 1, 1]), P([-100, 0, 0])]
        B = far + [P([39, 39, 39]), P([-160, 0, 0])]
        out.append((A, B, 'crafted/leaf-diagonal'))
        out.append(([[-v for v in p] for p in A], [[-v for v in p] for p in B], 'crafted/leaf-diagonal-mirrored'))
    return out[:4]


# ---------------------------------------------------------------- deliberate structure (never left to the luck of a random scene)

DIRS_AXIS = [[1, 0, 0], [0, 1, 0], [0, 0, 1]]
DIRS_DIAG = [[1, 1, 1], [1, 1, 0], [0, 1, 1], [1, 0, 1], [1, -1, 1], [1, 1, -1], [1, -1, 0], [2, 1, 0], [0, 1, -2]]


def gen_near_tie_pairs(rnd, family):
    """K well separated (source, nearest target) pairs whose distances are a NEAR TIE: |offset_i| = D + small, all different,
    far below the leaf width of the octree of the scene (the pairs are spread over 24 .. 50 D, leaf width 0.1 .. 0.2 D), every pair in
    its own leaves, the directions source -> nearest target spread over both senses of the axes / diagonals: ranked by distance
    the senses alternate, so the farthest pair and the runner-up look in OPPOSITE directions.  Box-level bounds cannot
    separate such pairs; an ordering / early exit that relies on a bound which is wrong for one sense of a direction picks
    the wrong one.  Returns (sources, targets, filler sources with much smaller distances)."""
    K = rnd.choice([6, 7, 8, 9])
    D = rnd.choice([100, 150, 240, 400])
    spread = rnd.choice([12, 16, 25]) * D
    cs = []
    while len(cs) < K + 3:
        c = [rnd.randint(-spread, spread) for _ in range(3)]
        if all(max(abs(c[j] - o[j]) for j in range(3)) >= 5 * D for o in cs):
            cs.append(c)
    # offsets by rank r = 0 (farthest) .. K-1: direction dirs[r mod n] (n odd) * length ~ D + K-1-r; with the sense (-1)^r below,
    # K >= 6 pairs of the axis family realise all six (axis, sense) combinations.  Nearly equal lengths, no two pairs exactly
    # equal in squared length.
    if family == 'axis':
        dirs = [list(d) for d in DIRS_AXIS]
    elif family == 'diagonal':
        dirs = [list(d) for d in rnd.sample(DIRS_DIAG, 5)]
    else:
        dirs = [list(d) for d in DIRS_AXIS + rnd.sample(DIRS_DIAG, 2)]
    rnd.shuffle(dirs)
    uniq = []
    for r in range(K):
        d = dirs[r % len(dirs)]
        t = max(1, round((D + K - 1 - r) / math.sqrt(sum(v * v for v in d))))
        o = [v * t for v in d]
        if sum(1 for v in d if v) > 1:
            o[rnd.randrange(3)] += rnd.choice([0, 1, -1])           # off the exact diagonal by a unit
        while sum(v * v for v in o) in {sum(v * v for v in u) for u in uniq}:
            j = max(range(3), key=lambda j: abs(o[j]))
            o[j] += 1 if o[j] > 0 else -1
        uniq.append(o)
    s0 = rnd.choice([1, -1])
    src, tgt = [], []
    for r, (c, o) in enumerate(zip(cs, uniq)):
        sg = s0 if r % 2 == 0 else -s0                               # the senses alternate
        src.append(list(c))
        tgt.append([c[j] + sg * o[j] for j in range(3)])
    fill = []
    for c in cs[K:]:
        o = [rnd.randint(-D // 3, D // 3) for _ in range(3)]
        fill.append(list(c))
        tgt.append([c[j] + o[j] for j in range(3)])
    return src, tgt, fill, D


def gen_near_tie_haus(rnd, i):
    """[(A, B, label)]: a near-tie scene and its point reflection (so that whichever sense the farthest pair looks in, the other
    sense is evaluated too), A = sources (+ fillers), B = their targets; A is listed in shuffled order"""
    family = ('axis', 'diagonal', 'mixed')[i % 3]
    src, tgt, fill, D = gen_near_tie_pairs(rnd, family)
    # (some sources coincide with targets of other pairs: distance 0, and |A| != |B|)
    A = src + fill + [list(t) for t in rnd.sample(tgt, rnd.choice([0, 1, 3]))]
    B = list(tgt)
    rnd.shuffle(A)
    rnd.shuffle(B)
    neg = lambda P: [[-v for v in p] for p in P]  # noqa
    return [(A, B, f'near-tie/{family}'), (neg(A), neg(B), f'near-tie/{family}/reflected')]


BIG = [2 ** 20, 10 ** 6, 3 * 10 ** 6, 10 ** 7, 2 ** 24 + 5, 3 * 10 ** 7, 4 * 10 ** 7]


def gen_near_identical(rnd, i, n=None):
    """(A, B, label): two clouds of EQUAL SIZE AND ORDER that differ by a few units while every coordinate is >= 1e6 in absolute
    value: relative differences 2.5e-8 .. 3e-6 (anything that compares coordinates with np.allclose / np.isclose defaults,
    rtol 1e-5, or through float32 calls them equal); the true distances are 1 .. 5 units.  Integer coordinates below 2^26:
    every difference and squared distance is exact.  Variants: unit shifts of some points, of ONE coordinate of one point, and
    the float32 round trip of the cloud (integers above 2^24 move to the next multiple of 2 or 4)."""
    variant = ('unit-shifts', 'float32-round-trip', 'one-coordinate')[i % 3]
    n = n or rnd.choice([2, 5, 12, 30])
    ext = rnd.choice([12, 60, 300, 2000, 20000])
    if variant == 'float32-round-trip':
        off = [rnd.choice([1, -1]) * rnd.choice([2 ** 24 + 5, 3 * 10 ** 7, 4 * 10 ** 7, 2 ** 25 + 3]) for _ in range(3)]
    else:
        off = [rnd.choice([1, -1]) * rnd.choice(BIG) for _ in range(3)]
    base = gen_points(rnd, rnd.choice(['random', 'cluster', 'coplanar', 'lattice']), n)
    lo = [min(p[j] for p in base) for j in range(3)]
    hi = [max(p[j] for p in base) for j in range(3)]
    sc = max(1, ext // max(1, max(hi[j] - lo[j] for j in range(3))))
    A = [[off[j] + sc * (p[j] - lo[j]) for j in range(3)] for p in base]
    if variant == 'float32-round-trip':
        B = [[int(v) for v in row] for row in np.asarray(A, np.float64).astype(np.float32).astype(np.float64)]
        if B == A:
            B[0][0] += 4
    elif variant == 'one-coordinate':
        B = [list(p) for p in A]
        B[rnd.randrange(len(B))][rnd.randrange(3)] += rnd.choice([1, -1, 2])
    else:
        B = [[v + (rnd.choice([0, 0, 1, -1, 2, -3]) if rnd.random() < 0.6 else 0) for v in p] for p in A]
        if B == A:
            B[-1][1] -= 1
    assert len(A) == len(B) and A != B and all(abs(a - b) <= 1e-8 + 1e-5 * abs(b) for p, q in zip(A, B) for a, b in zip(p, q))
    return A, B, f'near-identical/{variant}'


HSTYLES = STYLES + ['outliers', 'outliers']


def gen_haus(rnd, i):
    style = HSTYLES[i % len(HSTYLES)]
    A = gen_points(rnd, style, rnd.choice([1, 3, 8, 20, 40]))
    mode = rnd.choice(['same-style', 'subset', 'superset', 'shifted', 'other'])
    if mode == 'same-style':
        B = gen_points(rnd, style, rnd.choice([1, 3, 8, 20, 40]))
    elif mode == 'subset':
        B = rnd.sample(A, max(1, len(A) // 2))
    elif mode == 'superset':
        B = A + gen_points(rnd, style, 3)
    elif mode == 'shifted':
        s = [rnd.randint(-30, 30) for _ in range(3)]
        B = [[p[j] + s[j] for j in range(3)] for p in A]
    else:
        B = gen_points(rnd, rnd.choice(HSTYLES), rnd.choice([2, 9, 30]))
    return A, B, f'{style}/{mode}'


# ---------------------------------------------------------------- hop graph

def gen_hop_mesh(rnd):
    m = MG.gen_geometric(rnd, kind=rnd.choice(['tet', 'hex', 'mixed']), max_cells=rnd.choice([2, 3]), jitter=False,
                         voids=True, unref=False, affine=False)
    while True:
        A = [[rnd.randint(-2, 3) for _ in range(3)] for _ in range(3)]
        if MG.det3(*A) != 0:
            break
    nodes = []
    for i, p in m['nodes']:
        q = [2 * v for v in p]                      # pyramid centres sit on half-integers
        assert all(v.denominator == 1 for v in q)
        nodes.append((i, tuple(int(sum(A[r][c] * q[c] for c in range(3))) for r in range(3))))
    m['nodes'] = nodes
    return m


def hop_oracle_nodal(pos, els, thr2):
    """docstring definition: v ~ w iff a chain of nodes inside the ball of v, consecutive ones sharing an element"""
    V = len(pos)
    nb = [set() for _ in range(V)]
    for e in els:
        for a in e:
            nb[a] |= set(e)
    out = set()
    for v in range(V):
        ball = {w for w in range(V) if d2(pos[v], pos[w]) <= thr2}
        seen, todo = {v}, [v]
        while todo:
            x = todo.pop()
            for y in nb[x]:
                if y in ball and y not in seen:
                    seen.add(y)
                    todo.append(y)
        out |= {(v, w) for w in seen if w != v}
    return out


def hop_oracle_elemental(pos, els, thr2, shared_node_in_ball):
    """docstring definition (`shared_node_in_ball=False`): e ~ e' iff a chain of elements, each within distance r of e
    (vertex-set distance), consecutive ones sharing a node.  With `shared_node_in_ball=True`: the relation the kernel
    implements (the shared node itself must lie within r of e)."""
    E = len(els)
    out = set()
    for e in range(E):
        near = lambda v: any(d2(pos[v], pos[u]) <= thr2 for u in els[e])  # noqa
        ok_el = [any(near(v) for v in els[f]) for f in range(E)]
        seen, todo = {e}, [e]
        while todo:
            x = todo.pop()
            for f in range(E):
                if f in seen or not ok_el[f]:
                    continue
                sh = set(els[x]) & set(els[f])
                if shared_node_in_ball:
                    sh = {v for v in sh if near(v)}
                if sh:
                    seen.add(f)
                    todo.append(f)
        out |= {(e, f) for f in seen if f != e}
    return out


def set_pos(fd, P):
    """replace the node positions of the SAME FEMData object through the public setter"""
    fd.nodes.data = np.asarray([[float(v) for v in p] for p in P], np.float64).reshape(-1, 3)


def scaled_nodes(m, e):
    """the mesh under the uniform scaling by 2^e (exact in binary64: integer coordinates times a power of two)"""
    if not e:
        return m
    out = dict(m)
    out['nodes'] = [(i, tuple(F(v) * F(2) ** e for v in p)) for i, p in m['nodes']]
    return out


def hop_real(m, r, mode, m0=None):
    if m0 is None:
        fd = MG.to_femio(m)
    else:
        # stream same-object: the object is built on the positions of m0 and asked the same question first, then its
        # node positions are replaced by those of m (connectivity unchanged, no cache cleared)
        fd = MG.to_femio(m0)
        quiet(fd.calculate_euclidean_hop_graph, r, mode=mode)
        set_pos(fd, [p for _, p in m['nodes']])
    adj = quiet(fd.calculate_euclidean_hop_graph, r, mode=mode)
    rr, cc = adj.nonzero()
    return {(int(a), int(b)) for a, b in zip(rr, cc)}, fd


def hop_indexed(m, fd, e=0):
    """positions by storage index (in units of 2^e: integers); element -> node indices read off femio's own incidence matrix
    (columns = the element numbering of the result; that matrix is the subject of C13, not of this property)"""
    pos = [[int(math.ldexp(float(v), -e)) for v in p] for p in fd.nodes.data]
    if e and not np.array_equal(np.ldexp(np.asarray(pos, np.float64), e), np.asarray(fd.nodes.data, np.float64)):
        raise RuntimeError('harness: scaled node positions are not integer multiples of 2^e')
    inc = quiet(fd.calculate_incidence_matrix).tocsc()          # (n_node, n_elem): the structure the kernels walk
    els = [sorted(int(v) for v in inc.indices[inc.indptr[e]:inc.indptr[e + 1]]) for e in range(inc.shape[1])]
    return pos, els


def hop_case(ctx, m, r2, mode, m0=None, e=0):
    """m0 given = stream same-object: hop graph(r, mode) on the positions of m0, `nodes.data = positions of m` on the same
    object, hop graph(r, mode) again; expected = the definition on the current positions (those of m).
    e != 0 = stream absolute-scale: the integer-coordinate mesh m and the radius are both scaled EXACTLY by s = 2^e (the
    coordinates handed to femio are m * s, the radius is fl(sqrt(r2)) * s); the documented ball is d <= r + 1e-8 with the
    ABSOLUTE length tolerance 1e-8, i.e. in the integer units of m: D2 <= (fl(sqrt(r2)) + 1e-8 / s)^2, decided in exact
    rational arithmetic (a scene in which a realised squared distance lies within a relative 1e-12 of that threshold is
    skipped and counted: rounding inside the kernel could decide it either way)."""
    rf = math.sqrt(r2)
    r = math.ldexp(rf, e)
    real, fd = hop_real(scaled_nodes(m, e), r, mode, m0)
    pos, els = hop_indexed(m, fd, e)
    if e:
        thr2 = (F(rf) + F(1e-8) / F(2) ** e) ** 2
        thr = float(thr2)
        if any(abs(D - thr2) <= thr2 / 10 ** 12 for D in {d2(a, b) for a in pos for b in pos}):
            ctx.count('hop:absolute-scale:skipped (a realised distance within 1e-12 of r + 1e-8)')
            return
    else:
        thr = (r + 1e-8) * (r + 1e-8)
        thr2 = F(thr)
    case = {'kind': 'hop', 'mesh': MG.to_json(m), 'r2': r2, 'mode': mode}
    so, after = '', ''
    if e:
        case['scale_exp'] = e
        case['note'] = (f'coordinates handed to femio = mesh * 2^{e}, radius = sqrt(r2) * 2^{e} = {r!r}; ball: distance <= radius + 1e-8, '
                        f'in mesh units: squared distance <= {thr!r}')
        so, after = ':absolute-scale', f'at absolute scale 2^{e} (cell size ~{math.ldexp(2.0, e):.3g}, radius {r:.6g}): '
    if m0 is not None:
        case['mesh0'] = MG.to_json(m0)
        case['history'] = 'hop graph(r, mode) on mesh0; nodes.data = positions of mesh; hop graph(r, mode) on the same object'
        so, after = ':same-object', 'after `nodes.data = new positions` on the same object: '
        if pos != [[int(v) for v in p] for _, p in m['nodes']]:
            raise RuntimeError('harness: the node positions were not replaced')
    ithr = math.floor(thr2)
    if mode == 'nodal':
        want = hop_oracle_nodal(pos, els, ithr)
        if real != want:
            ctx.fail('hop:nodal' + so, f'{after}nodal hop graph differs from the chain definition: extra {sorted(real - want)[:5]}, '
                     f'missing {sorted(want - real)[:5]}', case, sorted(real)[:40])
    else:
        want = hop_oracle_elemental(pos, els, ithr, False)
        if real != want:
            coded = hop_oracle_elemental(pos, els, ithr, True)
            sig = 'hop:elemental:chain-through-node-outside-ball' if real == coded else 'hop:elemental' + so
            ctx.fail(sig, f'{after}elemental hop graph differs from the docstring definition: extra {sorted(real - want)[:5]}, '
                     f'missing {sorted(want - real)[:5]}' + (' (equals the relation "the shared node lies within r")' if real == coded else ''),
                     case, sorted(real)[:40])
    if ctx.driver is not None:
        rep = ctx.driver.ask(f'c16.hop {mode} {len(pos)} {C.enc_rat(thr2)} {C.enc_list(els, lambda e: C.enc_list(e))} {enc_pts(pos)}')
        t = C.Toks(rep)
        if t.tok() != 'ok':
            raise RuntimeError('driver: ' + rep[:200])
        n = t.nat()
        mod = {(t.nat(), t.nat()) for _ in range(n)}
        if mod != real:
            ctx.disagree('hop ' + mode, case, sorted(real)[:40], sorted(mod)[:40])
    ctx.case(('hop', MG.enc_mesh(m), r2, mode, e) + (('after', MG.enc_mesh(m0)) if m0 is not None else ()),
             sample={'kind': 'hop' + so, 'mode': mode, 'mesh': MG.describe(m), 'r2': r2, 'pairs': len(real), **({'scale_exp': e} if e else {})},
             nontrivial=0 < len(real) < (len(pos) if mode == 'nodal' else len(els)) ** 2)
    ctx.count(f'hop{so}:{mode}:{m["kind"]}')
    if e:
        ctx.count(f'hop:absolute-scale:2^{e}')
        if any(r2 < d2(a, b) <= r2 + 1e-8 / 4.0 ** e for a in pos for b in pos):
            ctx.count('hop:absolute-scale:a node lies in (r, sqrt(r^2 + 1e-8)]')
    if any(d2(pos[a], pos[b]) == r2 for a in range(len(pos)) for b in range(a)):
        ctx.count('hop:radius-on-a-realised-distance')


def hop_docstring_example(ctx):
    """the hand-made three-tet mesh of findings/C16-hop-elemental-docstring.md (elemental kernel stricter than the
    docstring's chain of elements, and not symmetric).  Generated bricks show the same in 3-5 % of the (mesh, r) cases, so
    the example is evaluated on every run to make the verdict independent of the seed."""
    nodes = [(i + 1, tuple(F(v) for v in p)) for i, p in enumerate(
        [[0, 0, 0], [1, 0, 0], [0, 1, 0], [0, 0, 1], [10, 0, 0], [10, 1, 0], [2, 0, 0], [2, 1, 0], [2, 0, 1]])]
    m = {'kind': 'tet', 'order': 'asc', 'id_style': 'dense', 'nodes': nodes,
         'blocks': {'tet': [(1, [1, 2, 3, 4]), (2, [2, 5, 6, 3]), (3, [5, 7, 8, 9])]}}
    hop_case(ctx, m, 2, 'elemental')
    hop_case(ctx, m, 2, 'nodal')


# ---------------------------------------------------------------- stream same-object (histories on one object)

MOVES = [([[2, 0, 0], [0, 1, 1], [0, 0, -1]], [3, -2, 0]), ([[1, 1, 0], [0, 3, 0], [1, 0, 1]], [0, 0, 5]),
         ([[-1, 0, 2], [0, 2, 0], [1, 0, 1]], [-4, 1, 1]), ([[0, 1, 0], [0, 0, 4], [1, 0, 0]], [0, 0, 0]),
         ([[5, 0, 0], [0, 5, 0], [0, 0, 5]], [1, 1, 1])]


def moved(P, mv):
    """the same number of integer points somewhere else (invertible integer map that is not an isometry)"""
    A, t = mv
    return [[sum(A[r][c] * int(p[c]) for c in range(3)) + t[r] for r in range(3)] for p in P]


def history_eval(case):
    """the point searches asked twice on the SAME objects with the same arguments, the node positions replaced through
    `nodes.data = …` in between (no cache cleared); the second answer must be the exhaustive-search answer on the current
    positions.  Returns [(signature, what, observed)]."""
    out = []
    after = 'after `nodes.data = new positions` on the same object(s): '
    if case['kind'] == 'knn-history':
        T0, T, k, m = case['targets0'], case['targets'], case['k'], case['bound2']
        ft = mk_points(T0)
        fq = ft if case['self'] else mk_points(case['queries0'])
        Q = T if case['self'] else case['queries']

        def call():
            return quiet(fq.nearest_neighbor_search_from_nodes_to_nodes, k, distance_upper_bound=bound_of(m),
                         target_fem_data=None if case['self'] else ft)
        call()
        set_pos(ft, T)
        if not case['self']:
            set_pos(fq, Q)
        idx, vec, dist = call()
        for qi, q in enumerate(Q):
            r = check_row(T, q, k, m, idx[qi], vec[qi], dist[qi])
            if r is not None:
                out.append((r[0] + ':same-object', f'{after}query {q} (k={k}, bound^2={m}): {r[1]}',
                            {'query_index': qi, 'indices': idx[qi].tolist(), 'dists': [float(x) for x in dist[qi]]}))
                break
    else:
        A, B = case['A'], case['B']
        fa, fb = mk_points(case['A0']), mk_points(case['B0'])
        directed = bool(case['directed'])
        quiet(fa.calculate_hausdorff_distance_nodes, fb, directed=directed)
        set_pos(fa, A)
        set_pos(fb, B)
        want = brute_hd2(A, B) if directed else max(brute_hd2(A, B), brute_hd2(B, A))
        name = 'directed A->B' if directed else 'symmetric'
        got = quiet(fa.calculate_hausdorff_distance_nodes, fb, directed=directed)
        if not close(float(got), math.sqrt(want)):
            out.append(('hausdorff:' + name.split()[0] + ':same-object',
                        f'{after}{name}: returned {float(got)!r}, max-min over all pairs = sqrt({want})', float(got)))
    return out


def history_stream(ctx, n_pts, n_hop):
    rnd = ctx.rng
    for i in range(n_pts):
        scene = gen_scene(rnd, rnd.randrange(len(STYLES)))
        T, Q = scene['targets'], scene['queries']
        mv = rnd.choice(MOVES)
        # thin: every octree costs ~0.8 s, so one search history per scene (two objects / self-search alternate) and one
        # Hausdorff history per two scenes (symmetric / directed alternate)
        for self_, (k, m) in [(bool(i % 2), sweep(rnd, T, Q, 2)[i % 2])]:
            case = {'kind': 'knn-history', 'targets0': moved(T, mv), 'queries0': moved(Q, mv), 'targets': T, 'queries': Q,
                    'k': k, 'bound2': m, 'self': self_, 'style': scene['style'],
                    'history': 'search(k, bound) on targets0 / queries0; nodes.data = targets / queries; search again'}
            for sig, what, obs in history_eval(case):
                ctx.fail(sig, what, case, obs)
            ctx.case(('knn-history', repr(case)), sample={'kind': 'knn:same-object', 'style': scene['style'], 'k': k, 'bound2': m,
                                                          'self': self_, 'n_targets': len(T)}, nontrivial=True)
            ctx.count('same-object:knn:' + ('self-search' if self_ else 'two objects'))
        if i % 2:
            continue
        A, B, label = gen_haus(rnd, rnd.randrange(len(HSTYLES)))
        case = {'kind': 'hausdorff-history', 'A0': moved(A, mv), 'B0': moved(B, rnd.choice(MOVES)), 'A': A, 'B': B, 'label': label,
                'directed': i % 4 == 2,
                'history': 'Hausdorff distance of A0, B0; nodes.data = A / B on the same objects; Hausdorff distance again'}
        for sig, what, obs in history_eval(case):
            ctx.fail(sig, what, case, obs)
        ctx.case(('hausdorff-history', repr(case)), sample={'kind': 'hausdorff:same-object', 'label': label, 'nA': len(A),
                                                            'nB': len(B)}, nontrivial=brute_hd2(A, B) > 0)
        ctx.count('same-object:hausdorff:' + ('directed' if case['directed'] else 'symmetric'))
    for i in range(n_hop):
        m = gen_hop_mesh(rnd)
        A, t = rnd.choice(MOVES)
        m0 = dict(m)
        m0['nodes'] = [(j, tuple(moved([p], (A, t))[0])) for j, p in m['nodes']]
        P = [p for _, p in m['nodes']]
        real = sorted({d2(a, b) for a in P for b in P if a != b})
        # radii that separate realised distances (a stale graph of the other geometry then differs)
        for mode in ('nodal', 'nodal', 'elemental')[:2 + (i % 2)]:
            hop_case(ctx, m, real[min(len(real) - 1, rnd.randint(0, 6))], mode, m0)


# ---------------------------------------------------------------- stream absolute-scale
# The scenes above live at unit scale (integer coordinates, radii on realised distances of a few units).  The property
# quantifies over every point set, every distance bound and radius: the SAME integer scenes are therefore also handed to femio
# scaled exactly by a power of two 2^e, e in -20 .. 10 (cells of a micrometre .. a kilometre in a model expressed in metres), with
# the radius / bound scaled along.  Multiplying by a power of two commutes with every binary64 operation of the kernels
# (no underflow / overflow in this range), so the k-nearest and Hausdorff answers at scale 2^e must be the unit-scale answers
# scaled; the hop graph has ONE absolute constant, the documented length tolerance 1e-8 of its ball (d <= r + 1e-8), so the
# expected membership at scale s is decided from the integer squared distances in exact rational arithmetic (hop_case).

SCALE_EXPS_SMALL = list(range(-20, -13))                    # cells below ~1e-4: 1e-8 is not small against r^2 any more
SCALE_EXPS_OTHER = [e for e in range(-13, 11) if e != 0]


def scaled_knn_eval(case):
    """k-nearest search through the public API on targets * 2^e, queries * 2^e with the bound sqrt(bound2) * 2^e; the returned
    vectors / distances divided by 2^e must satisfy the property on the integer scene.  -> [(signature, what, observed)]"""
    T, Q, k, m, e = case['targets'], case['queries'], case['k'], case['bound2'], case['scale_exp']
    ft = mk_points(np.ldexp(np.asarray(T, np.float64), e))
    fq = mk_points(np.ldexp(np.asarray(Q, np.float64), e))
    bound = np.inf if m is None else math.ldexp(math.sqrt(m), e)
    idx, vec, dist = quiet(fq.nearest_neighbor_search_from_nodes_to_nodes, k, distance_upper_bound=bound, target_fem_data=ft)
    vec, dist = np.ldexp(vec, -e), np.ldexp(dist, -e)
    for qi, q in enumerate(Q):
        r = check_row(T, q, k, m, idx[qi], vec[qi], dist[qi])
        if r is not None:
            return [(r[0] + ':absolute-scale', f'at absolute scale 2^{e} (coordinates, bound and results in units of 2^{e}): query {q} '
                     f'(k={k}, bound^2={m}): {r[1]}', {'query_index': qi, 'indices': idx[qi].tolist(), 'dists': [float(x) for x in dist[qi]]})]
    return []


def scaled_haus_eval(case):
    A, B, e = case['A'], case['B'], case['scale_exp']
    fa, fb = mk_points(np.ldexp(np.asarray(A, np.float64), e)), mk_points(np.ldexp(np.asarray(B, np.float64), e))
    out = []
    want_ab, want_ba = brute_hd2(A, B), brute_hd2(B, A)
    for name, directed, want in (('symmetric', False, max(want_ab, want_ba)), ('directed A->B', True, want_ab))[case.get('which', 0)::2]:
        got = math.ldexp(float(quiet(fa.calculate_hausdorff_distance_nodes, fb, directed=directed)), -e)
        if not close(got, math.sqrt(want)):
            out.append(('hausdorff:' + name.split()[0] + ':absolute-scale', f'at absolute scale 2^{e}: {name}: returned {got!r} (in units '
                        f'of 2^{e}), max-min over all pairs = sqrt({want})', got))
    return out


def absolute_scale_stream(ctx, n_hop, n_pts):
    rnd = ctx.rng
    for i in range(n_hop):
        m = gen_hop_mesh(rnd)
        P = [p for _, p in m['nodes']]
        real = sorted({d2(a, b) for a in P for b in P if a != b})
        exps = [rnd.choice(SCALE_EXPS_SMALL), rnd.choice(SCALE_EXPS_OTHER)]
        if i % 4 == 0:
            exps.append([-20, -14, 10, -17][(i // 4) % 4])
        for e in exps:
            for mode in ('nodal', 'elemental'):
                r2 = rnd.choice([0, real[0], real[min(len(real) - 1, rnd.randint(0, 6))], rnd.choice(real), real[0] + 1])
                hop_case(ctx, m, r2, mode, e=e)
    for i in range(n_pts):
        e = rnd.choice(SCALE_EXPS_SMALL + SCALE_EXPS_OTHER)
        scene = gen_scene(rnd, rnd.randrange(len(STYLES) - 1))       # (near-plane scenes have extents ~1e8: left at unit scale)
        T, Q = scene['targets'], scene['queries']
        k, m = sweep(rnd, T, Q, 3)[1 + i % 2]
        case = {'kind': 'knn-scaled', 'targets': T, 'queries': Q, 'k': k, 'bound2': m, 'scale_exp': e, 'style': scene['style']}
        for sig, what, obs in scaled_knn_eval(case):
            ctx.fail(sig, what, case, obs)
        ctx.case(('knn-scaled', repr(case)), sample={'kind': 'knn:absolute-scale', 'style': scene['style'], 'k': k, 'bound2': m,
                                                     'scale_exp': e, 'n_targets': len(T)}, nontrivial=True)
        ctx.count('absolute-scale:knn')
        if i % 4 == 3:
            # nearly identical clouds at a SMALL absolute scale: coordinates of a few units, differences 1e-6 .. 2e-4 (exact
            # multiples of 2^e), i.e. equal under an absolute tolerance of that size as well as under rtol 1e-5
            e = rnd.choice(SCALE_EXPS_SMALL)
            A, B, label = gen_near_identical(rnd, i // 4)
        else:
            A, B, label = gen_haus(rnd, rnd.randrange(len(HSTYLES)))
            if max(abs(v) for p in A + B for v in p) > 10 ** 6:
                continue
        case = {'kind': 'hausdorff-scaled', 'A': A, 'B': B, 'label': label, 'scale_exp': e, 'which': i % 2}    # symmetric / directed
        for sig, what, obs in scaled_haus_eval(case):
            ctx.fail(sig, what, case, obs)
        ctx.case(('hausdorff-scaled', repr(case)), sample={'kind': 'hausdorff:absolute-scale', 'label': label, 'scale_exp': e},
                 nontrivial=brute_hd2(A, B) > 0)
        ctx.count('absolute-scale:hausdorff')


# ---------------------------------------------------------------- entry points

def run(ctx):
    import femio  # noqa
    import time
    n_knn = ctx.n(34, 150)
    n_combo = ctx.n(10, 16)
    n_haus = ctx.n(10, 90)
    n_hop = ctx.n(12, 80)
    t0, times = time.time(), []

    def lap(name):
        nonlocal t0
        times.append(f'{name} {time.time() - t0:.0f}s')
        t0 = time.time()
    for name, obj in C.corpus_cases(PROP):
        r = replay(ctx, {'input': obj.get('input', obj)})
        ctx.count('corpus:' + ('fails' if r.get('fails') else 'passes'))
    lap('corpus')
    for i in range(n_knn):
        knn_scene(ctx, gen_scene(ctx.rng, i, KSTYLES), n_combo)
    lap('knn')
    for A, B, label in crafted_haus():
        haus_scene(ctx, A, B, label)
    # deliberate structure, every run: near ties of the nearest-target distances across leaves with the nearest targets in
    # opposite senses (each scene and its point reflection), and clouds of equal size and order that differ by a few units at
    # coordinates >= 1e6 (relative 1e-8 .. 1e-6)
    for i in range(ctx.n(3, 12)):
        for A, B, label in gen_near_tie_haus(ctx.rng, i):
            haus_scene(ctx, A, B, label)
    for i in range(ctx.n(3, 12)):
        A, B, label = gen_near_identical(ctx.rng, i)
        haus_scene(ctx, A, B, label)
    lap('hausdorff-deliberate')
    for i in range(n_haus):
        A, B, label = gen_haus(ctx.rng, i)
        haus_scene(ctx, A, B, label)
    lap('hausdorff-random')
    hop_docstring_example(ctx)
    for i in range(n_hop):
        m = gen_hop_mesh(ctx.rng)
        P = [p for _, p in m['nodes']]
        real = sorted({d2(a, b) for a in P for b in P if a != b})
        for mode in ('nodal', 'elemental'):
            r2 = ctx.rng.choice([0, real[0], real[min(len(real) - 1, ctx.rng.randint(0, 6))], ctx.rng.choice(real), real[0] + 1])
            hop_case(ctx, m, r2, mode)
    lap('hop')
    # stream same-object: every search asked again with the same arguments after the node positions of the same object(s)
    # were replaced through the public setter
    history_stream(ctx, ctx.n(3, 24), ctx.n(8, 40))
    lap('same-object')
    # stream absolute-scale: the same integer scenes scaled exactly by 2^e, e = -20 .. 10, radius / bound scaled along
    absolute_scale_stream(ctx, ctx.n(14, 90), ctx.n(4, 30))
    lap('absolute-scale')
    ctx.notes.append('time per stream: ' + ', '.join(times))


class _Collect:
    """minimal ctx for replay: collects failures"""


def replay(ctx, obj):
    case = obj['input']
    before = len(ctx.failures)
    kind = case.get('kind')
    if kind == 'knn':
        T, Q, k, m = case['targets'], case['queries'], case['k'], case['bound2']
        idx, vec, dist = quiet(mk_points(Q).nearest_neighbor_search_from_nodes_to_nodes, k,
                               distance_upper_bound=bound_of(m), target_fem_data=mk_points(T))
        rows = []
        for qi, q in enumerate(Q):
            r = check_row(T, q, k, m, idx[qi], vec[qi], dist[qi])
            rows.append({'query': q, 'indices': idx[qi].tolist(), 'squared_distances_expected': brute_knn(T, q, k, m),
                         'verdict': r[1] if r else 'ok'})
            if r is not None and len(ctx.failures) == before:
                ctx.fail(r[0], f'query {q} (k={k}, bound^2={m}): {r[1]}',
                         {'kind': 'knn', 'targets': T, 'queries': Q, 'k': k, 'bound2': m, 'via': 'public', 'query_index': qi},
                         {'indices': idx[qi].tolist()})
        mod = model_knn(ctx, T, Q, [(k, m)])[0] if ctx.driver is not None else None
        return {'fails': any(r['verdict'] != 'ok' for r in rows), 'rows': rows,
                'model_indices': [[h[0] for h in row] for row in mod] if mod else None}
    if kind == 'leaf':
        T = case['targets']
        with Capture() as cap:
            quiet(mk_points(T).nearest_neighbor_search_from_nodes_to_nodes, 1)
        check_leaves(ctx, {'targets': T}, cap.trees[-1])
    elif kind == 'hausdorff':
        haus_scene(ctx, case['A'], case['B'], case.get('label', 'replay'))
    elif kind == 'hop':
        hop_case(ctx, MG.from_json(case['mesh']), case['r2'], case['mode'],
                 MG.from_json(case['mesh0']) if 'mesh0' in case else None, e=case.get('scale_exp', 0))
    elif kind in ('knn-history', 'hausdorff-history'):
        for sig, what, obs in history_eval(case):
            ctx.fail(sig, what, case, obs)
    elif kind in ('knn-scaled', 'hausdorff-scaled'):
        for sig, what, obs in (scaled_knn_eval if kind == 'knn-scaled' else scaled_haus_eval)(case):
            ctx.fail(sig, what, case, obs)
    else:
        return {'fails': False, 'error': f'unknown case kind {kind!r}'}
    new = ctx.failures[before:]
    return {'fails': bool(new), 'failures': [{'signature': f['signature'], 'what': f['what']} for f in new],
            'disagreements_with_model': ctx.disagreements[-3:]}
