"""C10 - the extracted / exported surface is the outward-oriented closed boundary (DESIGN.md section 4, C10).

Tie T: face tables / FrontISTR face rows regenerated into Femio/Gen/Tables.lean (decide obligations in Props/C10).
Tie D: `extract_surface()`, `to_surface()`, `extract_surface_fistr()`, the .obj text and its re-read are compared
       with the Lean model (`Femio.C10.*` through `c10.*` driver commands) on generated conforming meshes; the driver
       also evaluates the Boolean hypotheses of the theorems (element closedness, conformity) on every mesh.
Tie P: exact-rational volumes / fluxes of the model vs the float results of `calculate_element_volumes`.
Oracle: the property stated on the real API only (edge counting, outwardness, enclosed volume, face sets, OBJ re-read).

Every case is evaluated the same way (`evaluate`):
  1. a LIVE object is built from the mesh and - stream A - modified through public means (in-place edits through the
     arrays returned by `.data`, the data setters, loc / iloc write-through, `update(allow_overwrite=True)`); the mesh the
     property talks about is the object's CURRENT public state (`state_mesh`: ids and `.data` of nodes and element blocks,
     snapshot taken just before the operations);
  2. REFERENCE observations: every operation on its own, independently constructed fresh object with that content;
     the oracle and the correspondence with the model run on these;
  3. a HISTORY on the live object: all operations in shuffled order with repeats; before / after every call the public
     state of every live object (the parent with its user variable, every surface object and every array returned by an
     earlier call) is compared bit-exactly, and every result must equal the reference result of that operation.
Streams B (absolute scale / far offset, with the pair relation to the mesh at the origin) and E (sparse-but-small ids,
single elements, internal voids, several components of different kinds) are generator dimensions of the same flow.
Stream G / M (SIZE BOUNDARIES, `evaluate_large`, after the main flow): structured meshes with up to ~2e5 elements built with
numpy - more than 2^16 faces of one shape and more than 2^16 nodes in every quick run, facet counts exactly at / next to
2^12 .. 2^17 in the thorough tier, ids <= 0 - judged with numpy against the boundary derived from the cell occupancy, the
.obj text through an independent parser; oracle only (model side: C10_obj_blockwise).
"""
import os
from fractions import Fraction as F

import numpy as np

from . import common as C
from . import meshgen as G
from . import d_util as U

PROP = 'C10'
LEAN_MODULES = ['Femio.Props.C10']
THEOREMS = ['C10_element_closed', 'C10_element_outward', 'C10_boundary_spec', 'C10_fistr_scan_spec', 'C10_closed',
            'C10_closed_manifold', 'C10_volume', 'C10_same_face_set', 'C10_fistr_same_keys', 'C10_fistr_numbers', 'C10_obj_roundtrip',
            'C10_obj_lex_print', 'C10_obj_roundtrip_chars', 'C10_flux_similarity', 'C10_volume_similarity',
            'C10_enclosed_volume_translate', 'C10_obj_blockwise', 'C10_obj_roundtrip_blockwise',
            'C10_obj_blockwise_joined_counterexample']
PARTIAL = [
    'C10_element_outward / C10_volume: quadrilateral faces are measured by the centroid-fan flux (exact for planar '
    'faces; for warped faces the statement is about that discretisation, which is also what femio\'s "centroid" '
    'volume kernels integrate)',
    'C10_obj_roundtrip_chars: the coordinate numerals are opaque whitespace-free tokens (hypothesis vertsOKB, evaluated '
    'by the driver on every case); that float(repr(x)) == x for the decimal text of the coordinates is trusted '
    '(Python shortest repr) and exercised by the correspondence at every scale (full 53-bit mantissas in the scale / offset '
    'stream); line splitting models StringSeries.read_file as "split at newlines, skip empty lines" (pandas read_csv '
    'quoting / carriage returns not modelled)',
    'histories: in the model every operation is a function of (node ids, blocks, coordinates) only, so "the result does '
    'not depend on earlier calls / the operation does not modify the object" holds in the model by construction; that the '
    'code has this shape (no state kept on the object, no shared array modified) is checked by the oracle on shuffled '
    'histories with snapshots, not proved (the lru_cache of extract_surface after an in-place modification is C19 / F11)',
    'STL export is not runnable in this sandbox (numpy-stl missing) and is not covered',
    'size-boundary stream (meshes with up to ~2e5 elements): oracle on the real code only - the Lean model is not run on them; '
    'the model side is C10_obj_blockwise / C10_obj_roundtrip_blockwise (the text of a writer that emits its lines block by block, '
    'each line newline-terminated, does not depend on the cut into blocks, so the round trip holds at every size) and the '
    '`decide`d counterexample for the writer that joins the rows of a block and terminates only the last block; that the '
    'code is such a writer is what the stream tests',
]
RULE = ('seeded conforming solid meshes from harness/meshgen.gen_geometric: kind in tet / tet2 / hex / mixed '
        '(hex+prism+pyr) / pyr / prism, 1..3 cells per axis (thorough: ..4), random rational affine map, optional '
        'jitter, optional removed cells (voids, several components), optional unreferenced nodes, node / element ids '
        'dense / sparse / large / ~2e9 / prefix-like / sparse-but-small with additive structure (separately numbered parts, '
        'strides, digit shifts, just above the node count, and placements under which the packed radix keys of two facets '
        'coincide for a radix next to the node count), storage order ascending / descending / shuffled / looks-sorted; '
        'fixed schedule of shapes: single element, 3x3x3 brick with an internal void, two components of different kinds '
        '(tet or tet2 next to hex / prism / pyr); every third case is followed by the same mesh at another ABSOLUTE SCALE '
        '(2^-20 .. 2^20, 1e-6 .. 1e3) or FAR OFFSET (1e3 .. 1e7 cell sizes, anisotropic, UTM-like), compared with the result '
        'at the origin; every fourth case is MODIFIED through public means before the operations (expectation = current '
        'public state); every case: all operations in shuffled order with repeats on one live object vs each operation on '
        'its own fresh object, snapshots of every live object around every call; a case is non-trivial when the mesh has at '
        'least one interior face or is a single element; distinct = distinct (connectivity, ids, storage order, '
        'coordinates, modification, history); SIZE-BOUNDARY stream (after the main flow): structured bricks of cells built with '
        'numpy, every column of cells cut by one pattern (hex / 2 prisms / 6 pyramids / 6 Kuhn tets / tet2), optional periodic '
        'holes and internal voids, ids and storage orders = arithmetic permutations (dense, sparse, ~2e9, descending, ids <= 0 '
        'with a node and an element numbered 0); quick: one plate of >= 182 x 182 cells per run (> 2^16 nodes, > 2^16 '
        'quadrilaterals or > 2^16 triangles + quadrilaterals) and four small ones (two of them with ids <= 0: a tet mesh and a '
        'mixed one); thorough: bricks with EXACTLY 2^k facets '
        'of one shape and the nearest counts below / above for k = 12..17 over all patterns, > 2^16 nodes with few faces, holes, '
        'voids, three-type mixes, 40 small ones; expectation = the faces of elements lying in a cell side without a cell '
        'behind it (from the occupancy, no key counting), compared with extract_surface (faces + orientation, positions, edge '
        'balance, enclosed volume), to_surface with / without unused nodes, extract_surface_fistr, the .obj text through an '
        'independent parser, its read back, the file rewritten with overwrite=True, and the caller\'s arrays afterwards')
ASSUMPTIONS = [
    'input meshes are conforming (every shared face is used by exactly two elements, as mirror images): decided per '
    'input by the model (`conformingB`, `mirrorConformingB`), meshes failing it go to a separate labelled stream',
    '"every edge is used by two faces" is checked as: directed-edge counts are balanced, and every undirected edge '
    'that lies on exactly two surface faces is traversed in opposite directions (two cells touching only along an '
    'edge make a 4-face edge on any correct boundary)',
    'finite coordinates (a coordinate printed as inf / nan would be misread as an `f` line by the reader)',
    'the mesh of a modified object is what `.ids` / `.data` of its nodes and element blocks return when the operation is '
    'called (after an in-place edit through `.data` the pandas frame of the attribute is a stale second view; femio\'s own '
    'tests edit `.data` in place); every modification keeps the mesh valid (exactly re-validated: positive elements, star-'
    'shaped faces) and is followed by no earlier query on that object (query - modification - query on one object is the '
    'open finding F11 of C19, kept out of C10)',
    'float tolerances (calibrated on the unchanged tree, seeds 0..5 quick + thorough): sum of element volumes vs exact '
    'enclosed volume: "centroid" kernels (float32 accumulators over ABSOLUTE coordinates) 2e-6 * P^3 per element, "linear" '
    'kernels (float64, coordinate differences) (1e-9 * D^3 + 64 eps * P * D^2) per element, P = max |coordinate|, D = '
    'largest extent of the referenced nodes (no floor: micrometre meshes are judged at their own scale); the second term '
    'is the conditioning of a volume with respect to one ulp of its coordinates, so far from the origin the test still '
    'rejects formulas that cancel in absolute coordinates (error eps * P^3); everything else (face sets, closedness, '
    'orientation from the node order, enclosed volume = sum of exact element volumes, coordinates of the surface object, '
    'OBJ vertices read back) is exact at every scale',
    'size-boundary stream: coordinates are dyadic rationals (grid indices <= 3000 times an affine map with entries k/8, '
    'translations k/2), so the float64 flux sums of the oracle are exact up to summation order; enclosed volume vs cells x det A '
    'and vs calculate_element_volumes(mode="linear").sum(): 1e-9 x (sum of |face flux terms| + volume); "arbitrary node ids" '
    'is read as including zero and negative integers (node / element ids <= 0 occur in this stream only: the Lean protocol '
    'carries ids as naturals)',
]
TRUSTED = ['C10: decimal text <-> float64 conversion of pandas / numpy (coordinates enter the OBJ model as opaque tokens)',
           'C10: harness/meshgen.py face tables are used by the oracle as the independent definition of "face of an element"']

KINDS = ['tet', 'hex', 'mixed', 'pyr', 'prism', 'tet2']
FISTR_FACES = [(0, 1, 2), (0, 1, 3), (1, 2, 3), (2, 0, 3)]   # FrontISTR manual: faces 1..4 of a 341 / 342 element
EPS = 2.0 ** -52

# (label, scale, shift): exact powers of two, realistic decimal unit changes (full mantissas), far offsets
TRANSFORMS = [
    ('pow2:-20', 2.0 ** -20, (0, 0, 0)), ('offset:1e7', 1.0, (1e7, 1e7, 1e7)), ('real:1e-6', 1e-6, (0, 0, 0)),
    ('offset:utm', 1.0, (500000.37, 4649776.22, 120.5)), ('pow2:+20', 2.0 ** 20, (0, 0, 0)), ('offset:1e5', 1.0, (1e5, -1e5, 1e5)),
    ('real:1e3', 1e3, (0, 0, 0)), ('offset:aniso', 1.0, (1e7, 0, -1e4)), ('pow2:-10', 2.0 ** -10, (0, 0, 0)),
    ('micro-far', 1e-6, (0.5, -0.25, 1.0)), ('offset:1e3', 1.0, (1e3, 1e3, -1e3)), ('real:1e-3', 1e-3, (0, 0, 0)),
    ('pow2:+10', 2.0 ** 10, (0, 0, 0)), ('offset:1e6', 1.0, (-1e6, 1e6, 0)),
]
MOD_KINDS = ['nodes-inplace', 'conn-inplace', 'nodes-setter', 'nodes-loc', 'conn-setter', 'nodes-update', 'nodes-iloc']
ROT = {'tet': [1, 2, 0, 3], 'hex': [1, 2, 3, 0, 5, 6, 7, 4], 'prism': [1, 2, 0, 4, 5, 3], 'pyr': [1, 2, 3, 0, 4]}
FIELD = {'tri': 'triangles', 'quad': 'quadrilaterals', 'pos_tri': 'positions', 'pos_quad': 'positions',
         'surf_nodes': 'node-ids', 'surf_node_pos': 'node-coordinates', 'surf_blocks': 'elements', 'normals': 'normals',
         'surf_flat_ids': 'element-ids', 'keep_nodes': 'node-ids', 'keep_node_pos': 'node-coordinates', 'keep_blocks': 'elements',
         'fistr': 'rows', 'obj_text': 'text', 'obj_read_nodes': 'vertices-read-back', 'obj_read_elems': 'faces-read-back'}


# ------------------------------------------------------------------ generator dimensions

class _Dims:
    """random source that answers the first three randint() calls of gen_geometric (its cell counts) with fixed values"""

    def __init__(self, rnd, dims):
        self._r, self._d = rnd, list(dims)

    def randint(self, a, b):
        return self._d.pop(0) if self._d else self._r.randint(a, b)

    def __getattr__(self, k):
        return getattr(self._r, k)


def gen(ctx, kind, big=False, dims=None, **kw):
    rnd = ctx.rng if dims is None else _Dims(ctx.rng, dims)
    if kind == 'tet2':
        m = G.gen_geometric(rnd, kind='tet', max_cells=2, **kw)
        return G.promote_tet2(ctx.rng, m)
    return G.gen_geometric(rnd, kind=kind, max_cells=(4 if big else 3) if kind in ('hex', 'mixed') else (3 if big else 2), **kw)


def corner(t, c):
    return c[:4] if t == 'tet2' else c


def surface_keys(m):
    cnt = {}
    for t, _, c in U.elem_list(m):
        for f in G.FACES['tet' if t == 'tet2' else t]:
            k = tuple(sorted(c[i] for i in f))
            cnt[k] = cnt.get(k, 0) + 1
    return {k for k, n in cnt.items() if n == 1}


def drop_elements(m, keep, shape, drop_unused=False):
    """any subset of the elements of a conforming mesh is a conforming mesh"""
    out = dict(m)
    out['blocks'] = {t: [(e, c) for e, c in b if keep(t, e, c)] for t, b in m['blocks'].items()}
    out['blocks'] = {t: b for t, b in out['blocks'].items() if b}
    if drop_unused:
        used = {n for b in out['blocks'].values() for _, c in b for n in c}
        out['nodes'] = [(i, p) for i, p in m['nodes'] if i in used]
    out['shape'] = shape
    return out


def gen_void(ctx, kind):
    """3 x 3 x 3 brick; the elements without a node on the outer boundary are removed: an internal void whose wall is a
    second, inward-facing component of the surface (hexes, the triangles and quadrilaterals of prisms, pyramid bases)"""
    m = gen(ctx, 'tet' if kind == 'tet2' else kind, dims=(3, 3, 3), voids=False)
    if kind == 'tet2':
        m = G.promote_tet2(ctx.rng, m)
    outer = {n for k in surface_keys(m) for n in k}
    return drop_elements(m, lambda t, e, c: any(n in outer for n in corner(t, c)), 'void')


def gen_single(ctx, kind):
    """exactly one element (with or without the now unreferenced nodes of its cell)"""
    m = gen(ctx, kind, dims=(1, 1, 1), voids=False)
    t0 = ctx.rng.choice(list(m['blocks']))
    e0 = ctx.rng.choice(m['blocks'][t0])[0]
    return drop_elements(m, lambda t, e, c: (t, e) == (t0, e0), 'single', drop_unused=ctx.rng.random() < .5)


def gen_components(ctx, kind, other):
    """two components of different kinds side by side (a tet / tet2 part next to a hex / prism / pyramid part and so on):
    disjoint ids (second part numbered after the first, or both renumbered), second part translated out of the way"""
    rnd = ctx.rng
    a = gen(ctx, kind)
    b = gen(ctx, other)
    hi = max(abs(v) for _, p in a['nodes'] for v in p) + max(abs(v) for _, p in b['nodes'] for v in p) + 2
    shift = (F(int(hi) + 1), F(0), F(rnd.randint(-2, 2)))
    off_n = max(i for i, _ in a['nodes']) + rnd.choice([0, 1, len(a['nodes']), 1000])
    off_e = max(e for blk in a['blocks'].values() for e, _ in blk) + rnd.choice([0, 7])
    nodes = list(a['nodes']) + [(i + off_n, tuple(x + s for x, s in zip(p, shift))) for i, p in b['nodes']]
    blocks = {t: list(blk) for t, blk in a['blocks'].items()}
    for t, blk in b['blocks'].items():
        blocks.setdefault(t, [])
        blocks[t] = blocks[t] + [(e + off_e, [n + off_n for n in c]) for e, c in blk]
    if rnd.random() < .5:
        rnd.shuffle(nodes)
    for blk in blocks.values():
        if rnd.random() < .5:
            rnd.shuffle(blk)
    out = dict(a)
    out.update(nodes=nodes, blocks={t: blocks[t] for t in G.ELEMENT_TYPES if t in blocks}, kind=a['kind'] + '|' + b['kind'],
               order='parts', id_style=str(a.get('id_style')) + '|' + str(b.get('id_style')), shape='components',
               jittered=bool(a.get('jittered') or b.get('jittered')), n_unref=a.get('n_unref', 0) + b.get('n_unref', 0))
    return out


def small_sparse_ids(rnd, n):
    """n distinct positive ids that are SPARSE BUT SMALL (max id exceeds n by a small factor only) and have additive structure,
    so that arithmetic combinations of the ids of a facet (packed radix keys sum(id_k * B^k) with B ~ n, `id - offset`
    tables, hashes) collide although every id is small; random sparse ids of the same size almost never do"""
    style = rnd.choice(['parts', 'parts', 'shifted', 'stride', 'above'])
    B = max(2, n + rnd.choice([-1, 0, 1, 1, 1, 2]))
    if style == 'parts' and n >= 3:
        k = rnd.choice([2, 2, 3])
        cuts = sorted(rnd.sample(range(1, n), k - 1))
        ids, nxt = [], 1
        for j, (a, b) in enumerate(zip([0] + cuts, cuts + [n])):
            start = max(nxt, j * B + rnd.choice([0, 1, 1, 1, 2]))
            ids += list(range(start, start + b - a))
            nxt = start + b - a + 1
    elif style == 'shifted':
        R = rnd.choice([B, B, 10, 16, 100])
        pool = set()
        while len(pool) < n:
            j = rnd.randint(1, max(2, n // 2 + 1))
            pool.add(rnd.choice([j, j, j * R, j * R + rnd.randint(0, j), j + R]))
        ids = sorted(pool)
    elif style == 'stride':
        step = rnd.choice([2, 3, B, max(2, B - 1)])
        a = rnd.randint(1, 3)
        pool = {a + k * step for k in range(rnd.randint(1, n))}
        j = 1
        while len(pool) < n:
            pool.add(j)
            j += 1
        ids = sorted(pool)
    else:
        style = 'above'
        ids = list(range(1, n + 1))
        for _ in range(rnd.randint(1, 3)):
            new = n + rnd.randint(1, 3)
            if new not in ids:
                ids[rnd.randrange(n)] = new
    assert len(set(ids)) == n and min(ids) >= 1, (style, ids)
    return ids, 'small:' + style


def colliding_ids(rnd, m):
    """sparse-but-small node ids (1 .. n with ONE id moved just above the node count) placed so that the packed keys
    sum(sorted_id_k * B^k) of a boundary facet and of another facet with the same number of nodes coincide, for a radix B
    next to the node count (n, n + 1, n + 2) and either digit order: two facets that share all but two nodes; in the two
    sorted positions where they differ the ids are (x, y + B) and (x + 1, y).  This is the input class on which facets
    counted through an integer radix key (instead of row-wise) lose boundary faces; None if the mesh has no such pair"""
    n = len(m['nodes'])
    faces = {}
    for t, _, c in U.elem_list(m):
        for f in G.FACES['tet' if t == 'tet2' else t]:
            k = frozenset(c[i] for i in f)
            faces[k] = faces.get(k, 0) + 1
    boundary = sorted((k for k, v in faces.items() if v == 1), key=sorted)
    rnd.shuffle(boundary)
    pair = None
    for f in boundary[:20]:
        cands = sorted((g for g in faces if len(g) == len(f) and len(g & f) == len(f) - 2), key=sorted)
        if cands:
            pair = (f, rnd.choice(cands))
            break
    if pair is None:
        return None
    f, g = pair
    B = n + rnd.choice([1, 1, 1, 0, 2])
    shared, u, v = sorted(f & g), sorted(f - g), sorted(g - f)
    for l in (shared, u, v):
        rnd.shuffle(l)
    s, e = len(shared), rnd.randint(0, 2)
    new = {}
    if rnd.random() < .6:
        # smallest id = most significant digit: the facets differ in their last two sorted positions (weights B, 1)
        for j, x in enumerate(shared):
            new[x] = j + 1
        new[u[0]], new[v[0]], new[v[1]], new[u[1]] = s + 1, s + 2, s + 3 + e, s + 3 + e + B
        digits = 'msd-first'
    else:
        # smallest id = least significant digit: they differ in their first two sorted positions (weights 1, B)
        new[u[0]], new[v[0]] = 1 + e, 1 + e + B
        new[v[1]] = new[v[0]] + 1 + rnd.randint(0, 1)
        new[u[1]] = new[v[1]] + 1
        for j, x in enumerate(shared):
            new[x] = new[u[1]] + 1 + j
        digits = 'lsd-first'
    taken = set(new.values())
    rest = [i for i, _ in m['nodes'] if i not in new]
    rnd.shuffle(rest)
    nxt = 1
    for x in rest:
        while nxt in taken:
            nxt += 1
        new[x] = nxt
        taken.add(nxt)
    assert len(set(new.values())) == n
    return new, f'small:collide(B=n{B - n:+d},{digits})'


def renumber(rnd, m):
    """the same mesh under a sparse-but-small numbering of its nodes (random assignment, storage order class redrawn) and -
    half of the time - of its elements (dense ids dealt round-robin over the types: the types INTERLEAVE in id order, or
    one contiguous range per type)"""
    old = [i for i, _ in m['nodes']]
    col = colliding_ids(rnd, m) if rnd.random() < .4 else None
    if col is not None:
        f, style = col
    else:
        new, style = small_sparse_ids(rnd, len(old))
        rnd.shuffle(new)
        f = dict(zip(old, new))
    keys, order = G.order_ids(rnd, list(range(len(old))), {k: f[old[k]] for k in range(len(old))})
    nodes = [(f[m['nodes'][k][0]], m['nodes'][k][1]) for k in keys]
    blocks = {t: [(e, [f[n] for n in c]) for e, c in b] for t, b in m['blocks'].items()}
    if rnd.random() < .5:
        slots = [(t, j) for t, b in blocks.items() for j in range(len(b))]
        if rnd.random() < .5:
            slots.sort(key=lambda s: (s[1], s[0]))         # round-robin: ids of the types interleave
            style += '+eid:interleaved'
        else:
            style += '+eid:ranges'
        eids, _ = small_sparse_ids(rnd, len(slots)) if rnd.random() < .5 else (list(range(1, len(slots) + 1)), '')
        g = dict(zip(slots, sorted(eids)))
        blocks = {t: [(g[(t, j)], c) for j, (_, c) in enumerate(b)] for t, b in blocks.items()}
        for b in blocks.values():
            if rnd.random() < .5:
                rnd.shuffle(b)
    out = dict(m)
    out.update(nodes=nodes, blocks=blocks, order=order, id_style=style)
    return out


def transform(m, label, scale, shift):
    """the same mesh at another absolute scale / far from the origin; coordinates are the float64 values femio will hold
    (exact rationals of the rounded products), `exact` tells whether every coordinate is exactly scale * x + shift"""
    s, t = F(scale), [F(x) for x in shift]
    exact, nodes = True, []
    for i, p in m['nodes']:
        q = []
        for v, d in zip(p, t):
            w = F(float(v)) * s + d
            fl = F(float(w))
            exact = exact and fl == w
            q.append(fl)
        nodes.append((i, tuple(q)))
    out = dict(m)
    out.update(nodes=nodes, transform=label, transform_exact=exact)
    return out


def valid_mesh(m):
    """exact: every element positive and star-shaped with respect to its centroid (each fan triangle of each face seen
    from the inside) - the validity test of the generator, re-evaluated after a transformation / modification"""
    X = U.coords_exact(m)
    for t, _, c in U.elem_list(m):
        ty = 'tet' if t == 'tet2' else t
        P = [X[n] for n in corner(t, c)]
        if G.signed(ty, P) <= 0:
            return False
        g = U.mean(P)
        for f in G.FACES[ty]:
            fc = U.mean([P[i] for i in f])
            for i in range(len(f)):
                if U.det3(U.sub(fc, g), U.sub(P[f[i - 1]], g), U.sub(P[f[i]], g)) <= 0:
                    return False
    return True


def extent(m):
    """P = max |coordinate|, D = largest extent, over the nodes the elements refer to"""
    used = {n for _, _, c in U.elem_list(m) for n in c}
    pts = [[float(v) for v in p] for i, p in m['nodes'] if i in used]
    P = max(abs(v) for p in pts for v in p)
    D = max(max(p[k] for p in pts) - min(p[k] for p in pts) for k in range(3))
    return P, D


def tolerances(m):
    """per-element tolerances of the float volume kernels (ASSUMPTIONS)"""
    P, D = extent(m)
    return U.TOL_CENTROID * P ** 3, U.TOL_LINEAR * D ** 3 + 64 * EPS * P * D * D


# ------------------------------------------------------------------ stream A: modification through public means

def plan_mod(rnd, m, kind):
    """a JSON-able description of one public modification of a live object of mesh `m` that keeps the mesh valid (small
    node moves are validated exactly on the elements around the node; global maps and re-labellings are always valid)"""
    n = len(m['nodes'])
    X = U.coords_exact(m)
    _, D = extent(m)

    def moves(k_max):
        used = sorted({x for _, _, c in U.elem_list(m) for x in c})
        pos = {i: k for k, (i, _) in enumerate(m['nodes'])}
        out = {}
        for _ in range(12):
            if len(out) >= k_max:
                break
            i = rnd.choice(used)
            for den in (8, 32, 256, 4096):
                d = tuple(F(rnd.randint(-1, 1) * max(1, int(D)), den) for _ in range(3))
                if d == (0, 0, 0):
                    continue
                trial = dict(m)
                trial['nodes'] = [(j, tuple(a + b for a, b in zip(p, d)) if j == i else
                                   tuple(a + b for a, b in zip(p, out.get(pos[j], (0, 0, 0))))) for j, p in m['nodes']]
                trial['blocks'] = {t: [(e, c) for e, c in b if i in c] for t, b in m['blocks'].items()}
                trial['blocks'] = {t: b for t, b in trial['blocks'].items() if b}
                if valid_mesh(trial):
                    out[pos[i]] = d
                    break
        return out

    if kind in ('nodes-inplace', 'nodes-setter'):
        if rnd.random() < .5 or kind == 'nodes-setter':
            mv = {} if kind == 'nodes-setter' and rnd.random() < .5 else moves(2)
            if mv:
                return {'kind': kind, 'how': 'rows', 'rows': sorted(mv), 'delta': [[str(x) for x in mv[k]] for k in sorted(mv)]}
        return {'kind': kind, 'how': 'all', 'scale': rnd.choice([2, 0.5, 1, 3]),
                'shift': [rnd.choice([0, 0.25, -3, 16]) for _ in range(3)]}
    if kind in ('nodes-loc', 'nodes-iloc', 'nodes-update'):
        mv = moves(3)
        if mv:
            rows = sorted(mv)
            rnd.shuffle(rows)
            return {'kind': kind, 'how': 'rows', 'rows': rows, 'delta': [[str(x) for x in mv[k]] for k in rows]}
        rows = list(range(n))
        rnd.shuffle(rows)
        sh = [str(F(rnd.choice([1, -2, 8]), 4)) for _ in range(3)]
        return {'kind': kind, 'how': 'rows', 'rows': rows, 'delta': [sh for _ in rows]}
    # connectivity: an equivalent re-labelling (rotation of an element about its axis: same oriented faces, other first
    # node) or an exchange of the connectivity of two elements of a block (the two element ids swap their cells)
    ts = [t for t in m['blocks'] if t != 'tet2' or len(m['blocks'][t]) > 1]
    if not ts:
        return {'kind': kind, 'how': 'none'}
    t = rnd.choice(ts)
    nb = len(m['blocks'][t])
    if t != 'tet2' and (nb < 2 or rnd.random() < .6):
        return {'kind': kind, 'how': 'rotate', 'type': t, 'rows': sorted(rnd.sample(range(nb), rnd.randint(1, min(3, nb))))}
    i, j = rnd.sample(range(nb), 2)
    return {'kind': kind, 'how': 'swap', 'type': t, 'rows': [i, j]}


def apply_mod(fd, mod):
    """the modification, through the public API only"""
    kind, how = mod['kind'], mod['how']
    if how == 'none':
        return
    if kind.startswith('nodes'):
        if how == 'rows':
            rows = list(mod['rows'])
            delta = np.array([[float(F(x)) for x in r] for r in mod['delta']])
        if kind == 'nodes-inplace':
            a = fd.nodes.data                      # the array the property `.data` returns
            if how == 'rows':
                for k, d in zip(rows, delta):
                    a[k] += d
            else:
                a *= mod['scale']
                a += np.array(mod['shift'], dtype=float)
        elif kind == 'nodes-setter':
            new = np.array(fd.nodes.data, dtype=float, copy=True)
            if how == 'rows':
                new[rows] += delta
            else:
                new = new * mod['scale'] + np.array(mod['shift'], dtype=float)
            fd.nodes.data = new
        elif kind == 'nodes-loc':
            ids = [int(fd.nodes.ids[k]) for k in rows]
            fd.nodes.loc[ids].data = fd.nodes.data[rows] + delta
        elif kind == 'nodes-iloc':
            fd.nodes.iloc[rows].data = fd.nodes.data[rows] + delta
        elif kind == 'nodes-update':
            ids = [int(fd.nodes.ids[k]) for k in rows]
            fd.nodes.update(ids, fd.nodes.data[rows] + delta, allow_overwrite=True)
        return
    t, rows = mod['type'], list(mod['rows'])
    single = len(fd.elements.keys()) == 1
    if kind == 'conn-inplace':
        # through the block, or (single type) through the array `fd.elements.data` returns
        a = fd.elements.data if (single and sum(rows) % 2) else fd.elements[t].data
        if how == 'rotate':
            for k in rows:
                a[k] = a[k][ROT[t]].copy()
        else:
            i, j = rows
            a[[i, j]] = a[[j, i]].copy()
    else:
        new = np.array(fd.elements[t].data, copy=True)
        if how == 'rotate':
            for k in rows:
                new[k] = new[k][ROT[t]]
        else:
            i, j = rows
            new[[i, j]] = new[[j, i]]
        if single:
            fd.elements.data = new
        else:
            # replace the block by a new attribute and let the container rebuild its derived views
            from femio import FEMAttribute
            fd.elements.update({t: FEMAttribute(t, ids=np.array(fd.elements[t].ids), data=new, silent=True)})


def state_mesh(fd, like):
    """the mesh the object currently describes, read through the public attributes"""
    out = dict(like)
    out['nodes'] = [(int(i), tuple(F(float(v)) for v in p)) for i, p in zip(fd.nodes.ids, fd.nodes.data)]
    out['blocks'] = {t: [(int(e), [int(x) for x in c]) for e, c in zip(a.ids, a.data)] for t, a in fd.elements.items()}
    return out


# ------------------------------------------------------------------ operations on the real API

def pos_parts(s_pos):
    def lst(a):
        return [[[float(v) for v in p] for p in f] for f in a]
    if isinstance(s_pos, dict):
        return lst(s_pos.get('tri', [])), lst(s_pos.get('quad', []))
    r = lst(s_pos)
    return (r, []) if (r and len(r[0]) == 3) else ([], r)


def fd_canon(sfd, prefix):
    return {prefix + '_nodes': [int(i) for i in sfd.nodes.ids], prefix + '_node_pos': sfd.nodes.data.tolist(),
            prefix + '_blocks': {t: ([int(i) for i in a.ids], U.rows(a.data)) for t, a in sfd.elements.items()}}


def available_ops(m):
    ops = ['extract_surface', 'to_surface', 'to_surface_keep', 'write_obj']
    if set(m['blocks']) <= {'tet', 'tet2'} and len(m['blocks']) == 1:
        ops.append('fistr')
    return ops


def do_op(ctx, fd, op, tag, clutter=None):
    """one operation of the property on `fd`: (canonical observation, [(label, thunk)] re-reading every array / object the
    call returned, so that a later call changing it is seen)"""
    import femio
    if op == 'extract_surface':
        U.stage('extract_surface()')
        s_idx, s_pos = G.quiet(fd.extract_surface)

        def canon():
            tri, quad = U.surface_parts(s_idx)
            pt, pq = pos_parts(s_pos)
            return {'tri': tri, 'quad': quad, 'pos_tri': pt, 'pos_quad': pq}
        return canon(), [('extract_surface() arrays', canon)]
    if op == 'to_surface':
        U.stage('to_surface()')
        sfd = G.quiet(fd.to_surface)
        c = fd_canon(sfd, 'surf')
        try:
            c['normals'] = G.quiet(sfd.calculate_element_normals).tolist()
            c['surf_flat_ids'] = [int(i) for i in sfd.elements.ids]
        except Exception as e:  # noqa
            c['normals_error'] = repr(e)
        return c, [('to_surface() object', lambda: fd_canon(sfd, 'surf'))]
    if op == 'to_surface_keep':
        U.stage('to_surface(remove_unnecessary_nodes=False)')
        sfd = G.quiet(fd.to_surface, remove_unnecessary_nodes=False)
        return fd_canon(sfd, 'keep'), [('to_surface(remove_unnecessary_nodes=False) object', lambda: fd_canon(sfd, 'keep'))]
    if op == 'fistr':
        U.stage('extract_surface_fistr()')
        r = G.quiet(fd.extract_surface_fistr)
        return {'fistr': U.rows(r)}, [('extract_surface_fistr() array', lambda: {'fistr': U.rows(r)})]
    if op == 'write_obj':
        path = str(ctx.tmp / (tag + '.obj'))
        if os.path.exists(path):
            os.remove(path)
        U.stage("write('obj')")
        if clutter is not None:
            # an existing output file with realistic content (the export of another mesh) rewritten with overwrite=True
            open(path, 'w').write(clutter)
            G.quiet(fd.write, 'obj', path, overwrite=True)
        else:
            G.quiet(fd.write, 'obj', path)
        text = open(path).read()
        U.stage("read_files('obj')")
        rd = G.quiet(femio.FEMData.read_files, 'obj', [path])
        return {'obj_text': text, 'obj_read_nodes': ([int(i) for i in rd.nodes.ids], rd.nodes.data.tolist()),
                'obj_read_elems': {t: ([int(i) for i in a.ids], U.rows(a.data)) for t, a in rd.elements.items()}}, []
    raise ValueError(op)


def volumes(m):
    vols = {}
    U.stage('calculate_element_volumes()')
    for mode in ('centroid', 'linear'):
        # element id -> volume, block by block (update=False: nothing is stored on the object), then the whole-mesh call a
        # user would make for "the sum of the element volumes", on the same fresh object
        fd = U.fresh(m)
        vols[mode] = {}
        for t, blk in fd.elements.items():
            v = G.quiet(fd.calculate_element_volumes, mode=mode, raise_negative_volume=False, elements=blk,
                        element_type=t, update=False)
            vols[mode].update(zip([int(i) for i in blk.ids], [float(x) for x in v[:, 0]]))
        vols[mode + '_total'] = float(G.quiet(fd.calculate_element_volumes, mode=mode, raise_negative_volume=False).sum())
    return vols


def reference(ctx, m, per_op=True):
    """reference observations + the float volumes.  per_op: every operation on its own freshly built object (no history at
    all); otherwise (two of three cases of the quick tier, for the run time) all operations in a fixed order on one fresh
    object - the shuffled history on the live object is compared with either, so a result that depends on what was called
    before shows up as a difference in both arrangements"""
    obs = {}
    fd = None
    for op in available_ops(m):
        if per_op or fd is None:
            fd = U.fresh(m)
        c, _ = do_op(ctx, fd, op, 'ref')
        obs.update(c)
    ctx.count('reference:' + ('one fresh object per operation' if per_op else 'one fresh object, fixed order'))
    obs['vols'] = volumes(m)
    return obs


def parent_state(fd):
    """public user data of the live object: ids, coordinates, connectivity (blocks and the container's own views), variables"""
    s = {'node ids': [int(i) for i in fd.nodes.ids], 'coordinates': fd.nodes.data.tolist(),
         'coordinates (bit patterns)': np.asarray(fd.nodes.data, dtype=float).tobytes().hex(),
         'element ids': [int(i) for i in fd.elements.ids], 'connectivity': [[int(x) for x in r] for r in fd.elements.data]}
    for t, a in fd.elements.items():
        s['element ids of ' + t] = [int(i) for i in a.ids]
        s['connectivity of ' + t] = U.rows(a.data)
    s['nodal variables'] = {k: ([int(i) for i in v.ids], np.asarray(v.data).tolist()) for k, v in fd.nodal_data.items()}
    s['elemental variables'] = sorted(fd.elemental_data.keys())
    return s


def first_diff(a, b):
    return next((k for k in a if a[k] != b.get(k)), None) or next((k for k in b if k not in a), None)


def history(ctx, fd, ref, seq, case, prefix, clutter):
    """the operations of `seq` one after the other on the live object `fd`"""
    held = []
    before = parent_state(fd)
    for step, op in enumerate(seq):
        c, new = do_op(ctx, fd, op, 'live', clutter=clutter if (op == 'write_obj' and step % 2) else None)
        ctx.count('history-op:' + op)
        now = parent_state(fd)
        if now != before:
            k = first_diff(before, now)
            ctx.fail(f'{prefix}:{op}:modifies-the-object:{k}', f'{U.STAGE[0]} changed the {k} of the object it was called on',
                     case, {'step': step, 'history': seq[:step + 1], 'before': str(before[k])[:300], 'after': str(now.get(k))[:300]})
            before = now
        for label, thunk, val in held:
            cur = thunk()
            if cur != val:
                k = first_diff(val, cur)
                ctx.fail(f'{prefix}:{op}:modifies-earlier-result:{label}:{FIELD.get(k, k)}',
                         f'{op} changed the {label} returned by an earlier call on the same object', case,
                         {'step': step, 'history': seq[:step + 1], 'field': k, 'was': str(val[k])[:300], 'now': str(cur[k])[:300]})
                val.clear()
                val.update(cur)
        held += [(label, thunk, dict(thunk())) for label, thunk in new]
        k = next((k for k in c if c[k] != ref.get(k)), None)
        if k is not None:
            ctx.fail(f'{prefix}:{op}:{FIELD.get(k, k)}',
                     f'{op} on the live object ({prefix}) differs from the same call on a freshly built object with the same '
                     f'ids, coordinates and connectivity ({k})', case,
                     {'step': step, 'history': seq[:step + 1], 'field': k, 'live': str(c[k])[:400], 'fresh': str(ref.get(k))[:400]})


# ------------------------------------------------------------------ property oracle (real API only)

def oracle(ctx, m, obs, case):
    ids = [i for i, _ in m['nodes']]
    X = U.coords_exact(m)
    els = U.elem_list(m)
    tol_c, tol_l = tolerances(m)
    surf = [[ids[k] for k in f] for f in obs['tri'] + obs['quad']]

    # (a) exactly the faces that belong to one element only (independent face tables)
    allf = []
    for t, e, c in els:
        for f in G.FACES['tet' if t == 'tet2' else t]:
            allf.append((tuple(sorted(c[i] for i in f)), e))
    cnt = {}
    for k, e in allf:
        cnt[k] = cnt.get(k, 0) + 1
    expect = sorted(k for k, n in cnt.items() if n == 1)
    got = sorted(tuple(sorted(f)) for f in surf)
    if got != expect:
        ctx.fail('surface:not-the-once-only-faces', 'extract_surface() is not the set of faces used by exactly one element',
                 case, {'missing': [k for k in expect if k not in got][:5], 'extra': [k for k in got if k not in expect][:5]})
        return
    want = [[[float(v) for v in X[i]] for i in f] for f in surf]
    if obs['pos_tri'] + obs['pos_quad'] != want:
        ctx.fail('surface:positions', 'the positions returned by extract_surface() are not the coordinates of the nodes of its faces',
                 case, {'first_diff': next(((a, b) for a, b in zip(obs['pos_tri'] + obs['pos_quad'], want) if a != b), None)})
    owner = {k: e for k, e in allf if cnt[k] == 1}
    # (b) closed: balanced directed edges; edges on exactly two faces are traversed in opposite directions
    ec = {}
    for f in surf:
        for e in U.dir_edges(f):
            ec[e] = ec.get(e, 0) + 1
    bad = [e for e, n in ec.items() if ec.get((e[1], e[0]), 0) != n]
    if bad:
        ctx.fail('surface:not-closed', 'a directed edge of the extracted surface is not matched by its reverse',
                 case, {'edges': bad[:5], 'counts': [(ec[e], ec.get((e[1], e[0]), 0)) for e in bad[:5]]})
    if any(ec[e] + ec.get((e[1], e[0]), 0) != 2 for e in ec):
        ctx.count('surface:has-non-manifold-edge')
    # (c) outwards: exactly, from the node order (vector area . (face centre - element centre) > 0) ...
    conn = {e: corner(t, c) for t, e, c in els}
    for f in surf:
        cc = U.mean([X[i] for i in conn[owner[tuple(sorted(f))]]])
        P = [X[i] for i in f]
        d = U.dot(U.sub(U.mean(P), cc), U.vector_area(P))
        if not d > 0:
            ctx.fail('surface:inward-face', 'a face of extract_surface() is oriented into its element (node order)', case,
                     {'face': f, 'element': owner[tuple(sorted(f))], 'dot': float(d)})
            break
    # ... and with the normals the real surface object computes
    if 'normals' in obs:
        sflat = {}
        for t, (eids, data) in obs['surf_blocks'].items():
            for i, r in zip(eids, data):
                sflat[i] = r
        for sid, nrm in zip(obs['surf_flat_ids'], obs['normals']):
            f = sflat.get(sid)
            if f is None or tuple(sorted(f)) not in owner:
                continue     # reported below (same-faces:to_surface)
            fc = U.mean([X[i] for i in f])
            cc = U.mean([X[i] for i in conn[owner[tuple(sorted(f))]]])
            d = float(U.dot(U.sub(fc, cc), tuple(F(x) for x in nrm)))
            if not d > 0:
                ctx.fail('surface:inward-face', 'a face of to_surface() has its normal pointing into its element', case,
                         {'face': f, 'element': owner[tuple(sorted(f))], 'dot': d})
                break
    # (d) encloses the sum of the element volumes: exactly (centroid-fan volume of every element, rational arithmetic) ...
    enclosed = sum(U.face_flux([X[i] for i in f]) for f in surf)
    exact_total = sum(U.face_flux([X[c[i]] for i in f]) for t, _, c in els for f in G.FACES['tet' if t == 'tet2' else t])
    if enclosed != exact_total:
        ctx.fail('surface:volume-mismatch', 'volume enclosed by the surface differs from the exact sum of the element volumes',
                 case, {'enclosed': float(enclosed), 'sum_volumes': float(exact_total), 'mode': 'exact'})
    # ... and against the float volumes of the real kernels
    lin_total = sum(F(G.signed('tet' if t == 'tet2' else t, [X[i] for i in corner(t, c)]), 6) for t, _, c in els)
    for mode, tol in (('centroid', tol_c), ('linear', tol_l)):
        if mode == 'linear' and abs(lin_total - exact_total) > tol * len(els) / 64:
            ctx.count('linear-volume-mode-skipped (warped faces: other diagonals)')
            continue  # the "linear" hex / prism / pyr kernels use other diagonals on warped faces
        tot = obs['vols'][mode + '_total']
        if not U.close(enclosed, tot, tol * max(1, len(els))):
            ctx.fail('surface:volume-mismatch', f'volume enclosed by the surface differs from the sum of element volumes ({mode})',
                     case, {'enclosed': float(enclosed), 'sum_volumes': tot, 'mode': mode, 'tolerance': tol * max(1, len(els))})
        elif float(enclosed) != 0:
            r = abs(float(enclosed) - tot) / abs(float(enclosed))
            ctx.extra.setdefault('max_rel_volume_error', {})
            key = mode + ('@' + m['transform'].split(':')[0] if m.get('transform') else '')
            ctx.extra['max_rel_volume_error'][key] = max(ctx.extra['max_rel_volume_error'].get(key, 0.0), r)
    if min(obs['vols']['centroid'].values()) <= 0:
        ctx.count('input:non-positive-element (float32 centroid kernel)')
    # (e) surface object, (element, face no.) list and OBJ describe the same faces
    sobj = [U.cyc_canon(r) for t, (_, data) in obs['surf_blocks'].items() for r in data]
    if sorted(sobj) != sorted(U.cyc_canon(f) for f in surf):
        ctx.fail('same-faces:to_surface', 'to_surface() elements differ from extract_surface()', case,
                 {'to_surface': sorted(sobj)[:5], 'extract_surface': sorted(U.cyc_canon(f) for f in surf)[:5]})
    on_surf = {i for f in surf for i in f}
    if sorted(obs['surf_nodes']) != sorted(on_surf) or [i for i in ids if i in set(obs['surf_nodes'])] != obs['surf_nodes']:
        ctx.fail('same-faces:to_surface-nodes', 'to_surface() nodes are not the surface nodes in storage order', case,
                 {'nodes': obs['surf_nodes'][:10]})
    elif obs['surf_node_pos'] != [[float(v) for v in X[i]] for i in obs['surf_nodes']]:
        ctx.fail('same-faces:to_surface-node-coordinates', 'the nodes of to_surface() do not have the coordinates of the mesh nodes',
                 case, {'first_diff': next(((i, a, [float(v) for v in X[i]]) for i, a in zip(obs['surf_nodes'], obs['surf_node_pos'])
                                           if a != [float(v) for v in X[i]]), None)})
    if obs['keep_blocks'] != obs['surf_blocks'] or obs['keep_nodes'] != ids or \
            obs['keep_node_pos'] != [[float(v) for v in X[i]] for i in ids]:
        ctx.fail('same-faces:to_surface-keep-nodes', 'to_surface(remove_unnecessary_nodes=False) is not the surface of to_surface() '
                 'over all the nodes of the mesh', case, {'nodes': obs['keep_nodes'][:10], 'blocks': str(obs['keep_blocks'])[:300]})
    objv, objf, bad = parse_obj(obs['obj_text'])
    if bad:
        ctx.fail('same-faces:obj:malformed-record', 'the .obj file contains a line that is neither a `v x y z` nor a `f i j k [l]` '
                 'record', case, {'lines': bad, 'n_v': len(objv), 'n_f': len(objf)})
    if objv != [[float(v) for v in p] for _, p in m['nodes']]:
        ctx.fail('obj:vertices-changed', 'the v records of the .obj file (independent parser) are not the nodes in storage order',
                 case, {'n': (len(objv), len(ids))})
    if any(k < 1 or k > len(ids) for f in objf for k in f):
        ctx.fail('same-faces:obj', 'an f line of the .obj file refers to a vertex number outside 1..n', case, {'f_lines': objf[:5]})
    elif sorted(U.cyc_canon([ids[k - 1] for k in f]) for f in objf) != sorted(U.cyc_canon(f) for f in surf):
        ctx.fail('same-faces:obj', 'the f lines of the .obj file differ from extract_surface()', case, {'f_lines': objf[:5]})
    if 'fistr' in obs:
        full = {e: c for _, e, c in els}
        fk = sorted(tuple(sorted(full[e][i] for i in FISTR_FACES[k - 1])) if e in full and 1 <= k <= 4 else (e, k)
                    for e, k in obs['fistr'])
        if fk != got:
            ctx.fail('same-faces:fistr', 'extract_surface_fistr() (element, face number) rows describe another face set',
                     case, {'fistr': fk[:5], 'surface': got[:5]})
    # (f) OBJ read back = same vertices (storage order) and faces
    rn_ids, rn_pos = obs['obj_read_nodes']
    want_pos = [[float(v) for v in p] for _, p in m['nodes']]
    if rn_pos != want_pos or rn_ids != list(range(1, len(ids) + 1)):
        ctx.fail('obj:vertices-changed', 'vertices read back from the .obj file differ from the nodes', case,
                 {'first_diff': next(((a, b) for a, b in zip(rn_pos, want_pos) if a != b), None), 'n': (len(rn_pos), len(want_pos))})
    back = [r for t in ('tri', 'quad') for r in obs['obj_read_elems'].get(t, ([], []))[1]]
    if [[k - 1 for k in f] for f in back] != obs['tri'] + obs['quad'] or set(obs['obj_read_elems']) - {'tri', 'quad'}:
        ctx.fail('obj:faces-changed', 'faces read back from the .obj file differ from the extracted surface', case,
                 {'read': back[:5], 'surface': (obs['tri'] + obs['quad'])[:5]})


# ------------------------------------------------------------------ correspondence with the model

def correspond(ctx, m, obs, case):
    enc = G.enc_mesh(m)
    ids = [i for i, _ in m['nodes']]
    t = C.Toks(ctx.driver.ask('c10.surface ' + enc))
    if t.tok() != 'ok':
        ctx.disagree('surface: model error', case, 'ok', ' '.join(t.t[:3]))
        return None
    flags = dict(zip(['wf', 'closed_elements', 'conforming', 'mirror_conforming', 'manifold'], [t.nat() for _ in range(5)]))
    mt, mq = U.parse_faces(t), U.parse_faces(t)
    for k, v in flags.items():
        ctx.count(f'hyp:{k}={v}')
    if (mt, mq) != (obs['tri'], obs['quad']):
        ctx.disagree('extract_surface() index arrays', case, {'tri': obs['tri'][:6], 'quad': obs['quad'][:6]},
                     {'tri': mt[:6], 'quad': mq[:6]})
    t = C.Toks(ctx.driver.ask('c10.tosurface ' + enc))
    t.tok()
    mn = t.lst(t.nat)
    mtri = t.lst(lambda: (t.nat(), t.lst(t.nat)))
    mquad = t.lst(lambda: (t.nat(), t.lst(t.nat)))
    impl = (obs['surf_nodes'], [(i, r) for i, r in zip(*obs['surf_blocks'].get('tri', ([], [])))],
            [(i, r) for i, r in zip(*obs['surf_blocks'].get('quad', ([], [])))])
    if (mn, mtri, mquad) != impl:
        ctx.disagree('to_surface() nodes / elements', case, [x[:4] for x in impl], [mn[:4], mtri[:4], mquad[:4]])
    want_pos = [[float(v) for v in p] for i, p in m['nodes'] if i in set(obs['surf_nodes'])]
    if obs['surf_node_pos'] != want_pos:
        ctx.disagree('to_surface() node coordinates', case, obs['surf_node_pos'][:3], want_pos[:3])
    if 'fistr' in obs:
        t = C.Toks(ctx.driver.ask('c10.fistr ' + enc))
        t.tok()
        mf = U.parse_faces(t)
        if mf != obs['fistr']:
            ctx.disagree('extract_surface_fistr() rows', case, obs['fistr'][:8], mf[:8])
    # OBJ: text, and the real reader on the text emitted by the model
    verts = [[repr(float(v)) for v in p] for _, p in m['nodes']]
    line = 'c10.obj ' + enc + ' ' + C.enc_list(verts, lambda r: C.enc_list(r, C.esc))
    t = C.Toks(ctx.driver.ask(line))
    t.tok()
    text = C.unesc(t.tok())
    if text != obs['obj_text']:
        a, b = obs['obj_text'].splitlines(), text.splitlines()
        k = next((i for i, (x, y) in enumerate(zip(a, b)) if x != y), min(len(a), len(b)))
        ctx.disagree('.obj text', case, a[k:k + 2], b[k:k + 2])
    hyp = t.nat()
    ctx.count('hypothesis of C10_obj_roundtrip_chars holds (vertsOKB): ' + ('yes' if hyp else 'NO'))
    if not hyp:
        ctx.disagree('generated case violates the Boolean hypothesis of C10_obj_roundtrip_chars', case, 'in-quantifier input',
                     'vertsOKB = false')
    if t.nat() != 1:
        ctx.disagree('.obj model re-read failed', case, 'ok', 'none')
    else:
        mv = t.lst(lambda: t.lst(lambda: C.unesc(t.tok())))
        mfaces = U.parse_faces(t)
        if text == obs['obj_text']:
            # the real reader has just read exactly this text (reference observation)
            rv = obs['obj_read_nodes'][1]
            rf = [r for tt in ('tri', 'quad') for r in obs['obj_read_elems'].get(tt, ([], []))[1]]
        else:
            import femio
            p2 = str(ctx.tmp / 'model.obj')
            open(p2, 'w').write(text)
            rd = G.quiet(femio.FEMData.read_files, 'obj', [p2])
            rv = rd.nodes.data.tolist()
            rf = [r for tt in ('tri', 'quad') for r in (U.rows(rd.elements[tt].data) if tt in rd.elements else [])]
        # the reader groups faces by shape; the model keeps file order = tri block then quad block
        if rv != [[float(x) for x in r] for r in mv] or rf != mfaces:
            ctx.disagree('.obj re-read (real reader on the model\'s text vs model reader)', case,
                         {'v': rv[:2], 'f': rf[:4]}, {'v': mv[:2], 'f': mfaces[:4]})
    # P: volumes and fluxes
    t = C.Toks(ctx.driver.ask('c10.flux ' + enc))
    t.tok()
    sflux, tvol = t.rat(), t.rat()
    per = t.lst(lambda: (t.nat(), t.rat(), t.rat()))
    tol_c, tol_l = tolerances(m)
    for e, vc, vl in per:
        if not U.close(vc, obs['vols']['centroid'][e], tol_c):
            ctx.disagree('volume kernel (centroid)', case, obs['vols']['centroid'][e], float(vc))
            break
        if not U.close(vl, obs['vols']['linear'][e], tol_l):
            ctx.disagree('volume kernel (linear)', case, obs['vols']['linear'][e], float(vl))
            break
    flags['flux_equals_volume'] = int(sflux == tvol)
    if flags['mirror_conforming'] and flags['closed_elements'] and flags['wf'] and sflux != tvol:
        # an instance of theorem C10_volume evaluated exactly by the model
        ctx.disagree('model: surface flux != total volume on a conforming mesh (C10_volume instance)', case, None,
                     [str(sflux), str(tvol)])
    X = U.coords_exact(m)
    surf = [[ids[k] for k in f] for f in obs['tri'] + obs['quad']]
    enclosed = sum(U.face_flux([X[i] for i in f]) for f in surf)
    if enclosed != sflux:
        ctx.disagree('flux of the real surface (exact) vs model surface flux', case, str(enclosed), str(sflux))
    flags['model_flux'] = sflux
    return flags


# ------------------------------------------------------------------ stream G / M: SIZE BOUNDARIES (large-but-cheap meshes)
#
# The meshes of the main flow have at most a few hundred faces (exact rational arithmetic, the Lean model in the loop).
# Anything in the implementation that depends on a COUNT - rows converted / written block by block, index arithmetic in
# a narrower integer type, a buffer of fixed size - is invisible there.  This stream builds structured meshes with tens
# of thousands of elements directly with numpy (a brick of nx x ny x nz cells; every (x, y) column of cells is cut into
# elements by one pattern: 1 hex, 2 prisms, 6 pyramids around a centre node, 6 Kuhn tets, or those tets promoted to
# tet2; optional periodic holes / internal voids; node and element ids and both storage orders are ARITHMETIC
# permutations k -> (a k + b) mod P, so a case is fully described by a few integers and rebuilt bit-identically by
# `replay`), and judges every operation of the property with numpy against the boundary computed INDEPENDENTLY FROM
# THE CELL OCCUPANCY: a face of an element that lies in a side of its cell is a boundary face iff there is no cell on
# the other side (no sorting / counting of face keys as in femio's algorithm; the face tables are meshgen's).
# Coordinates are dyadic rationals with few bits, so the float64 arithmetic of this oracle is exact.

CELL_CORNERS = [(0, 0, 0), (1, 0, 0), (1, 1, 0), (0, 1, 0), (0, 0, 1), (1, 0, 1), (1, 1, 1), (0, 1, 1)]
FLIP = {'tet': [0, 2, 1, 3], 'prism': [0, 2, 1, 3, 5, 4], 'pyr': [0, 3, 2, 1, 4], 'hex': [0, 3, 2, 1, 4, 7, 6, 5]}
N_LOCAL = 6           # slots per cell in the global element numbering (the ids of the types of a mixed mesh interleave)
SHAPES = {3: 'tri', 4: 'quad'}


def cell_pattern(pattern):
    """[(type, local corners, [(face as local corners, side)])] of one cell; local corner 8 = centre of the cell;
    side = (axis, 0 | 1) when all nodes of the face lie in that side of the cell, None for a face inside the cell (shared
    by two elements of the same cell).  Elements are made positive on the unit cell (exactly)."""
    P = [tuple(F(v) for v in c) for c in CELL_CORNERS] + [(F(1, 2), F(1, 2), F(1, 2))]
    raw = {'hex': [('hex', list(range(8)))], 'tet': [('tet', list(k)) for k in G.KUHN],
           'prism': [('prism', list(k)) for k in G.PRISMS], 'pyr': [('pyr', list(b) + [8]) for b in G.PYR_BASES]}[pattern]
    out = []
    for t, c in raw:
        if G.signed(t, [P[i] for i in c]) < 0:
            c = [c[i] for i in FLIP[t]]
        assert G.signed(t, [P[i] for i in c]) > 0
        faces = []
        for f in G.FACES[t]:
            loc = [c[i] for i in f]
            side = None
            if 8 not in loc:
                for ax in range(3):
                    vals = {CELL_CORNERS[i][ax] for i in loc}
                    if len(vals) == 1:
                        side = (ax, vals.pop())
            faces.append((loc, side))
        out.append((t, c, faces))
    return out


def coprime(a, n):
    a = max(1, int(a) % max(n, 1))
    while np.gcd(a, n) != 1:
        a += 1
    return int(a)


def aperm(k, a, b, P):
    """arithmetic permutation k -> (a k + b) mod P of 0 .. P-1 (gcd(a, P) = 1), int64-safe"""
    assert np.gcd(a, P) == 1 and 0 < a < 2 ** 21 and 0 < P < 2 ** 41
    return (np.asarray(k, dtype=np.int64) * a + b) % P


def fit_cells(pattern, target, nz=1):
    """(nx, ny) of the full nx x ny x nz brick whose surface has EXACTLY `target` facets of its main shape (hex / pyr:
    quadrilaterals 2 (nx ny + nz (nx + ny)); tet / tet2: twice as many triangles; prism: 4 nx ny triangles for nz = 1 ...),
    the most nearly square solution; None when no brick has exactly that many"""
    best = None
    for nx in range(1, 1500):
        if pattern == 'prism':
            num, den = target, 4 * nx                   # 4 nx ny (two top + two bottom triangles per column) = target
        else:
            q = target // (2 if pattern in ('tet', 'tet2') else 1)
            if pattern in ('tet', 'tet2') and target % 2:
                return None
            num, den = q - 2 * nz * nx, 2 * (nx + nz)   # 2 (nx ny + nz (nx + ny)) = q
        if num > 0 and num % den == 0 and num // den >= nx:
            best = (nx, num // den)
    return best


def large_spec(rnd, patterns, cells, holes=0, ids=None):
    """spec of a large mesh: everything else is derived arithmetically (see build_large)"""
    nx, ny, nz = cells
    style = ids or rnd.choice(['dense-asc', 'dense-shuf', 'sparse-shuf', 'sparse-shuf', 'offset-shuf', 'sparse-desc', 'zeroneg-shuf'])
    spec = {'patterns': list(patterns), 'cells': [nx, ny, nz], 'holes': holes, 'ids': style,
            'mix': [rnd.randint(1, 5), rnd.randint(1, 5)],
            'r': [rnd.randint(2, 10 ** 6) for _ in range(8)],
            'A': rnd.choice([[[.5, 0, 0], [0, .25, 0], [0, 0, .125]], [[1, .25, 0], [0, 1, 0], [.5, 0, 2]],
                             [[0, -.5, 0], [.5, 0, 0], [.125, 0, .25]], [[.25, .125, 0], [-.125, .25, 0], [0, .5, 1]]]),
            't': [rnd.choice([0, -3, 20, 1024.5]) for _ in range(3)]}
    return spec


def build_large(spec):
    """the numpy mesh of a spec: node ids / coordinates in storage order, blocks {type: (element ids, connectivity)} in
    block storage order, the expected oriented boundary faces (rows of node ids) per facet shape, the exact volume"""
    nx, ny, nz = spec['cells']
    pats, r, style = spec['patterns'], spec['r'], spec['ids']
    A, t0 = np.array(spec['A'], dtype=float), np.array(spec['t'], dtype=float)
    assert np.linalg.det(A) > 0
    gx, gy, gz = nx + 1, ny + 1, nz + 1
    n_grid = gx * gy * gz
    occ = np.ones((nx, ny, nz), dtype=bool)
    X, Y, Z = np.meshgrid(np.arange(nx), np.arange(ny), np.arange(nz), indexing='ij')
    if spec.get('holes'):
        p = spec['holes']
        occ &= ~((X % p == p - 1) & (Y % p == p - 1) & ((Z == 1) | (nz < 3)))
    # pattern of a column: constant along z (a prism column has triangles in its top / bottom sides, the others whole
    # quadrilaterals; all patterns but tet have whole quadrilaterals in the x / y sides) => conforming
    pat_of = (X * spec['mix'][0] + Y * spec['mix'][1]) % len(pats)

    def gidx(x, y, z):
        return x + gx * (y + gy * z)
    pad = np.zeros((nx + 2, ny + 2, nz + 2), dtype=bool)
    pad[1:-1, 1:-1, 1:-1] = occ
    cell_no = (X * ny + Y) * nz + Z                              # running number of a cell
    n_centre = 0
    conn, ordinal, want, vol_cells = {}, {}, {3: [], 4: []}, int(occ.sum())
    for ip, pattern in enumerate(pats):
        sel = occ & (pat_of == ip)
        x, y, z = X[sel], Y[sel], Z[sel]
        if not len(x):
            continue
        base = 'tet' if pattern == 'tet2' else pattern
        corners = np.stack([gidx(x + dx, y + dy, z + dz) for dx, dy, dz in CELL_CORNERS], axis=1)
        if base == 'pyr':
            centre = n_grid + n_centre + np.arange(len(x))
            n_centre += len(x)
            corners = np.concatenate([corners, centre[:, None]], axis=1)
        for j, (t, c, faces) in enumerate(cell_pattern(base)):
            conn.setdefault(t, []).append(corners[:, c])
            ordinal.setdefault(t, []).append(cell_no[sel] * N_LOCAL + j)
            for loc, side in faces:
                if side is None:
                    continue
                d = [0, 0, 0]
                d[side[0]] = 1 if side[1] else -1
                free = ~pad[x + 1 + d[0], y + 1 + d[1], z + 1 + d[2]]
                want[len(loc)].append(corners[free][:, loc])
    # coordinates of the grid nodes and of the cell centres (pyramid apexes), exact dyadic numbers
    K = np.arange(n_grid)
    grid = np.stack([K % gx, (K // gx) % gy, K // (gx * gy)], axis=1).astype(float)
    pts = [grid]
    for ip, pattern in enumerate(pats):
        if pattern == 'pyr':
            sel = occ & (pat_of == ip)
            pts.append(np.stack([X[sel], Y[sel], Z[sel]], axis=1) + .5)
    pts = np.concatenate(pts) @ A.T + t0
    conn = {t: np.concatenate(v) for t, v in conn.items()}
    ordinal = {t: np.concatenate(v) for t, v in ordinal.items()}
    want = {k: (np.concatenate(v) if v else np.zeros((0, k), dtype=np.int64)) for k, v in want.items()}
    if 'tet2' in pats:
        # mid-edge nodes, shared per edge (FrontISTR order of the edges)
        c = conn.pop('tet')
        lo = np.stack([np.minimum(c[:, a], c[:, b]) for a, b in G.TET2_EDGES], axis=1)
        hi = np.stack([np.maximum(c[:, a], c[:, b]) for a, b in G.TET2_EDGES], axis=1)
        ek, inv = np.unique(lo.ravel() * len(pts) + hi.ravel(), return_inverse=True)
        mid = (pts[ek // len(pts)] + pts[ek % len(pts)]) / 2
        conn['tet2'] = np.concatenate([c, (len(pts) + inv).reshape(-1, 6)], axis=1)
        ordinal['tet2'] = ordinal.pop('tet')
        pts = np.concatenate([pts, mid])
    # nodes no element refers to stay in the mesh as unreferenced nodes only when holes touch (never for isolated holes)
    n = len(pts)
    if style.startswith('dense'):
        P, off = n, 1
    elif style.startswith('offset'):
        P, off = n + r[0] % 1000, 2 * 10 ** 9 - 4 * n
    elif style.startswith('zeroneg'):
        P, off = 2 * n + r[0] % n, None                              # ids -P/2 .. P/2: negative, ZERO (node 0) and positive
    else:
        P, off = 3 * n + r[0] % n, 1 + r[1] % 50
    a = 1 if style == 'dense-asc' else coprime(r[2], P)
    if off is None:
        node_id = aperm(np.arange(n), a, P // 2, P) - P // 2
    else:
        node_id = off + aperm(np.arange(n), a, r[3] % P, P)       # id of node k (grid numbering)
    if style.endswith('asc') or style.endswith('desc'):
        store = np.argsort(node_id)
        if style.endswith('desc'):
            store = store[::-1]
    else:
        store = aperm(np.arange(n), coprime(r[4], n), r[5] % n, n)   # storage position s holds node store[s]
    out = {'node_ids': node_id[store].copy(), 'xyz': pts[store].copy(), 'blocks': {}, 'n_cells': vol_cells,
           'volume': vol_cells * float(np.linalg.det(A)), 'want': {k: node_id[v] for k, v in want.items()}}
    n_slot = nx * ny * nz * N_LOCAL
    Pe = n_slot if style.startswith('dense') else 2 * n_slot + r[6] % 97
    ae = 1 if style == 'dense-asc' else coprime(r[6], Pe)
    for t in G.ELEMENT_TYPES:
        if t not in conn:
            continue
        if style.startswith('zeroneg'):
            eid = aperm(ordinal[t], ae, Pe // 2, Pe) - Pe // 2      # element ids of both signs, 0 for the first slot
        else:
            eid = 1 + aperm(ordinal[t], ae, r[7] % Pe, Pe)
        m = len(eid)
        if style.endswith('asc'):
            es = np.argsort(eid)
        elif style.endswith('desc'):
            es = np.argsort(eid)[::-1]
        else:
            es = aperm(np.arange(m), coprime(r[5], m), r[4] % m, m)
        out['blocks'][t] = (eid[es].copy(), node_id[conn[t]][es].copy())
    return out


def canon_rows(a):
    """every row rotated so that its smallest entry comes first (the cyclic order = orientation is kept), rows sorted"""
    a = np.asarray(a, dtype=np.int64)
    if a.ndim != 2 or not len(a):
        return a.reshape(0, 0)
    k = a.argmin(axis=1)
    r = np.take_along_axis(a, (k[:, None] + np.arange(a.shape[1])[None, :]) % a.shape[1], axis=1)
    return r[np.lexsort(r.T[::-1])]


def rows_diff(got, want):
    """None when the two canonical row sets are equal, otherwise a small description"""
    if got.shape == want.shape and np.array_equal(got, want):
        return None
    g, w = {tuple(x) for x in got.tolist()}, {tuple(x) for x in want.tolist()}
    return {'n_faces': len(got), 'n_expected': len(want), 'missing': sorted(w - g)[:3], 'not-boundary-faces': sorted(g - w)[:3],
            'n_missing': len(w - g), 'n_extra': len(g - w)}


def parts_np(s):
    """{3: tri rows, 4: quad rows} from extract_surface()[0] / [1] (an array for one facet shape, a dict for several)"""
    out = {3: np.zeros((0, 3), dtype=np.int64), 4: np.zeros((0, 4), dtype=np.int64)}
    if isinstance(s, dict):
        extra = [k for k in s if k not in ('tri', 'quad') and len(s[k])]
        if extra:
            raise ValueError('unexpected facet shapes ' + repr(extra))
        for k, name in SHAPES.items():
            if name in s and len(s[name]):
                out[k] = np.asarray(s[name])
    else:
        a = np.asarray(s)
        out[a.shape[1]] = a
    return out


def parse_obj(text):
    """independent reader of the part of the OBJ format the export uses: one record per line, `v x y z` or
    `f i j k [l]` (1-based vertex numbers); -> (vertices, faces, [(line number, line, problem)])"""
    vs, fs, bad = [], [], []
    for no, line in enumerate(text.split('\n'), 1):
        t = line.split()
        if not t:
            continue
        try:
            if t[0] == 'v' and len(t) == 4:
                vs.append([float(x) for x in t[1:]])
            elif t[0] == 'f' and len(t) in (4, 5):
                fs.append([int(x) for x in t[1:]])
            else:
                raise ValueError('neither a `v x y z` nor a `f i j k [l]` record')
        except ValueError as e:
            if len(bad) < 5:
                bad.append((no, line[:100], str(e)))
    return vs, fs, bad


def flux_np(p):
    """sum over the faces p (n, k, 3) of the flux of x/3 (triangles: det / 6, quadrilaterals: centroid fan) and the sum
    of the absolute values of the terms (the scale of the rounding error)"""
    if not len(p):
        return 0.0, 0.0
    def det(a, b, c):
        return np.einsum('ij,ij->i', a, np.cross(b, c))
    if p.shape[1] == 3:
        d = det(p[:, 0], p[:, 1], p[:, 2]) / 6
        return float(d.sum()), float(np.abs(d).sum())
    g = p.mean(axis=1)
    d = sum(det(g, p[:, i - 1], p[:, i]) for i in range(p.shape[1])) / 6
    return float(d.sum()), float(np.abs(d).sum())


def large_schedule(ctx):
    """quick: ONE mesh per run whose surface has more than 2^16 facets of one shape and which has more than 2^16 nodes (plus four
    small ones of the same construction: every pattern / mix, holes, ids <= 0); thorough: bricks whose facet count of one shape is EXACTLY 2^k and the nearest counts below / above it for
    k = 12 .. 17, over all patterns, plus node counts above 2^16 with few faces, holes, internal voids, three-type mixes"""
    rnd = ctx.rng
    d = [rnd.randint(0, 5), rnd.randint(0, 5)]
    menu = [(['hex'], (182 + d[0], 182 + d[1], 1)), (['prism'], (128 + d[0], 129 + d[1], 1)),
            (['hex', 'prism'], (182 + d[0], 183 + d[1], 1)), (['tet'], (129 + d[0], 129 + d[1], 1))]
    def medium():
        # a few hundred to a few thousand faces: every pattern and mix, holes / internal voids, every id style
        pats = rnd.choice([['hex'], ['tet'], ['tet2'], ['pyr'], ['prism'], ['hex', 'prism'], ['hex', 'pyr'], ['pyr', 'prism'],
                           ['hex', 'pyr', 'prism']])
        cells = (rnd.randint(4, 18), rnd.randint(4, 18), rnd.randint(1, 4))
        return large_spec(rnd, pats, cells, holes=rnd.choice([0, 0, 2, 3, 4]))
    if ctx.quick:
        # both plates have more than 2^16 NODES as well; one has more than 2^16 quadrilaterals (single array), the other more
        # than 2^16 triangles next to its quadrilaterals (dict of arrays)
        pats, cells = rnd.choice(menu[::2])
        # ids <= 0 in every run on a tet mesh (the only kind with the (element, face number) list) and on a two-shape surface
        return [large_spec(rnd, pats, cells), medium(), medium(),
                large_spec(rnd, ['tet'], (rnd.randint(3, 6), rnd.randint(3, 6), rnd.randint(1, 3)), ids='zeroneg-shuf'),
                large_spec(rnd, rnd.choice([['hex', 'prism'], ['pyr', 'prism'], ['hex', 'pyr', 'prism']]),
                           (rnd.randint(4, 9), rnd.randint(4, 9), rnd.randint(1, 3)), holes=rnd.choice([0, 3]), ids='zeroneg-shuf')]
    out = [large_spec(rnd, pats, cells) for pats, cells in menu] + [medium() for _ in range(40)]
    step = {'hex': 2, 'pyr': 2, 'tet': 4, 'tet2': 4, 'prism': 4}
    for k in range(12, 18):
        for pattern in (['hex', 'prism', 'tet'] + (['pyr'] if k in (12, 16) else []) + (['tet2'] if k in (12, 14) else [])):
            if k == 17 and pattern == 'tet':
                continue
            for target in (2 ** k - step[pattern], 2 ** k, 2 ** k + step[pattern]):
                nz = 1
                fit = fit_cells(pattern, target, nz)
                if fit is None and pattern != 'prism':
                    nz = 2
                    fit = fit_cells(pattern, target, nz)
                if fit is None:
                    ctx.count(f'large:no brick of {pattern} has exactly {target} facets (skipped)')
                    continue
                out.append(large_spec(rnd, [pattern], (fit[0], fit[1], nz)))
    out += [large_spec(rnd, ['hex'], (41, 40, 41)),                               # 72324 nodes, 9922 faces
            large_spec(rnd, ['hex'], (190, 187, 1), holes=7),                     # plate with through holes
            large_spec(rnd, ['hex', 'prism'], (150, 151, 3), holes=5),            # internal voids (hex and prism walls)
            large_spec(rnd, ['hex', 'pyr', 'prism'], (200, 170, 1)),
            large_spec(rnd, ['tet'], (100, 90, 3), holes=4)]
    return out


def evaluate_large(ctx, spec):
    """all operations of the property on ONE live object of a large mesh, judged against the occupancy boundary"""
    import femio
    from femio import FEMData, FEMAttribute, FEMElementalAttribute
    L = build_large(spec)
    ids, xyz, want = L['node_ids'], L['xyz'], {k: canon_rows(v) for k, v in L['want'].items()}
    n = len(ids)
    n_el = sum(len(e) for e, _ in L['blocks'].values())
    desc = {'n_nodes': n, 'n_elems': n_el, 'types': list(L['blocks']), 'surface_tri': len(want[3]), 'surface_quad': len(want[4]),
            'cells': spec['cells'], 'patterns': spec['patterns'], 'holes': spec.get('holes', 0), 'ids': spec['ids']}
    case = {'large': spec, 'describe': desc,
            'how_to_build': 'harness/c10.py: build_large(spec) (brick of cells cut by patterns; ids and storage orders are the '
                            'arithmetic permutations (a k + b) mod P derived from spec.r); replay rebuilds it'}
    key = ('large', repr(sorted(spec.items())))
    ctx.case(key, sample={'stream': 'size-boundary', **desc}, nontrivial=True)
    ctx.count('large:patterns=' + '+'.join(spec['patterns']) + (',holes' if spec.get('holes') else ''))
    ctx.count('large:ids=' + spec['ids'])
    for k in (3, 4):
        if len(want[k]):
            ctx.count(f'large:{SHAPES[k]}-faces={len(want[k])}')
    ctx.count(f'large:nodes={n}')
    by_id = np.argsort(ids)

    def to_pos(a):
        return by_id[np.searchsorted(ids[by_id], np.asarray(a, dtype=np.int64))]

    def faces_fail(sig, what, rows_by_shape, extra=None):
        """rows of node ids per shape vs the expected boundary faces (orientation included)"""
        for k in (3, 4):
            d = rows_diff(canon_rows(rows_by_shape.get(k, np.zeros((0, k)))), want[k])
            if d is not None:
                ctx.fail(sig, what, case, {'shape': SHAPES[k], **d, **(extra or {})})
                return True
        return False

    snap = (ids.copy(), xyz.copy(), {t: (e.copy(), c.copy()) for t, (e, c) in L['blocks'].items()})

    def build():
        U.stage('FEMData(nodes, elements)')
        U.clear_caches()
        el = {t: FEMAttribute(t, ids=e, data=c, silent=True) for t, (e, c) in L['blocks'].items()}
        return G.quiet(lambda: FEMData(nodes=FEMAttribute('NODE', ids=ids, data=xyz, silent=True),
                                       elements=FEMElementalAttribute('ELEMENT', G.insertion_order(el))))
    fd = U.guarded(ctx, case, key, build)
    if fd is None:
        return

    # extract_surface(): exactly the boundary faces, outward (node order), closed, positions, enclosed volume
    def op_surface():
        U.stage('extract_surface()')
        return G.quiet(fd.extract_surface)
    got = U.guarded(ctx, case, key, op_surface)
    sidx = None
    if got is not None:
        sidx, spos = parts_np(got[0]), parts_np(got[1])
        bad_index = any(len(a) and (a.min() < 0 or a.max() >= n) for a in sidx.values())
        if bad_index:
            ctx.fail('surface:not-the-once-only-faces', 'extract_surface() returns a node index outside 0..n-1', case, None)
            sidx = None
        elif not faces_fail('surface:not-the-once-only-faces', 'extract_surface() is not the set of faces used by exactly one '
                            'element, oriented outwards (large mesh; expectation from the cell occupancy)',
                            {k: ids[a] for k, a in sidx.items()}):
            for k in (3, 4):
                if not np.array_equal(np.asarray(spos[k], dtype=float).reshape(-1, k, 3), xyz[sidx[k]]):
                    ctx.fail('surface:positions', 'the positions returned by extract_surface() are not the coordinates of the '
                             'nodes of its faces', case, {'shape': SHAPES[k]})
                    break
        if sidx is not None:
            e = np.concatenate([np.stack([a, np.roll(a, -1, axis=1)], axis=2).reshape(-1, 2) for a in sidx.values() if len(a)])
            fw, bw = np.sort(e[:, 0] * n + e[:, 1]), np.sort(e[:, 1] * n + e[:, 0])
            if not np.array_equal(fw, bw):
                ctx.fail('surface:not-closed', 'a directed edge of the extracted surface is not matched by its reverse', case,
                         {'n_unmatched': int(len(np.setdiff1d(fw, bw)))})
            fl = [flux_np(xyz[a]) for a in sidx.values()]
            enclosed, mag = sum(f[0] for f in fl), sum(f[1] for f in fl)

            def op_vol():
                U.stage('calculate_element_volumes()')
                return float(G.quiet(fd.calculate_element_volumes, mode='linear', raise_negative_volume=False).sum())
            tot = U.guarded(ctx, case, key, op_vol)
            tol = 1e-9 * (mag + abs(L['volume']))
            for name, v in (('exact sum of the element volumes (cells x det A)', L['volume']),
                            ('calculate_element_volumes(mode="linear")', tot)):
                if v is not None and not abs(enclosed - v) <= tol:
                    ctx.fail('surface:volume-mismatch', 'volume enclosed by the surface differs from the sum of the element '
                             f'volumes: {name}', case, {'enclosed': enclosed, 'sum_volumes': v, 'tolerance': tol, 'mode': 'large'})
                    break

    # to_surface() with and without the unnecessary nodes
    for opt, label in ((True, 'to_surface'), (False, 'to_surface-keep-nodes')):
        def op_to():
            U.stage('to_surface()' if opt else 'to_surface(remove_unnecessary_nodes=False)')
            return G.quiet(fd.to_surface) if opt else G.quiet(fd.to_surface, remove_unnecessary_nodes=False)
        sfd = U.guarded(ctx, case, key, op_to)
        if sfd is None:
            continue
        rows = {}
        for t, a in sfd.elements.items():
            rows[{'tri': 3, 'quad': 4}.get(t, 0)] = np.asarray(a.data)
        if 0 in rows:
            ctx.fail('same-faces:' + label, 'the surface object has element types other than tri / quad', case,
                     {'types': list(sfd.elements.keys())})
        elif faces_fail('same-faces:' + label, f'the elements of the surface object ({U.STAGE[0]}) are not the boundary faces', rows):
            pass
        else:
            sn = np.asarray(sfd.nodes.ids)
            if opt:
                on = np.zeros(n, dtype=bool)
                for k in (3, 4):
                    if len(want[k]):
                        on[to_pos(want[k].ravel())] = True
                exp_ids, exp_xyz = ids[on], xyz[on]
            else:
                exp_ids, exp_xyz = ids, xyz
            if not np.array_equal(sn, exp_ids):
                ctx.fail('same-faces:' + ('to_surface-nodes' if opt else 'to_surface-keep-nodes'),
                         f'the nodes of {U.STAGE[0]} are not the ' + ('surface nodes' if opt else 'nodes of the mesh') + ' in storage '
                         'order', case, {'n': len(sn), 'expected': len(exp_ids)})
            elif not np.array_equal(np.asarray(sfd.nodes.data, dtype=float), exp_xyz):
                ctx.fail('same-faces:to_surface-node-coordinates', f'the nodes of {U.STAGE[0]} do not have the coordinates of the mesh '
                         'nodes', case, None)

    # (element, face number) list of a pure tet / tet2 mesh
    if len(L['blocks']) == 1 and set(L['blocks']) <= {'tet', 'tet2'}:
        def op_fistr():
            U.stage('extract_surface_fistr()')
            return np.asarray(G.quiet(fd.extract_surface_fistr))
        fr = U.guarded(ctx, case, key, op_fistr)
        if fr is not None:
            eid, c = next(iter(L['blocks'].values()))
            o = np.argsort(eid)
            j = np.searchsorted(eid[o], fr[:, 0])
            ok = (j < len(eid)) & (fr[:, 1] >= 1) & (fr[:, 1] <= 4)
            ok[ok] &= eid[o][j[ok]] == fr[ok, 0]
            if not ok.all():
                ctx.fail('same-faces:fistr', 'extract_surface_fistr() names an element / face number that does not exist', case,
                         {'rows': fr[~ok][:5].tolist()})
            else:
                tab = np.array(FISTR_FACES)[fr[:, 1] - 1]
                keys = np.sort(np.take_along_axis(c[o][j][:, :4], tab, axis=1), axis=1)
                wk = np.sort(want[3], axis=1)
                d = rows_diff(keys[np.lexsort(keys.T[::-1])], wk[np.lexsort(wk.T[::-1])])
                if d is not None:
                    ctx.fail('same-faces:fistr', 'extract_surface_fistr() (element, face number) rows describe another face set',
                             case, d)

    # OBJ export (twice: new file, then the existing file rewritten with overwrite=True), independent parser, read back
    path = str(ctx.tmp / 'large.obj')
    if os.path.exists(path):
        os.remove(path)
    texts = []
    for again in (False, True):
        def op_write():
            U.stage("write('obj')" + (' (existing file, overwrite=True)' if again else ''))
            G.quiet(fd.write, 'obj', path, **({'overwrite': True} if again else {}))
            return open(path).read()
        text = U.guarded(ctx, case, key, op_write)
        if text is None:
            break
        texts.append(text)
        if again:
            if text != texts[0]:
                a, b = texts[0].split('\n'), text.split('\n')
                k = next((i for i, (u, v) in enumerate(zip(a, b)) if u != v), min(len(a), len(b)))
                ctx.fail('history:write_obj:text', 'the .obj file written a second time by the same object (existing file, '
                         'overwrite=True) differs from the first', case,
                         {'n_lines': (len(a), len(b)), 'first_difference_at_line': k + 1, 'first': a[k:k + 1], 'second': b[k:k + 1]})
            continue
        vs, fs, bad = parse_obj(text)
        if bad:
            ctx.fail('same-faces:obj:malformed-record', 'the .obj file contains a line that is neither a `v x y z` nor a '
                     '`f i j k [l]` record', case, {'lines': bad, 'n_v': len(vs), 'n_f': len(fs)})
        if len(vs) != n or not np.array_equal(np.array(vs, dtype=float).reshape(-1, 3), xyz):
            ctx.fail('obj:vertices-changed', 'the v records of the .obj file are not the nodes in storage order', case,
                     {'n': (len(vs), n)})
        rows = {k: np.array([f for f in fs if len(f) == k], dtype=np.int64).reshape(-1, k) for k in (3, 4)}
        if any(len(a) and (a.min() < 1 or a.max() > n) for a in rows.values()):
            ctx.fail('same-faces:obj', 'an f line of the .obj file refers to a vertex number outside 1..n', case, None)
        else:
            faces_fail('same-faces:obj', 'the f records of the .obj file are not the boundary faces (independent parser)',
                       {k: ids[a - 1] for k, a in rows.items()}, {'n_f_records': len(fs)})

        def op_read():
            U.stage("read_files('obj')")
            return G.quiet(femio.FEMData.read_files, 'obj', [path])
        rd = U.guarded(ctx, case, key, op_read)
        if rd is not None:
            if not np.array_equal(np.asarray(rd.nodes.data, dtype=float), xyz) or \
                    not np.array_equal(np.asarray(rd.nodes.ids), np.arange(1, n + 1)):
                ctx.fail('obj:vertices-changed', 'vertices read back from the .obj file differ from the nodes', case,
                         {'n': (len(rd.nodes.ids), n)})
            types = list(rd.elements.keys())
            back = {{'tri': 3, 'quad': 4}.get(t, 0): np.asarray(rd.elements[t].data).astype(np.int64) for t in types}
            if 0 in back or (sidx is not None and any(
                    not np.array_equal(back.get(k, np.zeros((0, k), dtype=np.int64)) - 1, sidx[k]) for k in (3, 4))):
                ctx.fail('obj:faces-changed', 'faces read back from the .obj file differ from the extracted surface', case,
                         {'types': types, 'n_read': {t: len(rd.elements[t].ids) for t in types},
                          'n_surface': None if sidx is None else {SHAPES[k]: len(sidx[k]) for k in (3, 4)}})
            elif sidx is None:
                faces_fail('obj:faces-changed', 'faces read back from the .obj file are not the boundary faces',
                           {k: ids[a - 1] for k, a in back.items()})

    # no operation may have touched the caller's arrays or the user data of the object
    pairs = [('node ids (caller\'s array)', snap[0], ids), ('coordinates (caller\'s array)', snap[1], xyz),
             ('node ids', snap[0], np.asarray(fd.nodes.ids)), ('coordinates', snap[1], np.asarray(fd.nodes.data))]
    for t, (e, c) in snap[2].items():
        pairs += [(f'element ids (caller\'s array of {t})', e, L['blocks'][t][0]), (f'connectivity (caller\'s array of {t})', c, L['blocks'][t][1])]
        if t in fd.elements:
            pairs += [(f'element ids of {t}', e, np.asarray(fd.elements[t].ids)), (f'connectivity of {t}', c, np.asarray(fd.elements[t].data))]
    for name, a, b in pairs:
        if not (a.shape == np.shape(b) and np.array_equal(a, b)):
            ctx.fail('history:large:modifies-the-object:' + name.split(' (')[0].split(' of ')[0],
                     f'the operations on the large mesh changed the {name}', case, None)
            break


# ------------------------------------------------------------------ one case

COMBINATORIAL = ['tri', 'quad', 'surf_nodes', 'surf_blocks', 'surf_flat_ids', 'keep_nodes', 'keep_blocks', 'fistr', 'obj_read_elems']


def make_case(m, mod, seq, base=None):
    case = U.mesh_case(m, transform=m.get('transform'))
    if mod is not None:
        case['modification'] = mod
    if seq:
        case['history'] = list(seq)
    if base is not None:
        case['base_mesh'] = G.to_json(base)
    return case


def evaluate(ctx, m, mod=None, seq=None, base=None, clutter=None, per_op=True):
    """reference observations (fresh object per operation) judged by the oracle and the model, the history on the live
    object, the pair relation to the same mesh at the origin.  Returns (reference observations, model flags) or None."""
    from femio import FEMAttribute
    case = make_case(m, mod, seq, base[0] if base else None)
    key = (tuple(m['nodes']), tuple((t, tuple((e, tuple(c)) for e, c in b)) for t, b in m['blocks'].items()),
           repr(mod), tuple(seq or ()))
    prefix = 'history' if mod is None else 'modified:' + mod['kind']

    def body():
        U.stage('FEMData(nodes, elements)')
        live = U.fresh(m)
        nid = np.array([i for i, _ in m['nodes']])
        live.nodal_data['T'] = FEMAttribute('T', nid, np.arange(len(nid), dtype=float)[:, None] / 8 - 1, silent=True)
        cur = m
        if mod is not None:
            U.stage('modification ' + mod['kind'])
            apply_mod(live, mod)
            cur = state_mesh(live, m)
        return live, cur

    got = U.guarded(ctx, case, key, body)
    if got is None:
        return None
    live, cur = got
    if mod is not None and (not valid_mesh(cur) or mod['how'] == 'none'):
        ctx.count('modification not applicable to this mesh (case skipped)')
        return None
    obs = U.guarded(ctx, case, key, reference, ctx, cur, per_op)
    if obs is None:
        return None
    els = U.elem_list(cur)
    n_int = sum(len(G.FACES['tet' if t == 'tet2' else t]) for t, _, _ in els) - len(obs['tri']) - len(obs['quad'])
    ctx.case(key, sample={**G.describe(m), 'surface_tri': len(obs['tri']), 'surface_quad': len(obs['quad']),
                          'interior_face_slots': n_int, 'shape': m.get('shape', 'brick'), 'transform': m.get('transform'),
                          'modification': mod and mod['kind'], 'history': seq},
             nontrivial=n_int > 0 or len(els) == 1)
    ctx.count('kind:' + m['kind'])
    ctx.count('order:' + m['order'])
    ctx.count('ids:' + str(m.get('id_style')))
    ctx.count('jittered:' + str(m.get('jittered')))
    ctx.count('types:' + '+'.join(m['blocks']))
    ctx.count('shape:' + m.get('shape', 'brick'))
    ctx.count('transform:' + str(m.get('transform')) + ('' if not m.get('transform') else
                                                       ' (exact)' if m.get('transform_exact') else ' (rounded)'))
    ctx.count('modification:' + (f"{mod['kind']}/{mod['how']}" if mod else 'none'))
    if m.get('n_unref'):
        ctx.count('has-unreferenced-nodes')
    flags = None
    if ctx.driver is not None:
        flags = correspond(ctx, cur, obs, case)
        if flags is not None and not (flags['wf'] and flags['closed_elements'] and flags['mirror_conforming']):
            # the generator only produces conforming meshes (validated in meshgen): a false hypothesis means the
            # regenerated tables / the model changed, not that the input is outside the theorem - keep the oracle on
            ctx.disagree('a theorem hypothesis evaluates to false on a generator-conforming mesh', case, None, flags)
    oracle(ctx, cur, obs, case)
    if seq:
        U.guarded(ctx, case, key, history, ctx, live, obs, seq, case, prefix, clutter)
    if base is not None:
        # the same mesh at the origin: everything combinatorial is identical (B: translated / scaled result = result at
        # the origin transformed; the coordinates themselves are compared bit-exactly by the oracle above)
        bobs, bflags, (label, scale, shift) = base[1], base[2], base[3]
        for k in COMBINATORIAL:
            if obs.get(k) != bobs.get(k):
                ctx.fail(f'scale-offset:{FIELD.get(k, k)}', f'{k} of the mesh after "{label}" differs from the result for the same '
                         'mesh at the origin', case, {'field': k, 'moved': str(obs.get(k))[:300], 'origin': str(bobs.get(k))[:300]})
                break
        if [ln for ln in obs['obj_text'].splitlines() if ln.startswith('f ')] != \
                [ln for ln in bobs['obj_text'].splitlines() if ln.startswith('f ')]:
            ctx.fail('scale-offset:obj-f-lines', f'the f lines of the .obj file after "{label}" differ from those at the origin', case, None)
        if flags is not None and bflags is not None and m.get('transform_exact'):
            # instance of C10_flux_similarity / C10_enclosed_volume_translate: an exact map p -> s p + t multiplies the
            # enclosed volume by s^3
            if flags['model_flux'] != bflags['model_flux'] * F(scale) ** 3:
                ctx.disagree('model: enclosed volume of the scaled / translated mesh != s^3 * enclosed volume at the origin '
                             '(C10_flux_similarity, C10_enclosed_volume_translate instance)',
                             case, None, [str(flags['model_flux']), str(bflags['model_flux'])])
    return obs, flags


def draw_history(rnd, m, quick):
    ops = available_ops(m)
    seq = rnd.sample(ops, len(ops))
    for _ in range(2 if quick else rnd.randint(2, 5)):
        seq.insert(rnd.randint(1, len(seq)), rnd.choice(ops))
    return seq


def run(ctx):
    rnd = ctx.rng
    n = ctx.n(126, 1800) if ctx.driver is not None else ctx.n(200, 900)
    for name, obj in C.corpus_cases(PROP):
        try:
            replay(ctx, obj)
            ctx.count('corpus')
        except Exception as e:  # noqa
            ctx.notes.append(f'corpus case {name}: {e!r}')
    clutter = 'v 0.0 0.0 0.0\nv 1.0 0.0 0.0\nv 0.0 1.0 0.0\nv 0.0 0.0 1.0\nf 1 3 2\nf 1 2 4\nf 2 3 4\nf 1 4 3\n'
    n_tr = n_mod = 0
    for k in range(n):
        kind = KINDS[k % len(KINDS)]
        j = k // len(KINDS)                       # fixed schedule of shapes per kind
        if j % 10 == 2:
            m = gen_single(ctx, kind)
        elif j % 7 == 4:
            # fixed rotation of the partner kind: every unordered pair of kinds (tet | tet2 included) occurs in every run
            m = gen_components(ctx, kind, KINDS[(k % len(KINDS) + 1 + 2 * (j // 7)) % len(KINDS)])
        elif j % 21 == 6 and not (ctx.quick and kind in ('tet', 'tet2')):
            m = gen_void(ctx, kind)
        else:
            m = gen(ctx, kind, big=(not ctx.quick and k % 5 == 0))
        m.setdefault('shape', 'brick')
        if k % 3 == 1 and m['shape'] != 'components':
            m = renumber(rnd, m)
        mod = None
        if k % 4 == 2:
            mod = plan_mod(rnd, m, MOD_KINDS[n_mod % len(MOD_KINDS)])
            n_mod += 1
        res = evaluate(ctx, m, mod=mod, seq=draw_history(rnd, m, ctx.quick), clutter=clutter,
                       per_op=(not ctx.quick) or k % 3 == 2 or mod is not None)
        if res is not None and res[0].get('obj_text'):
            clutter = res[0]['obj_text']
        if k % 3 == 0 and mod is None and res is not None and not (ctx.quick and m['shape'] == 'void'):
            tr = TRANSFORMS[n_tr % len(TRANSFORMS)]
            n_tr += 1
            m2 = transform(m, *tr)
            # an exact similarity keeps every element valid; after rounding the validity is re-decided exactly
            if m2['transform_exact'] or valid_mesh(m2):
                evaluate(ctx, m2, seq=draw_history(rnd, m2, True)[:3], base=(m, res[0], res[1], tr), clutter=clutter,
                         per_op=not ctx.quick)
            else:
                ctx.count('transform:rounding made an element invalid (skipped)')
    for spec in large_schedule(ctx):
        evaluate_large(ctx, spec)
    ctx.extra['p_tie'] = {'tolerance_centroid': U.TOL_CENTROID, 'tolerance_linear': U.TOL_LINEAR,
                          'scale': 'centroid: P^3, linear: D^3 (+ 64 eps P D^2), P = max|coordinate|, D = extent (referenced nodes)',
                          'points': 'rational grid, denominators <= 64, |p| <= ~20; scale / offset stream: the float64 '
                                    'roundings of s * p + t (full mantissas), |p| up to 2e7'}


def replay(ctx, obj):
    inp = obj['input'] if 'input' in obj else obj
    if inp.get('large'):
        n0 = len(ctx.failures)
        evaluate_large(ctx, inp['large'])
        return {'describe': inp.get('describe'), 'large': inp['large'], 'fails': len(ctx.failures) > n0,
                'failures': [{'signature': f['signature'], 'what': f['what'], 'observed': f['observed']} for f in ctx.failures[n0:]]}
    m = G.from_json(inp['mesh'])
    if inp.get('transform'):
        m['transform'] = inp['transform']
    n0 = len(ctx.failures)
    d0 = len(ctx.disagreements)
    base = None
    if inp.get('base_mesh'):
        b = G.from_json(inp['base_mesh'])
        r = evaluate(ctx, b)
        tr = next((t for t in TRANSFORMS if t[0] == inp.get('transform')), ('?', 1.0, (1, 1, 1)))
        if r is not None:
            m['transform_exact'] = transform(b, *tr)['nodes'] == m['nodes'] and transform(b, *tr)['transform_exact']
            base = (b, r[0], r[1], tr)
    res = evaluate(ctx, m, mod=inp.get('modification'), seq=inp.get('history'), base=base,
                   clutter='v 0.0 0.0 0.0\nv 1.0 0.0 0.0\nv 0.0 1.0 0.0\nf 1 2 3\n')
    out = {'describe': G.describe(m), 'modification': inp.get('modification'), 'history': inp.get('history'),
           'failures': [{'signature': f['signature'], 'what': f['what'], 'observed': f['observed']} for f in ctx.failures[n0:]],
           'fails': len(ctx.failures) > n0}
    if res is not None:
        out.update(surface_tri=res[0]['tri'][:10], surface_quad=res[0]['quad'][:10])
    if ctx.driver is not None:
        out['model_disagreements'] = [{'what': d['what'], 'impl': d['impl'], 'model': d['model']} for d in ctx.disagreements[d0:]]
    return out
