"""C10 - the extracted / exported surface is the outward-oriented closed boundary (DESIGN.md section 4, C10).

Tie T: face tables / FrontISTR face rows regenerated into Femio/Gen/Tables.lean (decide obligations in Props/C10).
Tie D: `extract_surface()`, `to_surface()`, `extract_surface_fistr()`, the .obj text and its re-read are compared
       with the Lean model (`Femio.C10.*` through `c10.*` driver commands) on generated conforming meshes; the driver
       also evaluates the Boolean hypotheses of the theorems (element closedness, conformity) on every mesh.
Tie P: exact-rational volumes / fluxes of the model vs the float results of `calculate_element_volumes`.
Oracle: the property stated on the real API only (edge counting, outwardness, enclosed volume, face sets, OBJ re-read).
"""
import os
from fractions import Fraction as F

import numpy as np

from . import common as C
from . import meshgen as G
from . import d_util as U

PROP = 'C10'
LEAN_MODULES = ['Femio.Props.C10']
THEOREMS = ['C10_element_closed', 'C10_element_outward', 'C10_boundary_spec', 'C10_fistr_scan_spec', 'C10_closed',
            'C10_closed_manifold', 'C10_volume', 'C10_same_face_set', 'C10_fistr_same_keys', 'C10_fistr_numbers', 'C10_obj_roundtrip',
            'C10_obj_lex_print', 'C10_obj_roundtrip_chars']
PARTIAL = [
    'C10_element_outward / C10_volume: quadrilateral faces are measured by the centroid-fan flux (exact for planar '
    'faces; for warped faces the statement is about that discretisation, which is also what femio\'s "centroid" '
    'volume kernels integrate)',
    'C10_obj_roundtrip_chars: the coordinate numerals are opaque whitespace-free tokens (hypothesis vertsOKB, evaluated '
    'by the driver on every case); that float(repr(x)) == x for the decimal text of the coordinates is trusted '
    '(Python shortest repr) and exercised by the correspondence; line splitting models StringSeries.read_file as '
    '"split at newlines, skip empty lines" (pandas read_csv quoting / carriage returns not modelled)',
    'STL export is not runnable in this sandbox (numpy-stl missing) and is not covered',
]
RULE = ('seeded conforming solid meshes from harness/meshgen.gen_geometric: kind in tet / tet2 / hex / mixed '
        '(hex+prism+pyr) / pyr / prism, 1..3 cells per axis (thorough: ..4), random rational affine map, optional '
        'jitter, optional removed cells (voids, several components), optional unreferenced nodes, node / element ids '
        'dense / sparse / large / ~2e9 / prefix-like, storage order ascending / descending / shuffled; a case is '
        'non-trivial when the mesh has at least one interior face (so that extraction removes something); distinct = '
        'distinct (connectivity, ids, storage order, coordinates)')
ASSUMPTIONS = [
    'input meshes are conforming (every shared face is used by exactly two elements, as mirror images): decided per '
    'input by the model (`conformingB`, `mirrorConformingB`), meshes failing it go to a separate labelled stream',
    '"every edge is used by two faces" is checked as: directed-edge counts are balanced, and every undirected edge '
    'that lies on exactly two surface faces is traversed in opposite directions (two cells touching only along an '
    'edge make a 4-face edge on any correct boundary)',
    'finite coordinates (a coordinate printed as inf / nan would be misread as an `f` line by the reader)',
]
TRUSTED = ['C10: decimal text <-> float64 conversion of pandas / numpy (coordinates enter the OBJ model as opaque tokens)',
           'C10: harness/meshgen.py face tables are used by the oracle as the independent definition of "face of an element"']

KINDS = ['tet', 'hex', 'mixed', 'pyr', 'prism', 'tet2']
FISTR_FACES = [(0, 1, 2), (0, 1, 3), (1, 2, 3), (2, 0, 3)]   # FrontISTR manual: faces 1..4 of a 341 / 342 element


def gen(ctx, kind, big=False):
    rnd = ctx.rng
    if kind == 'tet2':
        m = G.gen_geometric(rnd, kind='tet', max_cells=2)
        return G.promote_tet2(rnd, m)
    return G.gen_geometric(rnd, kind=kind, max_cells=(4 if big else 3) if kind in ('hex', 'mixed') else (3 if big else 2))


# ------------------------------------------------------------------ real observations

def real_obs(ctx, m):
    import femio
    fd = U.fresh(m)
    U.stage('extract_surface()')
    s_idx, s_pos = G.quiet(fd.extract_surface)
    tri, quad = U.surface_parts(s_idx)
    obs = {'tri': tri, 'quad': quad}
    U.stage('to_surface()')
    sfd = G.quiet(fd.to_surface)
    obs['surf_nodes'] = [int(i) for i in sfd.nodes.ids]
    obs['surf_node_pos'] = sfd.nodes.data.tolist()
    obs['surf_blocks'] = {t: ([int(i) for i in a.ids], U.rows(a.data)) for t, a in sfd.elements.items()}
    try:
        obs['normals'] = G.quiet(sfd.calculate_element_normals).tolist()
        obs['surf_flat_ids'] = [int(i) for i in sfd.elements.ids]
    except Exception as e:  # noqa
        obs['normals_error'] = repr(e)
    if set(m['blocks']) <= {'tet', 'tet2'} and len(m['blocks']) == 1:
        U.stage('extract_surface_fistr()')
        obs['fistr'] = U.rows(G.quiet(fd.extract_surface_fistr))
    path = str(ctx.tmp / 'real.obj')
    if os.path.exists(path):
        os.remove(path)
    U.stage("write('obj')")
    G.quiet(fd.write, 'obj', path)
    obs['obj_text'] = open(path).read()
    U.stage("read_files('obj')")
    rd = G.quiet(femio.FEMData.read_files, 'obj', [path])
    obs['obj_read_nodes'] = ([int(i) for i in rd.nodes.ids], rd.nodes.data.tolist())
    obs['obj_read_elems'] = {t: ([int(i) for i in a.ids], U.rows(a.data)) for t, a in rd.elements.items()}
    vols = {}
    U.stage('calculate_element_volumes()')
    for mode in ('centroid', 'linear'):
        vols[mode] = U.real_volumes(m, mode)
        f2 = U.fresh(m)
        vols[mode + '_total'] = float(G.quiet(f2.calculate_element_volumes, mode=mode, raise_negative_volume=False).sum())
    obs['vols'] = vols
    return obs


# ------------------------------------------------------------------ property oracle (real API only)

def oracle(ctx, m, obs, case):
    ids = [i for i, _ in m['nodes']]
    X = U.coords_exact(m)
    els = U.elem_list(m)
    sc = U.scale(m)
    surf = [[ids[k] for k in f] for f in obs['tri'] + obs['quad']]

    # (a) exactly the faces that belong to one element only (independent face tables)
    allf = []
    for t, e, c in els:
        for f in G.FACES['tet' if t == 'tet2' else t]:
            allf.append((tuple(sorted(c[i] for i in f)), e))
    cnt = {}
    for k, e in allf:
        cnt[k] = cnt.get(k, 0) + 1
    expect = sorted(k for k, n in cnt.items() if n == 1)
    got = sorted(tuple(sorted(f)) for f in surf)
    if got != expect:
        ctx.fail('surface:not-the-once-only-faces', 'extract_surface() is not the set of faces used by exactly one element',
                 case, {'missing': [k for k in expect if k not in got][:5], 'extra': [k for k in got if k not in expect][:5]})
        return
    owner = {k: e for k, e in allf if cnt[k] == 1}
    # (b) closed: balanced directed edges; edges on exactly two faces are traversed in opposite directions
    ec = {}
    for f in surf:
        for e in U.dir_edges(f):
            ec[e] = ec.get(e, 0) + 1
    bad = [e for e, n in ec.items() if ec.get((e[1], e[0]), 0) != n]
    if bad:
        ctx.fail('surface:not-closed', 'a directed edge of the extracted surface is not matched by its reverse',
                 case, {'edges': bad[:5], 'counts': [(ec[e], ec.get((e[1], e[0]), 0)) for e in bad[:5]]})
    if any(ec[e] + ec.get((e[1], e[0]), 0) != 2 for e in ec):
        ctx.count('surface:has-non-manifold-edge')
    # (c) outwards: (face centre - owner centre) . normal > 0, normal from the real surface object
    conn = {e: c for _, e, c in els}
    ety = {e: t for t, e, _ in els}
    if 'normals' in obs:
        sflat = {}
        for t, (eids, data) in obs['surf_blocks'].items():
            for i, r in zip(eids, data):
                sflat[i] = r
        for sid, nrm in zip(obs['surf_flat_ids'], obs['normals']):
            f = sflat[sid]
            c = conn[owner[tuple(sorted(f))]]
            if ety[owner[tuple(sorted(f))]] == 'tet2':
                c = c[:4]
            fc = U.mean([X[i] for i in f])
            cc = U.mean([X[i] for i in c])
            d = float(U.dot(U.sub(fc, cc), tuple(F(x) for x in nrm)))
            if not d > 0:
                ctx.fail('surface:inward-face', 'a face of to_surface() has its normal pointing into its element', case,
                         {'face': f, 'element': owner[tuple(sorted(f))], 'dot': d})
                break
    # (d) encloses the sum of the element volumes (exact flux of the real face list vs real float volumes)
    enclosed = sum(U.face_flux([X[i] for i in f]) for f in surf)
    for mode, tol in (('centroid', U.TOL_CENTROID), ('linear', U.TOL_LINEAR)):
        if mode == 'linear' and not set(m['blocks']) <= {'tet', 'tet2'}:
            continue  # the "linear" hex / prism / pyr kernels use other diagonals on warped faces
        tot = obs['vols'][mode + '_total']
        if not U.close(enclosed, tot, tol * sc * max(1, len(els))):
            ctx.fail('surface:volume-mismatch', f'volume enclosed by the surface differs from the sum of element volumes ({mode})',
                     case, {'enclosed': float(enclosed), 'sum_volumes': tot, 'mode': mode})
    if min(obs['vols']['centroid'].values()) <= 0:
        ctx.count('input:non-positive-element')
    # (e) surface object, (element, face no.) list and OBJ describe the same faces
    sobj = [U.cyc_canon(r) for t, (_, data) in obs['surf_blocks'].items() for r in data]
    if sorted(sobj) != sorted(U.cyc_canon(f) for f in surf):
        ctx.fail('same-faces:to_surface', 'to_surface() elements differ from extract_surface()', case,
                 {'to_surface': sorted(sobj)[:5], 'extract_surface': sorted(U.cyc_canon(f) for f in surf)[:5]})
    if sorted(obs['surf_nodes']) != sorted({i for f in surf for i in f}) or \
            [i for i in ids if i in set(obs['surf_nodes'])] != obs['surf_nodes']:
        ctx.fail('same-faces:to_surface-nodes', 'to_surface() nodes are not the surface nodes in storage order', case,
                 {'nodes': obs['surf_nodes'][:10]})
    objf = [[int(x) for x in ln.split()[1:]] for ln in obs['obj_text'].splitlines() if ln.startswith('f ')]
    if any(k < 1 or k > len(ids) for f in objf for k in f):
        ctx.fail('same-faces:obj', 'an f line of the .obj file refers to a vertex number outside 1..n', case, {'f_lines': objf[:5]})
    elif sorted(U.cyc_canon([ids[k - 1] for k in f]) for f in objf) != sorted(U.cyc_canon(f) for f in surf):
        ctx.fail('same-faces:obj', 'the f lines of the .obj file differ from extract_surface()', case, {'f_lines': objf[:5]})
    if 'fistr' in obs:
        fk = sorted(tuple(sorted(conn[e][i] for i in FISTR_FACES[k - 1])) for e, k in obs['fistr'])
        if fk != got:
            ctx.fail('same-faces:fistr', 'extract_surface_fistr() (element, face number) rows describe another face set',
                     case, {'fistr': fk[:5], 'surface': got[:5]})
    # (f) OBJ read back = same vertices (storage order) and faces
    rn_ids, rn_pos = obs['obj_read_nodes']
    want_pos = [[float(v) for v in p] for _, p in m['nodes']]
    if rn_pos != want_pos or rn_ids != list(range(1, len(ids) + 1)):
        ctx.fail('obj:vertices-changed', 'vertices read back from the .obj file differ from the nodes', case,
                 {'first_diff': next(((a, b) for a, b in zip(rn_pos, want_pos) if a != b), None), 'n': (len(rn_pos), len(want_pos))})
    back = [r for t in ('tri', 'quad') for r in obs['obj_read_elems'].get(t, ([], []))[1]]
    if [[k - 1 for k in f] for f in back] != obs['tri'] + obs['quad'] or set(obs['obj_read_elems']) - {'tri', 'quad'}:
        ctx.fail('obj:faces-changed', 'faces read back from the .obj file differ from the extracted surface', case,
                 {'read': back[:5], 'surface': (obs['tri'] + obs['quad'])[:5]})


# ------------------------------------------------------------------ correspondence with the model

def correspond(ctx, m, obs, case):
    enc = G.enc_mesh(m)
    ids = [i for i, _ in m['nodes']]
    t = C.Toks(ctx.driver.ask('c10.surface ' + enc))
    if t.tok() != 'ok':
        ctx.disagree('surface: model error', case, 'ok', ' '.join(t.t[:3]))
        return None
    flags = dict(zip(['wf', 'closed_elements', 'conforming', 'mirror_conforming', 'manifold'], [t.nat() for _ in range(5)]))
    mt, mq = U.parse_faces(t), U.parse_faces(t)
    for k, v in flags.items():
        ctx.count(f'hyp:{k}={v}')
    if (mt, mq) != (obs['tri'], obs['quad']):
        ctx.disagree('extract_surface() index arrays', case, {'tri': obs['tri'][:6], 'quad': obs['quad'][:6]},
                     {'tri': mt[:6], 'quad': mq[:6]})
    t = C.Toks(ctx.driver.ask('c10.tosurface ' + enc))
    t.tok()
    mn = t.lst(t.nat)
    mtri = t.lst(lambda: (t.nat(), t.lst(t.nat)))
    mquad = t.lst(lambda: (t.nat(), t.lst(t.nat)))
    impl = (obs['surf_nodes'], [(i, r) for i, r in zip(*obs['surf_blocks'].get('tri', ([], [])))],
            [(i, r) for i, r in zip(*obs['surf_blocks'].get('quad', ([], [])))])
    if (mn, mtri, mquad) != impl:
        ctx.disagree('to_surface() nodes / elements', case, [x[:4] for x in impl], [mn[:4], mtri[:4], mquad[:4]])
    want_pos = [[float(v) for v in p] for i, p in m['nodes'] if i in set(obs['surf_nodes'])]
    if obs['surf_node_pos'] != want_pos:
        ctx.disagree('to_surface() node coordinates', case, obs['surf_node_pos'][:3], want_pos[:3])
    if 'fistr' in obs:
        t = C.Toks(ctx.driver.ask('c10.fistr ' + enc))
        t.tok()
        mf = U.parse_faces(t)
        if mf != obs['fistr']:
            ctx.disagree('extract_surface_fistr() rows', case, obs['fistr'][:8], mf[:8])
    # OBJ: text, and the real reader on the text emitted by the model
    verts = [[repr(float(v)) for v in p] for _, p in m['nodes']]
    line = 'c10.obj ' + enc + ' ' + C.enc_list(verts, lambda r: C.enc_list(r, C.esc))
    t = C.Toks(ctx.driver.ask(line))
    t.tok()
    text = C.unesc(t.tok())
    if text != obs['obj_text']:
        a, b = obs['obj_text'].splitlines(), text.splitlines()
        k = next((i for i, (x, y) in enumerate(zip(a, b)) if x != y), min(len(a), len(b)))
        ctx.disagree('.obj text', case, a[k:k + 2], b[k:k + 2])
    hyp = t.nat()
    ctx.count('hypothesis of C10_obj_roundtrip_chars holds (vertsOKB): ' + ('yes' if hyp else 'NO'))
    if not hyp:
        ctx.disagree('generated case violates the Boolean hypothesis of C10_obj_roundtrip_chars', case, 'in-quantifier input',
                     'vertsOKB = false')
    if t.nat() != 1:
        ctx.disagree('.obj model re-read failed', case, 'ok', 'none')
    else:
        mv = t.lst(lambda: t.lst(lambda: C.unesc(t.tok())))
        mfaces = U.parse_faces(t)
        import femio
        p2 = str(ctx.tmp / 'model.obj')
        open(p2, 'w').write(text)
        rd = G.quiet(femio.FEMData.read_files, 'obj', [p2])
        rv = rd.nodes.data.tolist()
        rf = [r for tt in ('tri', 'quad') for r in (U.rows(rd.elements[tt].data) if tt in rd.elements else [])]
        # the reader groups faces by shape; the model keeps file order = tri block then quad block
        if rv != [[float(x) for x in r] for r in mv] or rf != mfaces:
            ctx.disagree('.obj re-read (real reader on the model\'s text vs model reader)', case,
                         {'v': rv[:2], 'f': rf[:4]}, {'v': mv[:2], 'f': mfaces[:4]})
    # P: volumes and fluxes
    t = C.Toks(ctx.driver.ask('c10.flux ' + enc))
    t.tok()
    sflux, tvol = t.rat(), t.rat()
    per = t.lst(lambda: (t.nat(), t.rat(), t.rat()))
    sc = U.scale(m)
    for e, vc, vl in per:
        if not U.close(vc, obs['vols']['centroid'][e], U.TOL_CENTROID * sc):
            ctx.disagree('volume kernel (centroid)', case, obs['vols']['centroid'][e], float(vc))
            break
        if not U.close(vl, obs['vols']['linear'][e], U.TOL_LINEAR * sc):
            ctx.disagree('volume kernel (linear)', case, obs['vols']['linear'][e], float(vl))
            break
    flags['flux_equals_volume'] = int(sflux == tvol)
    if flags['mirror_conforming'] and flags['closed_elements'] and flags['wf'] and sflux != tvol:
        # an instance of theorem C10_volume evaluated exactly by the model
        ctx.disagree('model: surface flux != total volume on a conforming mesh (C10_volume instance)', case, None,
                     [str(sflux), str(tvol)])
    X = U.coords_exact(m)
    surf = [[ids[k] for k in f] for f in obs['tri'] + obs['quad']]
    enclosed = sum(U.face_flux([X[i] for i in f]) for f in surf)
    if enclosed != sflux:
        ctx.disagree('flux of the real surface (exact) vs model surface flux', case, str(enclosed), str(sflux))
    return flags


def one_case(ctx, m, stream='main'):
    case = U.mesh_case(m)
    key = (tuple(m['nodes']), tuple((t, tuple((e, tuple(c)) for e, c in b)) for t, b in m['blocks'].items()))
    obs = U.guarded(ctx, case, key, real_obs, ctx, m)
    if obs is None:
        return
    n_int = sum(len(G.FACES['tet' if t == 'tet2' else t]) for t, _, _ in U.elem_list(m)) - len(obs['tri']) - len(obs['quad'])
    ctx.case(key, sample={**G.describe(m), 'surface_tri': len(obs['tri']), 'surface_quad': len(obs['quad']),
                          'interior_face_slots': n_int}, nontrivial=n_int > 0)
    ctx.count('kind:' + m['kind'])
    ctx.count('order:' + m['order'])
    ctx.count('ids:' + str(m.get('id_style')))
    ctx.count('jittered:' + str(m.get('jittered')))
    ctx.count('types:' + '+'.join(m['blocks']))
    if m.get('n_unref'):
        ctx.count('has-unreferenced-nodes')
    if ctx.driver is not None:
        flags = correspond(ctx, m, obs, case)
        if flags is not None and not (flags['wf'] and flags['closed_elements'] and flags['mirror_conforming']):
            # the generator only produces conforming meshes (validated in meshgen): a false hypothesis means the
            # regenerated tables / the model changed, not that the input is outside the theorem - keep the oracle on
            ctx.disagree('a theorem hypothesis evaluates to false on a generator-conforming mesh', case, None, flags)
    oracle(ctx, m, obs, case)


def run(ctx):
    n = ctx.n(180, 2500) if ctx.driver is not None else ctx.n(300, 1200)
    for name, obj in C.corpus_cases(PROP):
        try:
            one_case(ctx, G.from_json(obj['input']['mesh'] if 'input' in obj else obj['mesh']))
            ctx.count('corpus')
        except Exception as e:  # noqa
            ctx.notes.append(f'corpus case {name}: {e!r}')
    for k in range(n):
        kind = KINDS[k % len(KINDS)]
        m = gen(ctx, kind, big=(not ctx.quick and k % 5 == 0))
        one_case(ctx, m)
    ctx.extra['p_tie'] = {'tolerance_centroid': U.TOL_CENTROID, 'tolerance_linear': U.TOL_LINEAR,
                          'scale': 'max|coordinate|^3', 'points': 'rational grid, denominators <= 64, |p| <= ~20'}


def replay(ctx, obj):
    m = G.from_json(obj['input']['mesh'])
    case = U.mesh_case(m)
    n0 = len(ctx.failures)
    obs = U.guarded(ctx, case, 'replay', real_obs, ctx, m)
    if obs is None:
        return {'describe': G.describe(m), 'failures': [{'signature': f['signature'], 'what': f['what'], 'observed': f['observed']}
                                                        for f in ctx.failures[n0:]], 'fails': True}
    oracle(ctx, m, obs, case)
    res = {'describe': G.describe(m), 'surface_tri': obs['tri'][:10], 'surface_quad': obs['quad'][:10],
           'failures': [{'signature': f['signature'], 'what': f['what'], 'observed': f['observed']} for f in ctx.failures[n0:]],
           'fails': len(ctx.failures) > n0}
    if ctx.driver is not None:
        d0 = len(ctx.disagreements)
        correspond(ctx, m, obs, case)
        res['model_disagreements'] = [{'what': d['what'], 'impl': d['impl'], 'model': d['model']} for d in ctx.disagreements[d0:]]
    return res
