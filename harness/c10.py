"""C10 - the extracted / exported surface is the outward-oriented closed boundary (DESIGN.md section 4, C10).

Tie T: face tables / FrontISTR face rows regenerated into Femio/Gen/Tables.lean (decide obligations in Props/C10).
Tie D: `extract_surface()`, `to_surface()`, `extract_surface_fistr()`, the .obj text and its re-read are compared
       with the Lean model (`Femio.C10.*` through `c10.*` driver commands) on generated conforming meshes; the driver
       also evaluates the Boolean hypotheses of the theorems (element closedness, conformity) on every mesh.
Tie P: exact-rational volumes / fluxes of the model vs the float results of `calculate_element_volumes`.
Oracle: the property stated on the real API only (edge counting, outwardness, enclosed volume, face sets, OBJ re-read).

Every case is evaluated the same way (`evaluate`):
  1. a LIVE object is built from the mesh and - stream A - modified through public means (in-place edits through the
     arrays returned by `.data`, the data setters, loc / iloc write-through, `update(allow_overwrite=True)`); the mesh the
     property talks about is the object's CURRENT public state (`state_mesh`: ids and `.data` of nodes and element blocks,
     snapshot taken just before the operations);
  2. REFERENCE observations: every operation on its own, independently constructed fresh object with that content;
     the oracle and the correspondence with the model run on these;
  3. a HISTORY on the live object: all operations in shuffled order with repeats; before / after every call the public
     state of every live object (the parent with its user variable, every surface object and every array returned by an
     earlier call) is compared bit-exactly, and every result must equal the reference result of that operation.
Streams B (absolute scale / far offset, with the pair relation to the mesh at the origin) and E (sparse-but-small ids,
single elements, internal voids, several components of different kinds) are generator dimensions of the same flow.
"""
import os
from fractions import Fraction as F

import numpy as np

from . import common as C
from . import meshgen as G
from . import d_util as U

PROP = 'C10'
LEAN_MODULES = ['Femio.Props.C10']
THEOREMS = ['C10_element_closed', 'C10_element_outward', 'C10_boundary_spec', 'C10_fistr_scan_spec', 'C10_closed',
            'C10_closed_manifold', 'C10_volume', 'C10_same_face_set', 'C10_fistr_same_keys', 'C10_fistr_numbers', 'C10_obj_roundtrip',
            'C10_obj_lex_print', 'C10_obj_roundtrip_chars', 'C10_flux_similarity', 'C10_volume_similarity',
            'C10_enclosed_volume_translate']
PARTIAL = [
    'C10_element_outward / C10_volume: quadrilateral faces are measured by the centroid-fan flux (exact for planar '
    'faces; for warped faces the statement is about that discretisation, which is also what femio\'s "centroid" '
    'volume kernels integrate)',
    'C10_obj_roundtrip_chars: the coordinate numerals are opaque whitespace-free tokens (hypothesis vertsOKB, evaluated '
    'by the driver on every case); that float(repr(x)) == x for the decimal text of the coordinates is trusted '
    '(Python shortest repr) and exercised by the correspondence at every scale (full 53-bit mantissas in the scale / offset '
    'stream); line splitting models StringSeries.read_file as "split at newlines, skip empty lines" (pandas read_csv '
    'quoting / carriage returns not modelled)',
    'histories: in the model every operation is a function of (node ids, blocks, coordinates) only, so "the result does '
    'not depend on earlier calls / the operation does not modify the object" holds in the model by construction; that the '
    'code has this shape (no state kept on the object, no shared array modified) is checked by the oracle on shuffled '
    'histories with snapshots, not proved (the lru_cache of extract_surface after an in-place modification is C19 / F11)',
    'STL export is not runnable in this sandbox (numpy-stl missing) and is not covered',
]
RULE = ('seeded conforming solid meshes from harness/meshgen.gen_geometric: kind in tet / tet2 / hex / mixed '
        '(hex+prism+pyr) / pyr / prism, 1..3 cells per axis (thorough: ..4), random rational affine map, optional '
        'jitter, optional removed cells (voids, several components), optional unreferenced nodes, node / element ids '
        'dense / sparse / large / ~2e9 / prefix-like / sparse-but-small with additive structure (separately numbered parts, '
        'strides, digit shifts, just above the node count, and placements under which the packed radix keys of two facets '
        'coincide for a radix next to the node count), storage order ascending / descending / shuffled / looks-sorted; '
        'fixed schedule of shapes: single element, 3x3x3 brick with an internal void, two components of different kinds '
        '(tet or tet2 next to hex / prism / pyr); every third case is followed by the same mesh at another ABSOLUTE SCALE '
        '(2^-20 .. 2^20, 1e-6 .. 1e3) or FAR OFFSET (1e3 .. 1e7 cell sizes, anisotropic, UTM-like), compared with the result '
        'at the origin; every fourth case is MODIFIED through public means before the operations (expectation = current '
        'public state); every case: all operations in shuffled order with repeats on one live object vs each operation on '
        'its own fresh object, snapshots of every live object around every call; a case is non-trivial when the mesh has at '
        'least one interior face or is a single element; distinct = distinct (connectivity, ids, storage order, '
        'coordinates, modification, history)')
ASSUMPTIONS = [
    'input meshes are conforming (every shared face is used by exactly two elements, as mirror images): decided per '
    'input by the model (`conformingB`, `mirrorConformingB`), meshes failing it go to a separate labelled stream',
    '"every edge is used by two faces" is checked as: directed-edge counts are balanced, and every undirected edge '
    'that lies on exactly two surface faces is traversed in opposite directions (two cells touching only along an '
    'edge make a 4-face edge on any correct boundary)',
    'finite coordinates (a coordinate printed as inf / nan would be misread as an `f` line by the reader)',
    'the mesh of a modified object is what `.ids` / `.data` of its nodes and element blocks return when the operation is '
    'called (after an in-place edit through `.data` the pandas frame of the attribute is a stale second view; femio\'s own '
    'tests edit `.data` in place); every modification keeps the mesh valid (exactly re-validated: positive elements, star-'
    'shaped faces) and is followed by no earlier query on that object (query - modification - query on one object is the '
    'open finding F11 of C19, kept out of C10)',
    'float tolerances (calibrated on the unchanged tree, seeds 0..5 quick + thorough): sum of element volumes vs exact '
    'enclosed volume: "centroid" kernels (float32 accumulators over ABSOLUTE coordinates) 2e-6 * P^3 per element, "linear" '
    'kernels (float64, coordinate differences) (1e-9 * D^3 + 64 eps * P * D^2) per element, P = max |coordinate|, D = '
    'largest extent of the referenced nodes (no floor: micrometre meshes are judged at their own scale); the second term '
    'is the conditioning of a volume with respect to one ulp of its coordinates, so far from the origin the test still '
    'rejects formulas that cancel in absolute coordinates (error eps * P^3); everything else (face sets, closedness, '
    'orientation from the node order, enclosed volume = sum of exact element volumes, coordinates of the surface object, '
    'OBJ vertices read back) is exact at every scale',
]
TRUSTED = ['C10: decimal text <-> float64 conversion of pandas / numpy (coordinates enter the OBJ model as opaque tokens)',
           'C10: harness/meshgen.py face tables are used by the oracle as the independent definition of "face of an element"']

KINDS = ['tet', 'hex', 'mixed', 'pyr', 'prism', 'tet2']
FISTR_FACES = [(0, 1, 2), (0, 1, 3), (1, 2, 3), (2, 0, 3)]   # FrontISTR manual: faces 1..4 of a 341 / 342 element
EPS = 2.0 ** -52

# (label, scale, shift): exact powers of two, realistic decimal unit changes (full mantissas), far offsets
TRANSFORMS = [
    ('pow2:-20', 2.0 ** -20, (0, 0, 0)), ('offset:1e7', 1.0, (1e7, 1e7, 1e7)), ('real:1e-6', 1e-6, (0, 0, 0)),
    ('offset:utm', 1.0, (500000.37, 4649776.22, 120.5)), ('pow2:+20', 2.0 ** 20, (0, 0, 0)), ('offset:1e5', 1.0, (1e5, -1e5, 1e5)),
    ('real:1e3', 1e3, (0, 0, 0)), ('offset:aniso', 1.0, (1e7, 0, -1e4)), ('pow2:-10', 2.0 ** -10, (0, 0, 0)),
    ('micro-far', 1e-6, (0.5, -0.25, 1.0)), ('offset:1e3', 1.0, (1e3, 1e3, -1e3)), ('real:1e-3', 1e-3, (0, 0, 0)),
    ('pow2:+10', 2.0 ** 10, (0, 0, 0)), ('offset:1e6', 1.0, (-1e6, 1e6, 0)),
]
MOD_KINDS = ['nodes-inplace', 'conn-inplace', 'nodes-setter', 'nodes-loc', 'conn-setter', 'nodes-update', 'nodes-iloc']
ROT = {'tet': [1, 2, 0, 3], 'hex': [1, 2, 3, 0, 5, 6, 7, 4], 'prism': [1, 2, 0, 4, 5, 3], 'pyr': [1, 2, 3, 0, 4]}
FIELD = {'tri': 'triangles', 'quad': 'quadrilaterals', 'pos_tri': 'positions', 'pos_quad': 'positions',
         'surf_nodes': 'node-ids', 'surf_node_pos': 'node-coordinates', 'surf_blocks': 'elements', 'normals': 'normals',
         'surf_flat_ids': 'element-ids', 'keep_nodes': 'node-ids', 'keep_node_pos': 'node-coordinates', 'keep_blocks': 'elements',
         'fistr': 'rows', 'obj_text': 'text', 'obj_read_nodes': 'vertices-read-back', 'obj_read_elems': 'faces-read-back'}


# ------------------------------------------------------------------ generator dimensions

class _Dims:
    """random source that answers the first three randint() calls of gen_geometric (its cell counts) with fixed values"""

    def __init__(self, rnd, dims):
        self._r, self._d = rnd, list(dims)

    def randint(self, a, b):
        return self._d.pop(0) if self._d else self._r.randint(a, b)

    def __getattr__(self, k):
        return getattr(self._r, k)


def gen(ctx, kind, big=False, dims=None, **kw):
    rnd = ctx.rng if dims is None else _Dims(ctx.rng, dims)
    if kind == 'tet2':
        m = G.gen_geometric(rnd, kind='tet', max_cells=2, **kw)
        return G.promote_tet2(ctx.rng, m)
    return G.gen_geometric(rnd, kind=kind, max_cells=(4 if big else 3) if kind in ('hex', 'mixed') else (3 if big else 2), **kw)


def corner(t, c):
    return c[:4] if t == 'tet2' else c


def surface_keys(m):
    cnt = {}
    for t, _, c in U.elem_list(m):
        for f in G.FACES['tet' if t == 'tet2' else t]:
            k = tuple(sorted(c[i] for i in f))
            cnt[k] = cnt.get(k, 0) + 1
    return {k for k, n in cnt.items() if n == 1}


def drop_elements(m, keep, shape, drop_unused=False):
    """any subset of the elements of a conforming mesh is a conforming mesh"""
    out = dict(m)
    out['blocks'] = {t: [(e, c) for e, c in b if keep(t, e, c)] for t, b in m['blocks'].items()}
    out['blocks'] = {t: b for t, b in out['blocks'].items() if b}
    if drop_unused:
        used = {n for b in out['blocks'].values() for _, c in b for n in c}
        out['nodes'] = [(i, p) for i, p in m['nodes'] if i in used]
    out['shape'] = shape
    return out


def gen_void(ctx, kind):
    """3 x 3 x 3 brick; the elements without a node on the outer boundary are removed: an internal void whose wall is a
    second, inward-facing component of the surface (hexes, the triangles and quadrilaterals of prisms, pyramid bases)"""
    m = gen(ctx, 'tet' if kind == 'tet2' else kind, dims=(3, 3, 3), voids=False)
    if kind == 'tet2':
        m = G.promote_tet2(ctx.rng, m)
    outer = {n for k in surface_keys(m) for n in k}
    return drop_elements(m, lambda t, e, c: any(n in outer for n in corner(t, c)), 'void')


def gen_single(ctx, kind):
    """exactly one element (with or without the now unreferenced nodes of its cell)"""
    m = gen(ctx, kind, dims=(1, 1, 1), voids=False)
    t0 = ctx.rng.choice(list(m['blocks']))
    e0 = ctx.rng.choice(m['blocks'][t0])[0]
    return drop_elements(m, lambda t, e, c: (t, e) == (t0, e0), 'single', drop_unused=ctx.rng.random() < .5)


def gen_components(ctx, kind, other):
    """two components of different kinds side by side (a tet / tet2 part next to a hex / prism / pyramid part and so on):
    disjoint ids (second part numbered after the first, or both renumbered), second part translated out of the way"""
    rnd = ctx.rng
    a = gen(ctx, kind)
    b = gen(ctx, other)
    hi = max(abs(v) for _, p in a['nodes'] for v in p) + max(abs(v) for _, p in b['nodes'] for v in p) + 2
    shift = (F(int(hi) + 1), F(0), F(rnd.randint(-2, 2)))
    off_n = max(i for i, _ in a['nodes']) + rnd.choice([0, 1, len(a['nodes']), 1000])
    off_e = max(e for blk in a['blocks'].values() for e, _ in blk) + rnd.choice([0, 7])
    nodes = list(a['nodes']) + [(i + off_n, tuple(x + s for x, s in zip(p, shift))) for i, p in b['nodes']]
    blocks = {t: list(blk) for t, blk in a['blocks'].items()}
    for t, blk in b['blocks'].items():
        blocks.setdefault(t, [])
        blocks[t] = blocks[t] + [(e + off_e, [n + off_n for n in c]) for e, c in blk]
    if rnd.random() < .5:
        rnd.shuffle(nodes)
    for blk in blocks.values():
        if rnd.random() < .5:
            rnd.shuffle(blk)
    out = dict(a)
    out.update(nodes=nodes, blocks={t: blocks[t] for t in G.ELEMENT_TYPES if t in blocks}, kind=a['kind'] + '|' + b['kind'],
               order='parts', id_style=str(a.get('id_style')) + '|' + str(b.get('id_style')), shape='components',
               jittered=bool(a.get('jittered') or b.get('jittered')), n_unref=a.get('n_unref', 0) + b.get('n_unref', 0))
    return out


def small_sparse_ids(rnd, n):
    """n distinct positive ids that are SPARSE BUT SMALL (max id exceeds n by a small factor only) and have additive structure,
    so that arithmetic combinations of the ids of a facet (packed radix keys sum(id_k * B^k) with B ~ n, `id - offset`
    tables, hashes) collide although every id is small; random sparse ids of the same size almost never do"""
    style = rnd.choice(['parts', 'parts', 'shifted', 'stride', 'above'])
    B = max(2, n + rnd.choice([-1, 0, 1, 1, 1, 2]))
    if style == 'parts' and n >= 3:
        k = rnd.choice([2, 2, 3])
        cuts = sorted(rnd.sample(range(1, n), k - 1))
        ids, nxt = [], 1
        for j, (a, b) in enumerate(zip([0] + cuts, cuts + [n])):
            start = max(nxt, j * B + rnd.choice([0, 1, 1, 1, 2]))
            ids += list(range(start, start + b - a))
            nxt = start + b - a + 1
    elif style == 'shifted':
        R = rnd.choice([B, B, 10, 16, 100])
        pool = set()
        while len(pool) < n:
            j = rnd.randint(1, max(2, n // 2 + 1))
            pool.add(rnd.choice([j, j, j * R, j * R + rnd.randint(0, j), j + R]))
        ids = sorted(pool)
    elif style == 'stride':
        step = rnd.choice([2, 3, B, max(2, B - 1)])
        a = rnd.randint(1, 3)
        pool = {a + k * step for k in range(rnd.randint(1, n))}
        j = 1
        while len(pool) < n:
            pool.add(j)
            j += 1
        ids = sorted(pool)
    else:
        style = 'above'
        ids = list(range(1, n + 1))
        for _ in range(rnd.randint(1, 3)):
            new = n + rnd.randint(1, 3)
            if new not in ids:
                ids[rnd.randrange(n)] = new
    assert len(set(ids)) == n and min(ids) >= 1, (style, ids)
    return ids, 'small:' + style


def colliding_ids(rnd, m):
    """sparse-but-small node ids (1 .. n with ONE id moved just above the node count) placed so that the packed keys
    sum(sorted_id_k * B^k) of a boundary facet and of another facet with the same number of nodes coincide, for a radix B
    next to the node count (n, n + 1, n + 2) and either digit order: two facets that share all but two nodes; in the two
    sorted positions where they differ the ids are (x, y + B) and (x + 1, y).  This is the input class on which facets
    counted through an integer radix key (instead of row-wise) lose boundary faces; None if the mesh has no such pair"""
    n = len(m['nodes'])
    faces = {}
    for t, _, c in U.elem_list(m):
        for f in G.FACES['tet' if t == 'tet2' else t]:
            k = frozenset(c[i] for i in f)
            faces[k] = faces.get(k, 0) + 1
    boundary = sorted((k for k, v in faces.items() if v == 1), key=sorted)
    rnd.shuffle(boundary)
    pair = None
    for f in boundary[:20]:
        cands = sorted((g for g in faces if len(g) == len(f) and len(g & f) == len(f) - 2), key=sorted)
        if cands:
            pair = (f, rnd.choice(cands))
            break
    if pair is None:
        return None
    f, g = pair
    B = n + rnd.choice([1, 1, 1, 0, 2])
    shared, u, v = sorted(f & g), sorted(f - g), sorted(g - f)
    for l in (shared, u, v):
        rnd.shuffle(l)
    s, e = len(shared), rnd.randint(0, 2)
    new = {}
    if rnd.random() < .6:
        # smallest id = most significant digit: the facets differ in their last two sorted positions (weights B, 1)
        for j, x in enumerate(shared):
            new[x] = j + 1
        new[u[0]], new[v[0]], new[v[1]], new[u[1]] = s + 1, s + 2, s + 3 + e, s + 3 + e + B
        digits = 'msd-first'
    else:
        # smallest id = least significant digit: they differ in their first two sorted positions (weights 1, B)
        new[u[0]], new[v[0]] = 1 + e, 1 + e + B
        new[v[1]] = new[v[0]] + 1 + rnd.randint(0, 1)
        new[u[1]] = new[v[1]] + 1
        for j, x in enumerate(shared):
            new[x] = new[u[1]] + 1 + j
        digits = 'lsd-first'
    taken = set(new.values())
    rest = [i for i, _ in m['nodes'] if i not in new]
    rnd.shuffle(rest)
    nxt = 1
    for x in rest:
        while nxt in taken:
            nxt += 1
        new[x] = nxt
        taken.add(nxt)
    assert len(set(new.values())) == n
    return new, f'small:collide(B=n{B - n:+d},{digits})'


def renumber(rnd, m):
    """the same mesh under a sparse-but-small numbering of its nodes (random assignment, storage order class redrawn) and -
    half of the time - of its elements (dense ids dealt round-robin over the types: the types INTERLEAVE in id order, or
    one contiguous range per type)"""
    old = [i for i, _ in m['nodes']]
    col = colliding_ids(rnd, m) if rnd.random() < .4 else None
    if col is not None:
        f, style = col
    else:
        new, style = small_sparse_ids(rnd, len(old))
        rnd.shuffle(new)
        f = dict(zip(old, new))
    keys, order = G.order_ids(rnd, list(range(len(old))), {k: f[old[k]] for k in range(len(old))})
    nodes = [(f[m['nodes'][k][0]], m['nodes'][k][1]) for k in keys]
    blocks = {t: [(e, [f[n] for n in c]) for e, c in b] for t, b in m['blocks'].items()}
    if rnd.random() < .5:
        slots = [(t, j) for t, b in blocks.items() for j in range(len(b))]
        if rnd.random() < .5:
            slots.sort(key=lambda s: (s[1], s[0]))         # round-robin: ids of the types interleave
            style += '+eid:interleaved'
        else:
            style += '+eid:ranges'
        eids, _ = small_sparse_ids(rnd, len(slots)) if rnd.random() < .5 else (list(range(1, len(slots) + 1)), '')
        g = dict(zip(slots, sorted(eids)))
        blocks = {t: [(g[(t, j)], c) for j, (_, c) in enumerate(b)] for t, b in blocks.items()}
        for b in blocks.values():
            if rnd.random() < .5:
                rnd.shuffle(b)
    out = dict(m)
    out.update(nodes=nodes, blocks=blocks, order=order, id_style=style)
    return out


def transform(m, label, scale, shift):
    """the same mesh at another absolute scale / far from the origin; coordinates are the float64 values femio will hold
    (exact rationals of the rounded products), `exact` tells whether every coordinate is exactly scale * x + shift"""
    s, t = F(scale), [F(x) for x in shift]
    exact, nodes = True, []
    for i, p in m['nodes']:
        q = []
        for v, d in zip(p, t):
            w = F(float(v)) * s + d
            fl = F(float(w))
            exact = exact and fl == w
            q.append(fl)
        nodes.append((i, tuple(q)))
    out = dict(m)
    out.update(nodes=nodes, transform=label, transform_exact=exact)
    return out


def valid_mesh(m):
    """exact: every element positive and star-shaped with respect to its centroid (each fan triangle of each face seen
    from the inside) - the validity test of the generator, re-evaluated after a transformation / modification"""
    X = U.coords_exact(m)
    for t, _, c in U.elem_list(m):
        ty = 'tet' if t == 'tet2' else t
        P = [X[n] for n in corner(t, c)]
        if G.signed(ty, P) <= 0:
            return False
        g = U.mean(P)
        for f in G.FACES[ty]:
            fc = U.mean([P[i] for i in f])
            for i in range(len(f)):
                if U.det3(U.sub(fc, g), U.sub(P[f[i - 1]], g), U.sub(P[f[i]], g)) <= 0:
                    return False
    return True


def extent(m):
    """P = max |coordinate|, D = largest extent, over the nodes the elements refer to"""
    used = {n for _, _, c in U.elem_list(m) for n in c}
    pts = [[float(v) for v in p] for i, p in m['nodes'] if i in used]
    P = max(abs(v) for p in pts for v in p)
    D = max(max(p[k] for p in pts) - min(p[k] for p in pts) for k in range(3))
    return P, D


def tolerances(m):
    """per-element tolerances of the float volume kernels (ASSUMPTIONS)"""
    P, D = extent(m)
    return U.TOL_CENTROID * P ** 3, U.TOL_LINEAR * D ** 3 + 64 * EPS * P * D * D


# ------------------------------------------------------------------ stream A: modification through public means

def plan_mod(rnd, m, kind):
    """a JSON-able description of one public modification of a live object of mesh `m` that keeps the mesh valid (small
    node moves are validated exactly on the elements around the node; global maps and re-labellings are always valid)"""
    n = len(m['nodes'])
    X = U.coords_exact(m)
    _, D = extent(m)

    def moves(k_max):
        used = sorted({x for _, _, c in U.elem_list(m) for x in c})
        pos = {i: k for k, (i, _) in enumerate(m['nodes'])}
        out = {}
        for _ in range(12):
            if len(out) >= k_max:
                break
            i = rnd.choice(used)
            for den in (8, 32, 256, 4096):
                d = tuple(F(rnd.randint(-1, 1) * max(1, int(D)), den) for _ in range(3))
                if d == (0, 0, 0):
                    continue
                trial = dict(m)
                trial['nodes'] = [(j, tuple(a + b for a, b in zip(p, d)) if j == i else
                                   tuple(a + b for a, b in zip(p, out.get(pos[j], (0, 0, 0))))) for j, p in m['nodes']]
                trial['blocks'] = {t: [(e, c) for e, c in b if i in c] for t, b in m['blocks'].items()}
                trial['blocks'] = {t: b for t, b in trial['blocks'].items() if b}
                if valid_mesh(trial):
                    out[pos[i]] = d
                    break
        return out

    if kind in ('nodes-inplace', 'nodes-setter'):
        if rnd.random() < .5 or kind == 'nodes-setter':
            mv = {} if kind == 'nodes-setter' and rnd.random() < .5 else moves(2)
            if mv:
                return {'kind': kind, 'how': 'rows', 'rows': sorted(mv), 'delta': [[str(x) for x in mv[k]] for k in sorted(mv)]}
        return {'kind': kind, 'how': 'all', 'scale': rnd.choice([2, 0.5, 1, 3]),
                'shift': [rnd.choice([0, 0.25, -3, 16]) for _ in range(3)]}
    if kind in ('nodes-loc', 'nodes-iloc', 'nodes-update'):
        mv = moves(3)
        if mv:
            rows = sorted(mv)
            rnd.shuffle(rows)
            return {'kind': kind, 'how': 'rows', 'rows': rows, 'delta': [[str(x) for x in mv[k]] for k in rows]}
        rows = list(range(n))
        rnd.shuffle(rows)
        sh = [str(F(rnd.choice([1, -2, 8]), 4)) for _ in range(3)]
        return {'kind': kind, 'how': 'rows', 'rows': rows, 'delta': [sh for _ in rows]}
    # connectivity: an equivalent re-labelling (rotation of an element about its axis: same oriented faces, other first
    # node) or an exchange of the connectivity of two elements of a block (the two element ids swap their cells)
    ts = [t for t in m['blocks'] if t != 'tet2' or len(m['blocks'][t]) > 1]
    if not ts:
        return {'kind': kind, 'how': 'none'}
    t = rnd.choice(ts)
    nb = len(m['blocks'][t])
    if t != 'tet2' and (nb < 2 or rnd.random() < .6):
        return {'kind': kind, 'how': 'rotate', 'type': t, 'rows': sorted(rnd.sample(range(nb), rnd.randint(1, min(3, nb))))}
    i, j = rnd.sample(range(nb), 2)
    return {'kind': kind, 'how': 'swap', 'type': t, 'rows': [i, j]}


def apply_mod(fd, mod):
    """the modification, through the public API only"""
    kind, how = mod['kind'], mod['how']
    if how == 'none':
        return
    if kind.startswith('nodes'):
        if how == 'rows':
            rows = list(mod['rows'])
            delta = np.array([[float(F(x)) for x in r] for r in mod['delta']])
        if kind == 'nodes-inplace':
            a = fd.nodes.data                      # the array the property `.data` returns
            if how == 'rows':
                for k, d in zip(rows, delta):
                    a[k] += d
            else:
                a *= mod['scale']
                a += np.array(mod['shift'], dtype=float)
        elif kind == 'nodes-setter':
            new = np.array(fd.nodes.data, dtype=float, copy=True)
            if how == 'rows':
                new[rows] += delta
            else:
                new = new * mod['scale'] + np.array(mod['shift'], dtype=float)
            fd.nodes.data = new
        elif kind == 'nodes-loc':
            ids = [int(fd.nodes.ids[k]) for k in rows]
            fd.nodes.loc[ids].data = fd.nodes.data[rows] + delta
        elif kind == 'nodes-iloc':
            fd.nodes.iloc[rows].data = fd.nodes.data[rows] + delta
        elif kind == 'nodes-update':
            ids = [int(fd.nodes.ids[k]) for k in rows]
            fd.nodes.update(ids, fd.nodes.data[rows] + delta, allow_overwrite=True)
        return
    t, rows = mod['type'], list(mod['rows'])
    single = len(fd.elements.keys()) == 1
    if kind == 'conn-inplace':
        # through the block, or (single type) through the array `fd.elements.data` returns
        a = fd.elements.data if (single and sum(rows) % 2) else fd.elements[t].data
        if how == 'rotate':
            for k in rows:
                a[k] = a[k][ROT[t]].copy()
        else:
            i, j = rows
            a[[i, j]] = a[[j, i]].copy()
    else:
        new = np.array(fd.elements[t].data, copy=True)
        if how == 'rotate':
            for k in rows:
                new[k] = new[k][ROT[t]]
        else:
            i, j = rows
            new[[i, j]] = new[[j, i]]
        if single:
            fd.elements.data = new
        else:
            # replace the block by a new attribute and let the container rebuild its derived views
            from femio import FEMAttribute
            fd.elements.update({t: FEMAttribute(t, ids=np.array(fd.elements[t].ids), data=new, silent=True)})


def state_mesh(fd, like):
    """the mesh the object currently describes, read through the public attributes"""
    out = dict(like)
    out['nodes'] = [(int(i), tuple(F(float(v)) for v in p)) for i, p in zip(fd.nodes.ids, fd.nodes.data)]
    out['blocks'] = {t: [(int(e), [int(x) for x in c]) for e, c in zip(a.ids, a.data)] for t, a in fd.elements.items()}
    return out


# ------------------------------------------------------------------ operations on the real API

def pos_parts(s_pos):
    def lst(a):
        return [[[float(v) for v in p] for p in f] for f in a]
    if isinstance(s_pos, dict):
        return lst(s_pos.get('tri', [])), lst(s_pos.get('quad', []))
    r = lst(s_pos)
    return (r, []) if (r and len(r[0]) == 3) else ([], r)


def fd_canon(sfd, prefix):
    return {prefix + '_nodes': [int(i) for i in sfd.nodes.ids], prefix + '_node_pos': sfd.nodes.data.tolist(),
            prefix + '_blocks': {t: ([int(i) for i in a.ids], U.rows(a.data)) for t, a in sfd.elements.items()}}


def available_ops(m):
    ops = ['extract_surface', 'to_surface', 'to_surface_keep', 'write_obj']
    if set(m['blocks']) <= {'tet', 'tet2'} and len(m['blocks']) == 1:
        ops.append('fistr')
    return ops


def do_op(ctx, fd, op, tag, clutter=None):
    """one operation of the property on `fd`: (canonical observation, [(label, thunk)] re-reading every array / object the
    call returned, so that a later call changing it is seen)"""
    import femio
    if op == 'extract_surface':
        U.stage('extract_surface()')
        s_idx, s_pos = G.quiet(fd.extract_surface)

        def canon():
            tri, quad = U.surface_parts(s_idx)
            pt, pq = pos_parts(s_pos)
            return {'tri': tri, 'quad': quad, 'pos_tri': pt, 'pos_quad': pq}
        return canon(), [('extract_surface() arrays', canon)]
    if op == 'to_surface':
        U.stage('to_surface()')
        sfd = G.quiet(fd.to_surface)
        c = fd_canon(sfd, 'surf')
        try:
            c['normals'] = G.quiet(sfd.calculate_element_normals).tolist()
            c['surf_flat_ids'] = [int(i) for i in sfd.elements.ids]
        except Exception as e:  # noqa
            c['normals_error'] = repr(e)
        return c, [('to_surface() object', lambda: fd_canon(sfd, 'surf'))]
    if op == 'to_surface_keep':
        U.stage('to_surface(remove_unnecessary_nodes=False)')
        sfd = G.quiet(fd.to_surface, remove_unnecessary_nodes=False)
        return fd_canon(sfd, 'keep'), [('to_surface(remove_unnecessary_nodes=False) object', lambda: fd_canon(sfd, 'keep'))]
    if op == 'fistr':
        U.stage('extract_surface_fistr()')
        r = G.quiet(fd.extract_surface_fistr)
        return {'fistr': U.rows(r)}, [('extract_surface_fistr() array', lambda: {'fistr': U.rows(r)})]
    if op == 'write_obj':
        path = str(ctx.tmp / (tag + '.obj'))
        if os.path.exists(path):
            os.remove(path)
        U.stage("write('obj')")
        if clutter is not None:
            # an existing output file with realistic content (the export of another mesh) rewritten with overwrite=True
            open(path, 'w').write(clutter)
            G.quiet(fd.write, 'obj', path, overwrite=True)
        else:
            G.quiet(fd.write, 'obj', path)
        text = open(path).read()
        U.stage("read_files('obj')")
        rd = G.quiet(femio.FEMData.read_files, 'obj', [path])
        return {'obj_text': text, 'obj_read_nodes': ([int(i) for i in rd.nodes.ids], rd.nodes.data.tolist()),
                'obj_read_elems': {t: ([int(i) for i in a.ids], U.rows(a.data)) for t, a in rd.elements.items()}}, []
    raise ValueError(op)


def volumes(m):
    vols = {}
    U.stage('calculate_element_volumes()')
    for mode in ('centroid', 'linear'):
        # element id -> volume, block by block (update=False: nothing is stored on the object), then the whole-mesh call a
        # user would make for "the sum of the element volumes", on the same fresh object
        fd = U.fresh(m)
        vols[mode] = {}
        for t, blk in fd.elements.items():
            v = G.quiet(fd.calculate_element_volumes, mode=mode, raise_negative_volume=False, elements=blk,
                        element_type=t, update=False)
            vols[mode].update(zip([int(i) for i in blk.ids], [float(x) for x in v[:, 0]]))
        vols[mode + '_total'] = float(G.quiet(fd.calculate_element_volumes, mode=mode, raise_negative_volume=False).sum())
    return vols


def reference(ctx, m, per_op=True):
    """reference observations + the float volumes.  per_op: every operation on its own freshly built object (no history at
    all); otherwise (two of three cases of the quick tier, for the run time) all operations in a fixed order on one fresh
    object - the shuffled history on the live object is compared with either, so a result that depends on what was called
    before shows up as a difference in both arrangements"""
    obs = {}
    fd = None
    for op in available_ops(m):
        if per_op or fd is None:
            fd = U.fresh(m)
        c, _ = do_op(ctx, fd, op, 'ref')
        obs.update(c)
    ctx.count('reference:' + ('one fresh object per operation' if per_op else 'one fresh object, fixed order'))
    obs['vols'] = volumes(m)
    return obs


def parent_state(fd):
    """public user data of the live object: ids, coordinates, connectivity (blocks and the container's own views), variables"""
    s = {'node ids': [int(i) for i in fd.nodes.ids], 'coordinates': fd.nodes.data.tolist(),
         'coordinates (bit patterns)': np.asarray(fd.nodes.data, dtype=float).tobytes().hex(),
         'element ids': [int(i) for i in fd.elements.ids], 'connectivity': [[int(x) for x in r] for r in fd.elements.data]}
    for t, a in fd.elements.items():
        s['element ids of ' + t] = [int(i) for i in a.ids]
        s['connectivity of ' + t] = U.rows(a.data)
    s['nodal variables'] = {k: ([int(i) for i in v.ids], np.asarray(v.data).tolist()) for k, v in fd.nodal_data.items()}
    s['elemental variables'] = sorted(fd.elemental_data.keys())
    return s


def first_diff(a, b):
    return next((k for k in a if a[k] != b.get(k)), None) or next((k for k in b if k not in a), None)


def history(ctx, fd, ref, seq, case, prefix, clutter):
    """the operations of `seq` one after the other on the live object `fd`"""
    held = []
    before = parent_state(fd)
    for step, op in enumerate(seq):
        c, new = do_op(ctx, fd, op, 'live', clutter=clutter if (op == 'write_obj' and step % 2) else None)
        ctx.count('history-op:' + op)
        now = parent_state(fd)
        if now != before:
            k = first_diff(before, now)
            ctx.fail(f'{prefix}:{op}:modifies-the-object:{k}', f'{U.STAGE[0]} changed the {k} of the object it was called on',
                     case, {'step': step, 'history': seq[:step + 1], 'before': str(before[k])[:300], 'after': str(now.get(k))[:300]})
            before = now
        for label, thunk, val in held:
            cur = thunk()
            if cur != val:
                k = first_diff(val, cur)
                ctx.fail(f'{prefix}:{op}:modifies-earlier-result:{label}:{FIELD.get(k, k)}',
                         f'{op} changed the {label} returned by an earlier call on the same object', case,
                         {'step': step, 'history': seq[:step + 1], 'field': k, 'was': str(val[k])[:300], 'now': str(cur[k])[:300]})
                val.clear()
                val.update(cur)
        held += [(label, thunk, dict(thunk())) for label, thunk in new]
        k = next((k for k in c if c[k] != ref.get(k)), None)
        if k is not None:
            ctx.fail(f'{prefix}:{op}:{FIELD.get(k, k)}',
                     f'{op} on the live object ({prefix}) differs from the same call on a freshly built object with the same '
                     f'ids, coordinates and connectivity ({k})', case,
                     {'step': step, 'history': seq[:step + 1], 'field': k, 'live': str(c[k])[:400], 'fresh': str(ref.get(k))[:400]})


# ------------------------------------------------------------------ property oracle (real API only)

def oracle(ctx, m, obs, case):
    ids = [i for i, _ in m['nodes']]
    X = U.coords_exact(m)
    els = U.elem_list(m)
    tol_c, tol_l = tolerances(m)
    surf = [[ids[k] for k in f] for f in obs['tri'] + obs['quad']]

    # (a) exactly the faces that belong to one element only (independent face tables)
    allf = []
    for t, e, c in els:
        for f in G.FACES['tet' if t == 'tet2' else t]:
            allf.append((tuple(sorted(c[i] for i in f)), e))
    cnt = {}
    for k, e in allf:
        cnt[k] = cnt.get(k, 0) + 1
    expect = sorted(k for k, n in cnt.items() if n == 1)
    got = sorted(tuple(sorted(f)) for f in surf)
    if got != expect:
        ctx.fail('surface:not-the-once-only-faces', 'extract_surface() is not the set of faces used by exactly one element',
                 case, {'missing': [k for k in expect if k not in got][:5], 'extra': [k for k in got if k not in expect][:5]})
        return
    want = [[[float(v) for v in X[i]] for i in f] for f in surf]
    if obs['pos_tri'] + obs['pos_quad'] != want:
        ctx.fail('surface:positions', 'the positions returned by extract_surface() are not the coordinates of the nodes of its faces',
                 case, {'first_diff': next(((a, b) for a, b in zip(obs['pos_tri'] + obs['pos_quad'], want) if a != b), None)})
    owner = {k: e for k, e in allf if cnt[k] == 1}
    # (b) closed: balanced directed edges; edges on exactly two faces are traversed in opposite directions
    ec = {}
    for f in surf:
        for e in U.dir_edges(f):
            ec[e] = ec.get(e, 0) + 1
    bad = [e for e, n in ec.items() if ec.get((e[1], e[0]), 0) != n]
    if bad:
        ctx.fail('surface:not-closed', 'a directed edge of the extracted surface is not matched by its reverse',
                 case, {'edges': bad[:5], 'counts': [(ec[e], ec.get((e[1], e[0]), 0)) for e in bad[:5]]})
    if any(ec[e] + ec.get((e[1], e[0]), 0) != 2 for e in ec):
        ctx.count('surface:has-non-manifold-edge')
    # (c) outwards: exactly, from the node order (vector area . (face centre - element centre) > 0) ...
    conn = {e: corner(t, c) for t, e, c in els}
    for f in surf:
        cc = U.mean([X[i] for i in conn[owner[tuple(sorted(f))]]])
        P = [X[i] for i in f]
        d = U.dot(U.sub(U.mean(P), cc), U.vector_area(P))
        if not d > 0:
            ctx.fail('surface:inward-face', 'a face of extract_surface() is oriented into its element (node order)', case,
                     {'face': f, 'element': owner[tuple(sorted(f))], 'dot': float(d)})
            break
    # ... and with the normals the real surface object computes
    if 'normals' in obs:
        sflat = {}
        for t, (eids, data) in obs['surf_blocks'].items():
            for i, r in zip(eids, data):
                sflat[i] = r
        for sid, nrm in zip(obs['surf_flat_ids'], obs['normals']):
            f = sflat.get(sid)
            if f is None or tuple(sorted(f)) not in owner:
                continue     # reported below (same-faces:to_surface)
            fc = U.mean([X[i] for i in f])
            cc = U.mean([X[i] for i in conn[owner[tuple(sorted(f))]]])
            d = float(U.dot(U.sub(fc, cc), tuple(F(x) for x in nrm)))
            if not d > 0:
                ctx.fail('surface:inward-face', 'a face of to_surface() has its normal pointing into its element', case,
                         {'face': f, 'element': owner[tuple(sorted(f))], 'dot': d})
                break
    # (d) encloses the sum of the element volumes: exactly (centroid-fan volume of every element, rational arithmetic) ...
    enclosed = sum(U.face_flux([X[i] for i in f]) for f in surf)
    exact_total = sum(U.face_flux([X[c[i]] for i in f]) for t, _, c in els for f in G.FACES['tet' if t == 'tet2' else t])
    if enclosed != exact_total:
        ctx.fail('surface:volume-mismatch', 'volume enclosed by the surface differs from the exact sum of the element volumes',
                 case, {'enclosed': float(enclosed), 'sum_volumes': float(exact_total), 'mode': 'exact'})
    # ... and against the float volumes of the real kernels
    lin_total = sum(F(G.signed('tet' if t == 'tet2' else t, [X[i] for i in corner(t, c)]), 6) for t, _, c in els)
    for mode, tol in (('centroid', tol_c), ('linear', tol_l)):
        if mode == 'linear' and abs(lin_total - exact_total) > tol * len(els) / 64:
            ctx.count('linear-volume-mode-skipped (warped faces: other diagonals)')
            continue  # the "linear" hex / prism / pyr kernels use other diagonals on warped faces
        tot = obs['vols'][mode + '_total']
        if not U.close(enclosed, tot, tol * max(1, len(els))):
            ctx.fail('surface:volume-mismatch', f'volume enclosed by the surface differs from the sum of element volumes ({mode})',
                     case, {'enclosed': float(enclosed), 'sum_volumes': tot, 'mode': mode, 'tolerance': tol * max(1, len(els))})
        elif float(enclosed) != 0:
            r = abs(float(enclosed) - tot) / abs(float(enclosed))
            ctx.extra.setdefault('max_rel_volume_error', {})
            key = mode + ('@' + m['transform'].split(':')[0] if m.get('transform') else '')
            ctx.extra['max_rel_volume_error'][key] = max(ctx.extra['max_rel_volume_error'].get(key, 0.0), r)
    if min(obs['vols']['centroid'].values()) <= 0:
        ctx.count('input:non-positive-element (float32 centroid kernel)')
    # (e) surface object, (element, face no.) list and OBJ describe the same faces
    sobj = [U.cyc_canon(r) for t, (_, data) in obs['surf_blocks'].items() for r in data]
    if sorted(sobj) != sorted(U.cyc_canon(f) for f in surf):
        ctx.fail('same-faces:to_surface', 'to_surface() elements differ from extract_surface()', case,
                 {'to_surface': sorted(sobj)[:5], 'extract_surface': sorted(U.cyc_canon(f) for f in surf)[:5]})
    on_surf = {i for f in surf for i in f}
    if sorted(obs['surf_nodes']) != sorted(on_surf) or [i for i in ids if i in set(obs['surf_nodes'])] != obs['surf_nodes']:
        ctx.fail('same-faces:to_surface-nodes', 'to_surface() nodes are not the surface nodes in storage order', case,
                 {'nodes': obs['surf_nodes'][:10]})
    elif obs['surf_node_pos'] != [[float(v) for v in X[i]] for i in obs['surf_nodes']]:
        ctx.fail('same-faces:to_surface-node-coordinates', 'the nodes of to_surface() do not have the coordinates of the mesh nodes',
                 case, {'first_diff': next(((i, a, [float(v) for v in X[i]]) for i, a in zip(obs['surf_nodes'], obs['surf_node_pos'])
                                           if a != [float(v) for v in X[i]]), None)})
    if obs['keep_blocks'] != obs['surf_blocks'] or obs['keep_nodes'] != ids or \
            obs['keep_node_pos'] != [[float(v) for v in X[i]] for i in ids]:
        ctx.fail('same-faces:to_surface-keep-nodes', 'to_surface(remove_unnecessary_nodes=False) is not the surface of to_surface() '
                 'over all the nodes of the mesh', case, {'nodes': obs['keep_nodes'][:10], 'blocks': str(obs['keep_blocks'])[:300]})
    objf = [[int(x) for x in ln.split()[1:]] for ln in obs['obj_text'].splitlines() if ln.startswith('f ')]
    if any(k < 1 or k > len(ids) for f in objf for k in f):
        ctx.fail('same-faces:obj', 'an f line of the .obj file refers to a vertex number outside 1..n', case, {'f_lines': objf[:5]})
    elif sorted(U.cyc_canon([ids[k - 1] for k in f]) for f in objf) != sorted(U.cyc_canon(f) for f in surf):
        ctx.fail('same-faces:obj', 'the f lines of the .obj file differ from extract_surface()', case, {'f_lines': objf[:5]})
    if 'fistr' in obs:
        full = {e: c for _, e, c in els}
        fk = sorted(tuple(sorted(full[e][i] for i in FISTR_FACES[k - 1])) if e in full and 1 <= k <= 4 else (e, k)
                    for e, k in obs['fistr'])
        if fk != got:
            ctx.fail('same-faces:fistr', 'extract_surface_fistr() (element, face number) rows describe another face set',
                     case, {'fistr': fk[:5], 'surface': got[:5]})
    # (f) OBJ read back = same vertices (storage order) and faces
    rn_ids, rn_pos = obs['obj_read_nodes']
    want_pos = [[float(v) for v in p] for _, p in m['nodes']]
    if rn_pos != want_pos or rn_ids != list(range(1, len(ids) + 1)):
        ctx.fail('obj:vertices-changed', 'vertices read back from the .obj file differ from the nodes', case,
                 {'first_diff': next(((a, b) for a, b in zip(rn_pos, want_pos) if a != b), None), 'n': (len(rn_pos), len(want_pos))})
    back = [r for t in ('tri', 'quad') for r in obs['obj_read_elems'].get(t, ([], []))[1]]
    if [[k - 1 for k in f] for f in back] != obs['tri'] + obs['quad'] or set(obs['obj_read_elems']) - {'tri', 'quad'}:
        ctx.fail('obj:faces-changed', 'faces read back from the .obj file differ from the extracted surface', case,
                 {'read': back[:5], 'surface': (obs['tri'] + obs['quad'])[:5]})


# ------------------------------------------------------------------ correspondence with the model

def correspond(ctx, m, obs, case):
    enc = G.enc_mesh(m)
    ids = [i for i, _ in m['nodes']]
    t = C.Toks(ctx.driver.ask('c10.surface ' + enc))
    if t.tok() != 'ok':
        ctx.disagree('surface: model error', case, 'ok', ' '.join(t.t[:3]))
        return None
    flags = dict(zip(['wf', 'closed_elements', 'conforming', 'mirror_conforming', 'manifold'], [t.nat() for _ in range(5)]))
    mt, mq = U.parse_faces(t), U.parse_faces(t)
    for k, v in flags.items():
        ctx.count(f'hyp:{k}={v}')
    if (mt, mq) != (obs['tri'], obs['quad']):
        ctx.disagree('extract_surface() index arrays', case, {'tri': obs['tri'][:6], 'quad': obs['quad'][:6]},
                     {'tri': mt[:6], 'quad': mq[:6]})
    t = C.Toks(ctx.driver.ask('c10.tosurface ' + enc))
    t.tok()
    mn = t.lst(t.nat)
    mtri = t.lst(lambda: (t.nat(), t.lst(t.nat)))
    mquad = t.lst(lambda: (t.nat(), t.lst(t.nat)))
    impl = (obs['surf_nodes'], [(i, r) for i, r in zip(*obs['surf_blocks'].get('tri', ([], [])))],
            [(i, r) for i, r in zip(*obs['surf_blocks'].get('quad', ([], [])))])
    if (mn, mtri, mquad) != impl:
        ctx.disagree('to_surface() nodes / elements', case, [x[:4] for x in impl], [mn[:4], mtri[:4], mquad[:4]])
    want_pos = [[float(v) for v in p] for i, p in m['nodes'] if i in set(obs['surf_nodes'])]
    if obs['surf_node_pos'] != want_pos:
        ctx.disagree('to_surface() node coordinates', case, obs['surf_node_pos'][:3], want_pos[:3])
    if 'fistr' in obs:
        t = C.Toks(ctx.driver.ask('c10.fistr ' + enc))
        t.tok()
        mf = U.parse_faces(t)
        if mf != obs['fistr']:
            ctx.disagree('extract_surface_fistr() rows', case, obs['fistr'][:8], mf[:8])
    # OBJ: text, and the real reader on the text emitted by the model
    verts = [[repr(float(v)) for v in p] for _, p in m['nodes']]
    line = 'c10.obj ' + enc + ' ' + C.enc_list(verts, lambda r: C.enc_list(r, C.esc))
    t = C.Toks(ctx.driver.ask(line))
    t.tok()
    text = C.unesc(t.tok())
    if text != obs['obj_text']:
        a, b = obs['obj_text'].splitlines(), text.splitlines()
        k = next((i for i, (x, y) in enumerate(zip(a, b)) if x != y), min(len(a), len(b)))
        ctx.disagree('.obj text', case, a[k:k + 2], b[k:k + 2])
    hyp = t.nat()
    ctx.count('hypothesis of C10_obj_roundtrip_chars holds (vertsOKB): ' + ('yes' if hyp else 'NO'))
    if not hyp:
        ctx.disagree('generated case violates the Boolean hypothesis of C10_obj_roundtrip_chars', case, 'in-quantifier input',
                     'vertsOKB = false')
    if t.nat() != 1:
        ctx.disagree('.obj model re-read failed', case, 'ok', 'none')
    else:
        mv = t.lst(lambda: t.lst(lambda: C.unesc(t.tok())))
        mfaces = U.parse_faces(t)
        if text == obs['obj_text']:
            # the real reader has just read exactly this text (reference observation)
            rv = obs['obj_read_nodes'][1]
            rf = [r for tt in ('tri', 'quad') for r in obs['obj_read_elems'].get(tt, ([], []))[1]]
        else:
            import femio
            p2 = str(ctx.tmp / 'model.obj')
            open(p2, 'w').write(text)
            rd = G.quiet(femio.FEMData.read_files, 'obj', [p2])
            rv = rd.nodes.data.tolist()
            rf = [r for tt in ('tri', 'quad') for r in (U.rows(rd.elements[tt].data) if tt in rd.elements else [])]
        # the reader groups faces by shape; the model keeps file order = tri block then quad block
        if rv != [[float(x) for x in r] for r in mv] or rf != mfaces:
            ctx.disagree('.obj re-read (real reader on the model\'s text vs model reader)', case,
                         {'v': rv[:2], 'f': rf[:4]}, {'v': mv[:2], 'f': mfaces[:4]})
    # P: volumes and fluxes
    t = C.Toks(ctx.driver.ask('c10.flux ' + enc))
    t.tok()
    sflux, tvol = t.rat(), t.rat()
    per = t.lst(lambda: (t.nat(), t.rat(), t.rat()))
    tol_c, tol_l = tolerances(m)
    for e, vc, vl in per:
        if not U.close(vc, obs['vols']['centroid'][e], tol_c):
            ctx.disagree('volume kernel (centroid)', case, obs['vols']['centroid'][e], float(vc))
            break
        if not U.close(vl, obs['vols']['linear'][e], tol_l):
            ctx.disagree('volume kernel (linear)', case, obs['vols']['linear'][e], float(vl))
            break
    flags['flux_equals_volume'] = int(sflux == tvol)
    if flags['mirror_conforming'] and flags['closed_elements'] and flags['wf'] and sflux != tvol:
        # an instance of theorem C10_volume evaluated exactly by the model
        ctx.disagree('model: surface flux != total volume on a conforming mesh (C10_volume instance)', case, None,
                     [str(sflux), str(tvol)])
    X = U.coords_exact(m)
    surf = [[ids[k] for k in f] for f in obs['tri'] + obs['quad']]
    enclosed = sum(U.face_flux([X[i] for i in f]) for f in surf)
    if enclosed != sflux:
        ctx.disagree('flux of the real surface (exact) vs model surface flux', case, str(enclosed), str(sflux))
    flags['model_flux'] = sflux
    return flags


# ------------------------------------------------------------------ one case

COMBINATORIAL = ['tri', 'quad', 'surf_nodes', 'surf_blocks', 'surf_flat_ids', 'keep_nodes', 'keep_blocks', 'fistr', 'obj_read_elems']


def make_case(m, mod, seq, base=None):
    case = U.mesh_case(m, transform=m.get('transform'))
    if mod is not None:
        case['modification'] = mod
    if seq:
        case['history'] = list(seq)
    if base is not None:
        case['base_mesh'] = G.to_json(base)
    return case


def evaluate(ctx, m, mod=None, seq=None, base=None, clutter=None, per_op=True):
    """reference observations (fresh object per operation) judged by the oracle and the model, the history on the live
    object, the pair relation to the same mesh at the origin.  Returns (reference observations, model flags) or None."""
    from femio import FEMAttribute
    case = make_case(m, mod, seq, base[0] if base else None)
    key = (tuple(m['nodes']), tuple((t, tuple((e, tuple(c)) for e, c in b)) for t, b in m['blocks'].items()),
           repr(mod), tuple(seq or ()))
    prefix = 'history' if mod is None else 'modified:' + mod['kind']

    def body():
        U.stage('FEMData(nodes, elements)')
        live = U.fresh(m)
        nid = np.array([i for i, _ in m['nodes']])
        live.nodal_data['T'] = FEMAttribute('T', nid, np.arange(len(nid), dtype=float)[:, None] / 8 - 1, silent=True)
        cur = m
        if mod is not None:
            U.stage('modification ' + mod['kind'])
            apply_mod(live, mod)
            cur = state_mesh(live, m)
        return live, cur

    got = U.guarded(ctx, case, key, body)
    if got is None:
        return None
    live, cur = got
    if mod is not None and (not valid_mesh(cur) or mod['how'] == 'none'):
        ctx.count('modification not applicable to this mesh (case skipped)')
        return None
    obs = U.guarded(ctx, case, key, reference, ctx, cur, per_op)
    if obs is None:
        return None
    els = U.elem_list(cur)
    n_int = sum(len(G.FACES['tet' if t == 'tet2' else t]) for t, _, _ in els) - len(obs['tri']) - len(obs['quad'])
    ctx.case(key, sample={**G.describe(m), 'surface_tri': len(obs['tri']), 'surface_quad': len(obs['quad']),
                          'interior_face_slots': n_int, 'shape': m.get('shape', 'brick'), 'transform': m.get('transform'),
                          'modification': mod and mod['kind'], 'history': seq},
             nontrivial=n_int > 0 or len(els) == 1)
    ctx.count('kind:' + m['kind'])
    ctx.count('order:' + m['order'])
    ctx.count('ids:' + str(m.get('id_style')))
    ctx.count('jittered:' + str(m.get('jittered')))
    ctx.count('types:' + '+'.join(m['blocks']))
    ctx.count('shape:' + m.get('shape', 'brick'))
    ctx.count('transform:' + str(m.get('transform')) + ('' if not m.get('transform') else
                                                       ' (exact)' if m.get('transform_exact') else ' (rounded)'))
    ctx.count('modification:' + (f"{mod['kind']}/{mod['how']}" if mod else 'none'))
    if m.get('n_unref'):
        ctx.count('has-unreferenced-nodes')
    flags = None
    if ctx.driver is not None:
        flags = correspond(ctx, cur, obs, case)
        if flags is not None and not (flags['wf'] and flags['closed_elements'] and flags['mirror_conforming']):
            # the generator only produces conforming meshes (validated in meshgen): a false hypothesis means the
            # regenerated tables / the model changed, not that the input is outside the theorem - keep the oracle on
            ctx.disagree('a theorem hypothesis evaluates to false on a generator-conforming mesh', case, None, flags)
    oracle(ctx, cur, obs, case)
    if seq:
        U.guarded(ctx, case, key, history, ctx, live, obs, seq, case, prefix, clutter)
    if base is not None:
        # the same mesh at the origin: everything combinatorial is identical (B: translated / scaled result = result at
        # the origin transformed; the coordinates themselves are compared bit-exactly by the oracle above)
        bobs, bflags, (label, scale, shift) = base[1], base[2], base[3]
        for k in COMBINATORIAL:
            if obs.get(k) != bobs.get(k):
                ctx.fail(f'scale-offset:{FIELD.get(k, k)}', f'{k} of the mesh after "{label}" differs from the result for the same '
                         'mesh at the origin', case, {'field': k, 'moved': str(obs.get(k))[:300], 'origin': str(bobs.get(k))[:300]})
                break
        if [ln for ln in obs['obj_text'].splitlines() if ln.startswith('f ')] != \
                [ln for ln in bobs['obj_text'].splitlines() if ln.startswith('f ')]:
            ctx.fail('scale-offset:obj-f-lines', f'the f lines of the .obj file after "{label}" differ from those at the origin', case, None)
        if flags is not None and bflags is not None and m.get('transform_exact'):
            # instance of C10_flux_similarity / C10_enclosed_volume_translate: an exact map p -> s p + t multiplies the
            # enclosed volume by s^3
            if flags['model_flux'] != bflags['model_flux'] * F(scale) ** 3:
                ctx.disagree('model: enclosed volume of the scaled / translated mesh != s^3 * enclosed volume at the origin '
                             '(C10_flux_similarity, C10_enclosed_volume_translate instance)',
                             case, None, [str(flags['model_flux']), str(bflags['model_flux'])])
    return obs, flags


def draw_history(rnd, m, quick):
    ops = available_ops(m)
    seq = rnd.sample(ops, len(ops))
    for _ in range(2 if quick else rnd.randint(2, 5)):
        seq.insert(rnd.randint(1, len(seq)), rnd.choice(ops))
    return seq


def run(ctx):
    rnd = ctx.rng
    n = ctx.n(126, 1800) if ctx.driver is not None else ctx.n(200, 900)
    for name, obj in C.corpus_cases(PROP):
        try:
            replay(ctx, obj)
            ctx.count('corpus')
        except Exception as e:  # noqa
            ctx.notes.append(f'corpus case {name}: {e!r}')
    clutter = 'v 0.0 0.0 0.0\nv 1.0 0.0 0.0\nv 0.0 1.0 0.0\nv 0.0 0.0 1.0\nf 1 3 2\nf 1 2 4\nf 2 3 4\nf 1 4 3\n'
    n_tr = n_mod = 0
    for k in range(n):
        kind = KINDS[k % len(KINDS)]
        j = k // len(KINDS)                       # fixed schedule of shapes per kind
        if j % 10 == 2:
            m = gen_single(ctx, kind)
        elif j % 7 == 4:
            # fixed rotation of the partner kind: every unordered pair of kinds (tet | tet2 included) occurs in every run
            m = gen_components(ctx, kind, KINDS[(k % len(KINDS) + 1 + 2 * (j // 7)) % len(KINDS)])
        elif j % 21 == 6 and not (ctx.quick and kind in ('tet', 'tet2')):
            m = gen_void(ctx, kind)
        else:
            m = gen(ctx, kind, big=(not ctx.quick and k % 5 == 0))
        m.setdefault('shape', 'brick')
        if k % 3 == 1 and m['shape'] != 'components':
            m = renumber(rnd, m)
        mod = None
        if k % 4 == 2:
            mod = plan_mod(rnd, m, MOD_KINDS[n_mod % len(MOD_KINDS)])
            n_mod += 1
        res = evaluate(ctx, m, mod=mod, seq=draw_history(rnd, m, ctx.quick), clutter=clutter,
                       per_op=(not ctx.quick) or k % 3 == 2 or mod is not None)
        if res is not None and res[0].get('obj_text'):
            clutter = res[0]['obj_text']
        if k % 3 == 0 and mod is None and res is not None and not (ctx.quick and m['shape'] == 'void'):
            tr = TRANSFORMS[n_tr % len(TRANSFORMS)]
            n_tr += 1
            m2 = transform(m, *tr)
            # an exact similarity keeps every element valid; after rounding the validity is re-decided exactly
            if m2['transform_exact'] or valid_mesh(m2):
                evaluate(ctx, m2, seq=draw_history(rnd, m2, True)[:3], base=(m, res[0], res[1], tr), clutter=clutter,
                         per_op=not ctx.quick)
            else:
                ctx.count('transform:rounding made an element invalid (skipped)')
    ctx.extra['p_tie'] = {'tolerance_centroid': U.TOL_CENTROID, 'tolerance_linear': U.TOL_LINEAR,
                          'scale': 'centroid: P^3, linear: D^3 (+ 64 eps P D^2), P = max|coordinate|, D = extent (referenced nodes)',
                          'points': 'rational grid, denominators <= 64, |p| <= ~20; scale / offset stream: the float64 '
                                    'roundings of s * p + t (full mantissas), |p| up to 2e7'}


def replay(ctx, obj):
    inp = obj['input'] if 'input' in obj else obj
    m = G.from_json(inp['mesh'])
    if inp.get('transform'):
        m['transform'] = inp['transform']
    n0 = len(ctx.failures)
    d0 = len(ctx.disagreements)
    base = None
    if inp.get('base_mesh'):
        b = G.from_json(inp['base_mesh'])
        r = evaluate(ctx, b)
        tr = next((t for t in TRANSFORMS if t[0] == inp.get('transform')), ('?', 1.0, (1, 1, 1)))
        if r is not None:
            m['transform_exact'] = transform(b, *tr)['nodes'] == m['nodes'] and transform(b, *tr)['transform_exact']
            base = (b, r[0], r[1], tr)
    res = evaluate(ctx, m, mod=inp.get('modification'), seq=inp.get('history'), base=base,
                   clutter='v 0.0 0.0 0.0\nv 1.0 0.0 0.0\nv 0.0 1.0 0.0\nf 1 2 3\n')
    out = {'describe': G.describe(m), 'modification': inp.get('modification'), 'history': inp.get('history'),
           'failures': [{'signature': f['signature'], 'what': f['what'], 'observed': f['observed']} for f in ctx.failures[n0:]],
           'fails': len(ctx.failures) > n0}
    if res is not None:
        out.update(surface_tri=res[0]['tri'][:10], surface_quad=res[0]['quad'][:10])
    if ctx.driver is not None:
        out['model_disagreements'] = [{'what': d['what'], 'impl': d['impl'], 'model': d['model']} for d in ctx.disagreements[d0:]]
    return out
