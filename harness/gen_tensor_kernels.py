"""Symbolic-execution translator for the tensor helpers (tie S of C17, DESIGN.md 2.3b): the real
`convert_array2symmetric_matrix`, `convert_symmetric_matrix2array`, `calculate_symmetric_matrices_from_eigens`,
`calculate_array_from_eigens`, `calculate_principal_components` (femio/functions.py) and `convert_lte_global2local`,
`convert_lte_local2global` (femio/signal_processor.py) of the CURRENT working tree are *executed* (the source is never
parsed) on ONE tensor whose components are symbols (class `Sym` of gen_kernels.py: exact polynomials with Fraction
coefficients in numpy object arrays).  What comes back is, per helper and option combination, the exact polynomial map
the code computes; it is emitted as

    def tArr2Mat_e1_o2 {R : Type} [Field R] (v0 ... v5 : R) : List R := [<9 polynomials with rational coefficients>]

into lean/Femio/Gen/TensorKernels.lean (deterministic text: an unchanged tree regenerates a byte-identical file and
nothing is rebuilt).  `Femio/Props/TensorTie.lean` proves over EVERY field that the hand-written model function of
Model/Tensor.lean (instantiated with the index tables tabulated by gen_tables.py) returns exactly this list
(`TT_<kernel>`, by unfolding and `ring`): the kernel re-checks on every run that the model the C17 theorems are about
IS what the code computes now.

What is replaced while tracing (trusted; everything is restored afterwards):
  * `np.linalg.eigh` inside femio.functions / femio.signal_processor -> a stub that records its argument and returns
    fresh symbols `(w, V)` of the right shape (eigenvalues ascending, eigenvectors in the columns of V is the
    POST-CONDITION the C17 theorems assume; the stub only supplies names for them).  Everything the helpers do before
    and after `eigh` (building the matrix, reversing to descending order, the right-handed third axis, `einsum`,
    reshapes, concatenations) is numpy's own code acting on object arrays.
  * `print` output of femio is swallowed.
Not traced: `invert_strain` (1 / (1 + w) is not a polynomial; it is `calculate_principal_components` followed by
`calculate_array_from_eigens`, both traced), `align_nnz` (scipy.sparse rejects object arrays) - ties T / P / D of C17
remain their ties.  A kernel that cannot be traced is recorded as `untraceable` with the reason and keeps its last good
polynomials from Gen/tensor_kernels.json (so that the module builds); that is not an alarm by itself.
"""
import contextlib
import io
import json
import time
import traceback
from fractions import Fraction

import numpy as np

from . import common as C
from .gen_kernels import Sym

# component orders at which the two converters are traced: identity, reversal (an involution), a product of two
# 3-cycles, a permutation that is not its own inverse and mixes normal with shear slots
ORDERS = [[0, 1, 2, 3, 4, 5], [5, 4, 3, 2, 1, 0], [1, 2, 0, 4, 5, 3], [3, 5, 1, 0, 2, 4]]

PATCHED = ['np.linalg.eigh -> stub returning fresh symbols (w, V) and recording its argument',
           'print output swallowed']


def _vars(n, off=0):
    a = np.empty(n, dtype=object)
    for k in range(n):
        a[k] = Sym.var(off + k)
    return a


class _Eigh:
    """records the argument; returns symbols: w = v[off .. off+3), V (row-major) = v[off+3 .. off+12)"""

    def __init__(self, off):
        self.off = off
        self.arg = None

    def __call__(self, m, *a, **k):
        self.arg = m
        return _vars(3, self.off).reshape(1, 3).copy(), _vars(9, self.off + 3).reshape(1, 3, 3).copy()


class _LinalgProxy:
    def __init__(self, eigh):
        self.eigh = eigh

    def __getattr__(self, k):
        return getattr(np.linalg, k)


class _NpProxy:
    def __init__(self, eigh):
        self.linalg = _LinalgProxy(eigh)

    def __getattr__(self, k):
        return getattr(np, k)


@contextlib.contextmanager
def _patched(module, eigh):
    old = module.np
    module.np = _NpProxy(eigh)
    try:
        with contextlib.redirect_stdout(io.StringIO()):
            yield
    finally:
        module.np = old


def _poly(x):
    """a result entry as {monomial: Fraction} (numbers are lifted)"""
    s = Sym.lift(x)
    if s is None:
        raise TypeError(f'result entry is not a polynomial: {x!r}')
    return {m: c for m, c in s.t.items() if c != 0}


def _flat(a):
    return [_poly(x) for x in np.asarray(a, dtype=object).reshape(-1)]


def _mesh():
    import femio
    with contextlib.redirect_stdout(io.StringIO()):
        return femio.FEMData(
            nodes=femio.FEMAttribute('NODE', np.array([11, 12, 13, 14]), np.eye(4)[:, :3]),
            elements=femio.FEMElementalAttribute('ELEMENT', {
                'tet': femio.FEMAttribute('tet', np.array([7]), np.array([[11, 12, 13, 14]]))}))


def kernel_table():
    """[(name, arity, tracer)] - tracer() returns the list of result polynomials"""
    from femio import functions as F
    from femio import signal_processor as SP
    tab = []
    for e in (0, 1):
        for o, order in enumerate(ORDERS):
            def a2m(e=e, order=order):
                a = _vars(6).reshape(1, 6)
                keep = a.copy()
                r = F.convert_array2symmetric_matrix(a, from_engineering=bool(e), order=None if order == ORDERS[0] else list(order))
                if not all(x is y for x, y in zip(a.reshape(-1), keep.reshape(-1))):
                    raise RuntimeError("the caller's array was modified")
                if r.shape != (1, 3, 3):
                    raise RuntimeError(f'shape {r.shape}')
                return _flat(r)

            def m2a(e=e, order=order):
                m = _vars(9).reshape(1, 3, 3)
                r = F.convert_symmetric_matrix2array(m, to_engineering=bool(e), order=None if order == ORDERS[0] else list(order))
                if r.shape != (1, 6):
                    raise RuntimeError(f'shape {r.shape}')
                return _flat(r)
            tab.append((f'tArr2Mat_e{e}_o{o}', 6, a2m))
            tab.append((f'tMat2Arr_e{e}_o{o}', 9, m2a))

    def from_eigens():
        r = F.calculate_symmetric_matrices_from_eigens(_vars(3).reshape(1, 3), _vars(9, 3).reshape(1, 9))
        if r.shape != (1, 3, 3):
            raise RuntimeError(f'shape {r.shape}')
        return _flat(r)
    tab.append(('tFromEigens', 12, from_eigens))
    for e in (0, 1):
        def afe(e=e):
            r = F.calculate_array_from_eigens(_vars(3).reshape(1, 3), _vars(9, 3).reshape(1, 9), to_engineering=bool(e))
            if r.shape != (1, 6):
                raise RuntimeError(f'shape {r.shape}')
            return _flat(r)
        tab.append((f'tArrayFromEigens_e{e}', 12, afe))

    def principal():
        eigh = _Eigh(0)
        with _patched(F, eigh):
            vals, dirs, vecs = F.calculate_principal_components(_vars(6, 12).reshape(1, 6))
        if (vals.shape, dirs.shape, vecs.shape) != ((1, 3), (1, 9), (1, 9)):
            raise RuntimeError(f'shapes {vals.shape} {dirs.shape} {vecs.shape}')
        return _flat(vals) + _flat(dirs) + _flat(vecs)
    tab.append(('tPrincipalPost', 12, principal))

    for e in (0, 1):
        def principal_in(e=e):
            eigh = _Eigh(6)
            with _patched(F, eigh):
                F.calculate_principal_components(_vars(6).reshape(1, 6), from_engineering=bool(e), order=list(ORDERS[3]))
            if eigh.arg is None or np.shape(eigh.arg) != (1, 3, 3):
                raise RuntimeError('eigh was not called with one 3x3 matrix')
            return _flat(eigh.arg)
        tab.append((f'tPrincipalEighArg_e{e}', 6, principal_in))

    def lte_matrix():
        eigh = _Eigh(6)
        fd = _mesh()
        with _patched(SP, eigh):
            fd.elemental_data.update_data(np.array([7]), {'lte_full': _vars(6).reshape(1, 6)})
            fd.convert_lte_global2local()
        if eigh.arg is None or np.shape(eigh.arg) != (1, 3, 3):
            raise RuntimeError('eigh was not called with one 3x3 matrix')
        return _flat(eigh.arg)
    tab.append(('tLteMatrix', 6, lte_matrix))

    def lte_g2l_post():
        eigh = _Eigh(0)
        fd = _mesh()
        with _patched(SP, eigh):
            fd.elemental_data.update_data(np.array([7]), {'lte_full': _vars(6, 12).reshape(1, 6)})
            fd.convert_lte_global2local()
            ws = fd.elemental_data.get_attribute_data('linear_thermal_expansion_coefficient')
            orient = fd.elemental_data.get_attribute_data('ORIENTATION')
        if (np.shape(ws), np.shape(orient)) != ((1, 3), (1, 9)):
            raise RuntimeError(f'shapes {np.shape(ws)} {np.shape(orient)}')
        return _flat(ws) + _flat(orient)
    tab.append(('tLteGlobal2LocalPost', 12, lte_g2l_post))

    def lte_l2g():
        fd = _mesh()
        with _patched(SP, _Eigh(100)):
            fd.elemental_data.update_data(np.array([7]), {'lte': _vars(3).reshape(1, 3), 'orient': _vars(9, 3).reshape(1, 9)})
            fd.convert_lte_local2global()
            full = fd.elemental_data.get_attribute_data('linear_thermal_expansion_coefficient_full')
        if np.shape(full) != (1, 6):
            raise RuntimeError(f'shape {np.shape(full)}')
        return _flat(full)
    tab.append(('tLteLocal2Global', 12, lte_l2g))
    return tab


def trace_all():
    polys, untraceable, traced = {}, {}, []
    for name, arity, fn in kernel_table():
        try:
            comps = fn()
            bad = [m for c in comps for m in c if any(v >= arity for v in m)]
            if bad:
                raise RuntimeError(f'result mentions a symbol outside the {arity} inputs: {bad[0]}')
            polys[name] = {'arity': arity, 'comps': [sorted(([list(m), c.numerator, c.denominator] for m, c in comp.items()))
                                                    for comp in comps]}
            traced.append(name)
        except C.Timeout:
            raise
        except Exception as e:  # noqa
            untraceable[name] = (f'{type(e).__name__}: {e}'[:300] + ' | ' + traceback.format_exc().strip().splitlines()[-3].strip()[:200])
    return polys, {'traced': traced, 'untraceable': untraceable}


def _render_term(m, num, den):
    body = ' * '.join(f'v{k}' for k in m)
    a = abs(num)
    if den == 1:
        coef = '' if (a == 1 and body) else str(a)
    else:
        coef = f'({a} / {den} : R)'
    return ' * '.join(x for x in (coef, body) if x) or '0'


def render_poly(comp):
    if not comp:
        return '0'
    out = ''
    for i, (m, num, den) in enumerate(comp):
        t = _render_term(m, num, den)
        if i == 0:
            out = ('-' if num < 0 else '') + t
        else:
            out += (' - ' if num < 0 else ' + ') + t
    return out


def render(polys, order):
    out = ['import Mathlib.Algebra.Field.Defs',
           '/-! GENERATED from the working tree of the femio repository by harness/gen_tensor_kernels.py on every run (symbolic',
           '    execution of the real tensor helpers of femio/functions.py and femio/signal_processor.py) - do not edit.',
           '    One list of polynomials (rational coefficients) per helper x option combination. -/',
           'set_option linter.unusedVariables false', 'namespace Femio.Gen', '']
    for name in order:
        p = polys[name]
        args = ' '.join(f'v{k}' for k in range(p['arity']))
        out.append(f'def {name} {{R : Type}} [Field R] ({args} : R) : List R :=')
        comps = [render_poly(c) for c in p['comps']]
        out.append('  [' + ',\n   '.join(comps) + ']')
        out.append('')
    out += ['end Femio.Gen', '']
    return '\n'.join(out)


def generate():
    """returns (changed, info): traced / untraceable (name -> reason) / stale (emitted from the last good polynomials)"""
    t0 = time.time()
    polys, info = trace_all()
    order = [k[0] for k in kernel_table()]
    gen = C.LEAN / 'Femio' / 'Gen'
    cache = gen / 'tensor_kernels.json'
    last = json.loads(cache.read_text()) if cache.exists() else {}
    stale = []
    for name in order:
        if name not in polys:
            if name not in last:
                raise RuntimeError(f'kernel {name} could not be traced ({info["untraceable"].get(name)}) and no last good '
                                   f'polynomial exists in {cache}')
            polys[name] = last[name]
            stale.append(name)
    txt = render(polys, order)
    f = gen / 'TensorKernels.lean'
    changed = (not f.exists()) or f.read_text() != txt
    with C.build_lock():
        if changed:
            f.write_text(txt)
        js = json.dumps({k: polys[k] for k in order}, indent=0, sort_keys=True)
        if not cache.exists() or cache.read_text() != js:
            cache.write_text(js)
    info.update(stale=stale, patched=PATCHED, changed=changed, kernels=order, orders=ORDERS,
                not_traced_by_design=['invert_strain (rational; = principal components + array_from_eigens, both traced)',
                                      'align_nnz (scipy.sparse rejects object arrays)'],
                trace_s=round(time.time() - t0, 2))
    return changed, info


if __name__ == '__main__':
    ch, inf = generate()
    print('changed' if ch else 'unchanged', {k: v for k, v in inf.items() if k not in ('kernels', 'patched', 'traced')})
    print('traced', len(inf['traced']), 'of', len(inf['kernels']))
