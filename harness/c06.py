"""C06 - legacy VTK export describes the same mesh when read back by meshio (DESIGN.md section 4, C06).

Tie T: `femioToMeshio`, `meshioToFemio`, `tet2ToMeshio`, `tet2FromMeshio`, `elementTypes` regenerated from the tree
(theorems `C06_type_table`, `C06_tet2_perms_inverse`, `C06_tet2_edges` by kernel `decide`).
Tie D: the real `FEMData.write('vtk', f)` followed by `meshio.read(f)` (independent parser) is compared with
`Femio.Meshio.toMeshio` (`c06.to_meshio`): points in storage order, cell blocks (meshio type, zero-based rows),
point data.
Oracle: the statement of the property from ids, with hand specifications that are not femio code (the VTK cell
type of each shape, VTK's mid-edge order of the quadratic tetrahedron; for geometric tet2 meshes additionally
"point 4+k of a cell is the midpoint of the corners of VTK edge k").
Separately labelled streams: nodal variables whose own id order differs from the mesh (`misaligned:*`), element
types outside the property's list (`outside:*`).
Stream `updated` (inside the quantifier, reported through `fail`): the generated mesh object goes through a public
update of its nodes before the export (`nodes.update(ids of existing nodes, their own coordinates,
allow_overwrite=True)`: same mesh, but femio may re-sort the storage order); the mesh handed to the model and to the
oracle is the one the object reports after the update (`fd.nodes.ids`, `fd.nodes.data`), the nodal variables are
attached afterwards in that order.
Stream `history` (inside the quantifier, reported through `fail`; round-3 lessons A, C, D, E): ONE LIVE OBJECT is modified
through public means (in-place edits through the arrays returned by `.data` / `.values` and through the arrays the caller
handed to femio, `data` setter / `update_data`, `loc` / `iloc` write-through, `update` / `update_data(allow_overwrite=True)`,
`overwrite`, new / popped / re-attached variables, `elements.update({...})` with re-connected, dropped, added rows and new
type blocks, new nodes, node ids replaced through the `ids` setter), queried (`to_meshio()`, `ids2indices` in its dict /
array / object forms, another writer, `to_first_order`, cached graph queries ...) and exported SEVERAL times (to a new file, into a
directory that does not exist yet, over the previous file / a longer pre-existing VTK file with overwrite=True, through
`to_meshio()` + `meshio.write`).  The mesh of the property at an export is the object's CURRENT PUBLIC STATE, copied out of the
object just before the export; per export: oracle + model on that snapshot, the export leaves the user data of the object, the
caller's arrays and everything earlier calls returned bit-identical, two exports with nothing in between give identical
files; at the end an independently constructed fresh object with the same content gives the same file.  The hypothesis of
the Lean history theorems (`Coherent`: nodes.id2index = enumerate(nodes.ids)) is evaluated on the live object before every
export.  Mesh dimensions added there: tet + quad in one mesh, exactly one element, tet2 next to other types, gapped small
node / element ids, element ids interleaving the types, non-canonical insertion order of the element types (also produced
dynamically by `elements.update`), variable names that are prefixes of each other.  corpus/C06: minimised past failures.
"""
import contextlib
import io
from fractions import Fraction as F

import numpy as np

from . import common as C
from . import meshgen as G

PROP = 'C06'
LEAN_MODULES = ['Femio.Props.C06']
THEOREMS = ['C06_index_translation', 'C06_export_succeeds', 'C06_type_table', 'C06_tet2_perms_inverse',
            'C06_tet2_edges', 'C06_point_data', 'C06_history_export', 'C06_history_coherent', 'C06_export_after_history',
            'C06_exports_invisible', 'C06_ids_setter_counterexample']
PARTIAL = []
RULE = ('meshes over the eight types the property names (line, tri, quad, tet, tet2, pyr, prism, hex): combinatorial '
        '(arbitrary connectivity, 1-8 types mixed) and geometric (conforming bricks, tet meshes promoted to tet2 with exact '
        'mid-edge nodes); node ids dense / sparse / ~1e6 / ~2e9 / prefix-like in ascending / descending / shuffled storage order, '
        'unreferenced nodes; 1-4 nodal variables of rank 1-2 (widths 1, 2, 3, 6, 9; float and int) plus rank-3 ones (which the '
        'export drops by design); in 35% of the cases a share of the variables is stored under a dict key that differs from '
        'its FEMAttribute.name (one name shared by several keys, the key of another variable, a fresh name; attached by '
        'nodal_data[key] = attribute, update({key: attribute}) or set_attribute_data(key, data, name=...)): the point-data name '
        'is the KEY; a case is one mesh + variables written with write("vtk") and read with meshio.read; '
        'non-trivial when the storage order is not 1..n ascending (ids differ from positions + 1); stream "updated": the same '
        'meshes after nodes.update(subset or permutation of the existing ids, the same coordinates, allow_overwrite=True) on the '
        'object (histories construct -> update -> export; the mesh compared is the one the object reports after the update); '
        'stream "history": one live object per case goes through 2-8 steps drawn from {public modification (in-place through '
        '.data / .values / the caller\'s own array, data setter, loc / iloc write-through, update / update_data / overwrite, '
        'variables added / popped, elements.update with re-connected / dropped / added rows and new type blocks, new nodes, ids '
        'setter), other query (to_meshio, ids2indices forms, UCD writer, to_first_order, cached graph queries), export (write("vtk") '
        'or to_meshio() + meshio.write; new file / new directory / overwrite=True over the previous or a longer file)} with the '
        'patterns [export, export], [export, modify, export], [modify, export], [query, export]; every export is judged against a '
        'snapshot of the object\'s current public state taken just before it, must leave the object / caller arrays / earlier results '
        'bit-identical, must repeat identically, and the last one must equal the export of a fresh object with the same content; '
        'meshes there additionally: tet + quad together, one single element, tet2 beside other types, gapped small ids (2-3 dense '
        'ranges separated by about n), element ids interleaving the types, element types inserted in non-canonical order, '
        'variable names that are prefixes of each other; a history is non-trivial when it contains an export')
ASSUMPTIONS = [
    'the VTK file encoding (binary legacy VTK 5.1) is meshio\'s, on both sides; meshio pads 2-component point data with a '
    'zero third component and reads (n,1) arrays back as (n,): compared up to that',
    'VTK node order of the first-order cells equals femio\'s order (line, triangle, quad, tetra, pyramid, wedge, hexahedron: '
    'hand specification from the VTK file-format document; femio\'s prism has the outward-pointing base triangle first, as VTK_WEDGE)',
    'variable names are plain identifiers',
    'history stream: the mesh of the property at an export is the object\'s current public state as reported by nodes.ids / nodes.data, '
    'the per-type blocks elements[t].ids / .data and nodal_data[k].ids / .data (the arrays a user reads and edits); after an in-place '
    'edit through .data femio\'s second view (.data_frame, .loc) and the aggregate elements.data may lag behind - the export is held to '
    'the .data view, which is the one the unchanged exporter reads',
    'history stream: "the export does not modify the object" covers user data only (ids, both views of the data of nodes / element blocks / '
    'nodal variables, container orders, caller arrays, earlier results); derived tables (id2index, aggregate element view) may be '
    'refreshed by an export',
    'history stream: nodal variables whose own id order differs from the nodes (e.g. after variable.update re-sorted it) are exported '
    'positionally by design (DESIGN F9 class): labelled, their values not asserted; objects whose variables do not have one row per '
    'node are outside the quantifier (labelled, nothing asserted); a public modifier that raises ends the history without a verdict',
]
TRUSTED = ['C06: hand specifications in harness/c06.py (VTK cell-type names/numbers, VTK quadratic-tetra edge order) and '
           'in Props/C06.lean (vtkCellType, vtkTet2Edges, fistrTet2Edges)',
           'C06: meshio 5.3.5 VTK writer and reader (the independent reader the property names)']

TYPES = ['line', 'tri', 'quad', 'tet', 'tet2', 'pyr', 'prism', 'hex']
SPEC_NAME = {'line': 'line', 'tri': 'triangle', 'quad': 'quad', 'tet': 'tetra', 'tet2': 'tetra10', 'pyr': 'pyramid',
             'prism': 'wedge', 'hex': 'hexahedron'}
VTK_TET2_EDGES = [(0, 1), (1, 2), (0, 2), (0, 3), (1, 3), (2, 3)]      # vtkQuadraticTetra
FISTR_TET2_EDGES = G.TET2_EDGES                                         # femio / FrontISTR 342
ERR = {ValueError: 'value', KeyError: 'key', IndexError: 'index', NotImplementedError: 'other'}
T_IDX = {t: i for i, t in enumerate(G.ELEMENT_TYPES)}
SHAPES = [(), (1,), (2,), (3,), (6,), (9,), (3, 3)]


def gen_mesh(rnd, quick=True, types_pool=None):
    r = rnd.random()
    if r < .3 and types_pool is None:
        kind = rnd.choice(['tet', 'tet', 'hex', 'mixed', 'pyr', 'prism'])
        m = G.gen_geometric(rnd, kind=kind, max_cells=2)
        if kind == 'tet' and rnd.random() < .7:
            m = G.promote_tet2(rnd, m)
            m['geometric_tet2'] = True
    else:
        pool = types_pool or TYPES
        types = rnd.sample(pool, rnd.randint(1, min(len(pool), rnd.choice([1, 2, 3, 8]))))
        m = G.gen_combinatorial(rnd, types=types, max_elems=10 if quick else 40)
    m['nodes'] = [(i, tuple(F(float(x)) for x in p)) for i, p in m['nodes']]
    return m


# dtype dimension (round 4, class F): the point data of the file must hold the same VALUES as the variable, whatever dtype
# the variable has and whatever dtype the file uses (compared as Python ints / exact binary fractions)
INT_DTYPES = ['int8', 'int16', 'int32', 'int64', 'uint8', 'uint16', 'uint32', 'uint64']
DTYPES = INT_DTYPES + ['int64', 'int64', 'int64', 'uint64', 'float32', 'float32', 'float64']
# dtypes for which the legacy-VTK writer of meshio (the encoding both sides of the property use) has no encoding at all:
# the export raises KeyError inside meshio.write; labelled stream, nothing asserted unless the export succeeds
NOT_ENCODABLE = {'bool', 'float16'}
PROFILES = ['both-ends', 'both-ends', 'low-end', 'high-end', 'beyond-int32-low', 'beyond-int32-high', 'small']
LAYOUTS = ['C', 'C', 'F', 'strided', 'readonly']


def _int_value(rnd, dt, profile):
    ii = np.iinfo(dt)
    lo, hi = int(ii.min), int(ii.max)
    small = [0, 1, 2, 3, 100, rnd.randint(0, 120)] + ([-1, -2, -rnd.randint(0, 120)] if lo < 0 else [])
    low = [lo, lo + 1, lo + rnd.randint(0, 1000)] if lo < 0 else [0]
    high = [hi, hi - 1, hi - rnd.randint(0, 100)]
    b_low = [-2**31 - 1, -2**31 - rnd.randint(1, 10**6), -3 * 10**9, -2**32, -2**32 - 1, -2**53 - 1, -2**62, lo]
    b_high = [2**31, 2**31 + rnd.randint(0, 10**6), 2**32 - 1, 2**32, 5 * 10**9, 2**53 + 1, 2**62 + 1, 2**63 - 1, hi]
    edge32 = [2**31 - 1, -2**31, 2**31 - 2, -2**31 + 1, 2**15, -2**15 - 1, 2**16, 255, 256, -129, 128]
    pool = {'both-ends': low + high + edge32, 'low-end': low + small, 'high-end': high + small,
            'beyond-int32-low': b_low + small + [2**31 - 1], 'beyond-int32-high': b_high + small + [-2**31],
            'small': small}[profile]
    pool = [x for x in pool if lo <= x <= hi]
    return rnd.choice(pool) if rnd.random() < .6 else rnd.choice([x for x in small if lo <= x <= hi])


def _typed_value(rnd, dt, profile):
    if dt == 'bool':
        return F(rnd.randint(0, 1))
    if dt in INT_DTYPES:
        return F(_int_value(rnd, dt, profile))
    if dt == 'float32':
        x = rnd.choice([rnd.randint(-4000, 4000) / rnd.choice([1, 2, 4, 8]), rnd.uniform(-1e3, 1e3), 3.4028234663852886e38,
                        -3.4028234663852886e38, 1.401298464324817e-45, 1.1754943508222875e-38, 16777217.0, 0.1, -0.0, 1e-30])
        return F(float(np.float32(x)))
    if dt == 'float16':
        return F(float(np.float16(rnd.choice([rnd.randint(-200, 200) / 4, 65504.0, 6e-8, 0.1]))))
    x = rnd.choice([rnd.randint(-4000, 4000) / rnd.choice([1, 2, 4, 8]), rnd.uniform(-1e3, 1e3), 1.7976931348623157e308, 5e-324,
                    -2.2250738585072014e-308, 0.1, 2.0**53 + 2, -(2.0**63), 1e-300, 4294967296.5])
    return F(float(x))


ID_DTYPES = ['uint64', 'uint32', 'int32', 'uint16', 'int16', 'uint8', 'int8', 'int64']
COORD_DTYPES = ['float32', 'float32', 'int64', 'int32', 'int16', 'uint8', 'uint64', 'int8', 'uint32']


def pick_dtypes(rnd, m):
    """dtype dimension of the mesh arrays: node ids / element ids / connectivity in any integer dtype that holds them
    (unsigned ones too), coordinates in float32 or an integer dtype (the mesh of the property is then the mesh with the
    coordinates as that dtype holds them: truncated towards zero, only when they stay inside the dtype's range).
    -> the mesh with `dtypes` and the coordinates as stored"""
    out = dict(m)
    dts = {}
    n_max = max(i for i, _ in m['nodes'])
    e_max = max(e for b in m['blocks'].values() for e, _ in b)
    fits = lambda top: [d for d in ID_DTYPES if top <= int(np.iinfo(d).max)]
    if rnd.random() < .6:
        dts['node_ids'] = rnd.choice(fits(n_max))
    if rnd.random() < .6:
        dts['conn'] = rnd.choice(fits(n_max))
    if rnd.random() < .4:
        dts['elem_ids'] = rnd.choice(fits(e_max))
    if rnd.random() < .5 and not m.get('geometric_tet2'):
        arr = np.array([[float(v) for v in p] for _, p in m['nodes']])
        dt = rnd.choice(COORD_DTYPES)
        if np.dtype(dt).kind in 'iu':
            t = np.trunc(arr)
            if not (t.min() >= int(np.iinfo(dt).min) and t.max() <= int(np.iinfo(dt).max) and np.abs(t).max() < 2**52):
                dt = 'float32'
        with np.errstate(all='ignore'):
            cast = arr.astype(dt)
        if np.all(np.isfinite(cast.astype(float))):
            dts['coords'] = dt
            out['nodes'] = [(i, tuple(F(int(x)) if cast.dtype.kind in 'iu' else F(float(x)) for x in row))
                            for (i, _), row in zip(m['nodes'], cast)]
    out['dtypes'] = dts
    return out


def not_encodable(vs):
    return sorted({v['dtype'] for v in vs if v.get('dtype') in NOT_ENCODABLE and len(v['shape']) < 2})


def gen_vars(rnd, m, misaligned=False, dtypes=True, encodable_only=False):
    nids = [i for i, _ in m['nodes']]
    out = []
    for k in range(rnd.randint(1, 4)):
        shape = rnd.choice(SHAPES)
        width = int(np.prod(shape)) if shape else 1
        integer = rnd.random() < .2
        rows = [[F(rnd.randint(-4000, 4000), 1 if integer else rnd.choice([1, 2, 4, 8])) for _ in range(width)] for _ in nids]
        out.append({'name': f'N{k}', 'shape': list(shape), 'ids': list(nids), 'rows': rows, 'int': integer})
    # drawn after the legacy values (an own generator forked off the stream), so that the cases of earlier rounds keep
    # their meshes / shapes for a given seed
    r2 = __import__('random').Random(rnd.getrandbits(48))
    for v in out if dtypes else []:
        if r2.random() < .5:
            dt, prof = r2.choice(DTYPES + (['float16', 'bool', 'bool'] if r2.random() < .08 else [])), r2.choice(PROFILES)
            if encodable_only and dt in NOT_ENCODABLE:
                dt = 'uint8'
            v.update(dtype=dt, profile=prof, int=dt in INT_DTYPES or dt == 'bool',
                     rows=[[_typed_value(r2, dt, prof) for _ in r] for r in v['rows']])
        if r2.random() < .3:
            v['layout'] = r2.choice(LAYOUTS)
    if misaligned:
        v = out[0]
        while len(v['ids']) > 1 and v['ids'] == nids:
            rnd.shuffle(v['ids'])
        v['misaligned'] = True
        v['shape'] = v['shape'] if len(v['shape']) < 2 else [9]
    if rnd.random() < .35:
        rename_some(rnd, out)
    # round 6 (seeded C06-12): variable names are arbitrary blank-free tokens, not identifiers - punctuation that a name
    # sanitiser would touch, and names that differ ONLY in such a character (they must stay different arrays in the file)
    if r2.random() < .3:
        style = r2.choice(PUNCT_NAMES)
        ren = {f'N{k}': nm for k, nm in enumerate(style)}
        for v in out:
            v['name'] = ren.get(v['name'], v['name'])
            if v.get('attr') in ren:
                v['attr'] = ren[v['attr']]
    return out


PUNCT_NAMES = [['sigma-xx', 'strain.eq', 'T[K]', 'u/L'], ['flux-x', 'flux.x', 'flux_x', 'flux:x'],
               ['von_Mises', 'von-Mises', 'vonMises', 'VON-MISES'], ['p+', 'p-', 'p', 'p#1']]


def rename_some(rnd, vs):
    """a share of the variables is stored in nodal_data under a dict KEY (v['name']: the variable's name for the user,
    hence the point-data name) that differs from its FEMAttribute.name (v['attr']): one name shared by several keys, the
    key of another variable, or a fresh name; attached through nodal_data[key] = attribute, nodal_data.update({key:
    attribute}) or nodal_data.set_attribute_data(key, data, name=...)"""
    keys = [v['name'] for v in vs]
    for v in vs:
        if rnd.random() < .65:
            others = [k for k in keys if k != v['name']]
            r = rnd.random()
            v['attr'] = 'S' if r < .45 else rnd.choice(others) if (r < .7 and others) else 'A' + v['name']
            v['how'] = rnd.choice(['setitem', 'update', 'set_attribute_data'])


def count_renames(ctx, vs, stream=''):
    ren = [v for v in vs if v.get('attr', v['name']) != v['name']]
    for v in ren:
        ctx.count(f'{stream}key != FEMAttribute.name: rank{len(v["shape"]) + 1} variable attached by {v["how"]}')
    low = [v.get('attr', v['name']) for v in vs if len(v['shape']) < 2]
    if len(set(low)) < len(low):
        ctx.count(f'{stream}key != FEMAttribute.name: cases with two keys (rank <= 2) sharing one attribute name')
    if any(v['attr'] in {w['name'] for w in vs} for v in ren):
        ctx.count(f'{stream}key != FEMAttribute.name: cases with an attribute named like another key')


def gen_update(rnd, m):
    """ids (existing nodes only) handed to nodes.update(..., allow_overwrite=True): a proper subset in random order, a
    single node, or all nodes in another order; the values are the nodes' own coordinates"""
    nids = [i for i, _ in m['nodes']]
    r = rnd.random()
    if r < .25:
        sub = [rnd.choice(nids)]
    elif r < .8:
        sub = rnd.sample(nids, rnd.randint(1, max(1, len(nids) - 1)))
    else:
        sub = rnd.sample(nids, len(nids))
    return sub


def update_nodes(fd, m, upd):
    """the public update (same coordinates); returns the mesh as the object reports it afterwards"""
    coords = dict(m['nodes'])
    G.quiet(fd.nodes.update, np.array(upd), np.array([[float(x) for x in coords[i]] for i in upd]), allow_overwrite=True)
    m2 = dict(m)
    m2['nodes'] = [(int(i), tuple(F(float(x)) for x in row)) for i, row in zip(fd.nodes.ids, np.asarray(fd.nodes.data))]
    return m2


def mesh_after_update(m, upd):
    return update_nodes(G.to_femio(m), m, upd)


def var_array(v):
    """the array the caller hands to femio: values `rows` in dtype v['dtype'] (default int64 / float64), memory layout
    v['layout'] (C-ordered, Fortran-ordered, a non-contiguous view of a wider array, read-only)"""
    dt = v.get('dtype') or ('int64' if v['int'] else 'float64')
    kind = np.dtype(dt).kind
    data = np.array([[bool(x) if kind == 'b' else int(x) if kind in 'iu' else float(x) for x in r] for r in v['rows']],
                    dtype=dt).reshape([len(v['ids'])] + list(v['shape']))
    lay = v.get('layout', 'C')
    if lay == 'F':
        data = np.asfortranarray(data)
    elif lay == 'strided':
        wide = np.zeros((2 * len(data) + 1,) + data.shape[1:], dtype=data.dtype)
        wide[1::2] = data
        data = wide[1::2]
    elif lay == 'readonly':
        data.setflags(write=False)
    return data


def exact_rows(a):
    """rows of an array read from the file as exact rationals (Python ints for the integer kinds: float() would round
    64-bit integers beyond 2^53)"""
    a = np.asarray(a)
    if a.dtype.kind in 'iub':
        return [[F(int(x)) for x in np.ravel(r)] for r in a]
    return [[F(float(x)) for x in np.ravel(r)] for r in a]


def build(m, vs, upd=None, keep=None):
    """`keep` (dict): filled with the arrays handed to femio (the caller's arrays), for the history stream"""
    from femio import FEMAttribute
    fd = G.to_femio(m) if (keep is None and not m.get('dtypes')) else to_femio_keep(m, {} if keep is None else keep)
    if upd is not None:
        update_nodes(fd, m, upd)
    for v in vs:
        data = var_array(v)
        if keep is not None:
            keep[('nodal', v['name'])] = data
        key, attr, how, nd = v['name'], v.get('attr', v['name']), v.get('how', 'setitem'), fd.nodal_data
        if how == 'set_attribute_data' and not (len(nd) and [int(i) for i in list(nd.values())[0].ids] == list(v['ids'])
                                                and nd.are_same_lengths()):
            how = 'setitem'      # set_attribute_data binds the rows to the ids of the first attribute
        if how == 'set_attribute_data':
            G.quiet(nd.set_attribute_data, key, data, name=attr)
        elif how == 'update':
            nd.update({key: FEMAttribute(attr, np.array(v['ids']), data, silent=True)})
        else:
            nd[key] = FEMAttribute(attr, np.array(v['ids']), data, silent=True)
    return fd


def run_real(ctx, m, vs, upd=None):
    import meshio
    f = ctx.tmp / 'c06.vtk'
    if f.exists():
        f.unlink()
    try:
        fd = build(m, vs, upd)
        with contextlib.redirect_stderr(io.StringIO()):     # meshio warns about 2-component vectors
            G.quiet(fd.write, 'vtk', str(f))
    except tuple(ERR) as e:
        return 'err', next(v for k, v in ERR.items() if isinstance(e, k))
    except Exception as e:  # noqa
        return 'err', 'exc:' + type(e).__name__
    mm = G.quiet(meshio.read, str(f))
    points = [[F(float(x)) for x in p] for p in np.asarray(mm.points)]
    cells = [(cb.type, [[int(k) for k in r] for r in cb.data]) for cb in mm.cells]
    pd = {k: exact_rows(v) for k, v in mm.point_data.items()}
    return 'ok', {'points': points, 'cells': cells, 'point_data': pd}


def model_line(m, vs):
    toks = ['c06.to_meshio', G.enc_mesh(m), str(len(vs))]
    for k, v in enumerate(vs):
        toks += [str(k), str(len(v['shape']) + 1), C.enc_list(v['ids']),
                 C.enc_list(v['rows'], lambda r: C.enc_list(r, C.enc_rat))]
    return ' '.join(toks)


def parse_model(rep, vs):
    t = C.Toks(rep)
    head = t.tok()
    if head == 'err':
        return 'err', t.tok()
    if head != 'ok':
        raise RuntimeError('driver: ' + rep[:200])
    points = t.lst(lambda: t.lst(t.rat))
    cells = []
    for _ in range(t.nat()):
        t.nat()
        name = C.unesc(t.tok())
        cells.append((name, t.lst(lambda: t.lst(t.nat))))
    pd = {}
    for _ in range(t.nat()):
        name = vs[t.nat()]['name']
        pd[name] = t.lst(lambda: t.lst(t.rat))
    assert t.done()
    return 'ok', {'points': points, 'cells': cells, 'point_data': pd}


def unpad(rows, width):
    """meshio pads 2-vectors with a zero third component"""
    if width == 2 and all(len(r) == 3 and r[2] == 0 for r in rows):
        return [r[:2] for r in rows]
    return rows


def compare(impl, model, vs):
    if impl[0] != model[0]:
        return [f'outcome {impl} vs {model}'[:200]]
    if impl[0] == 'err':
        return [] if impl[1] == model[1] else [f'exception class {impl[1]} vs {model[1]}']
    a, b = impl[1], model[1]
    diffs = []
    if a['points'] != b['points']:
        diffs.append('points')
    if a['cells'] != b['cells']:
        diffs.append('cells')
    width = {v['name']: (int(np.prod(v['shape'])) if v['shape'] else 1) for v in vs}
    apd = {k: unpad(r, width.get(k)) for k, r in a['point_data'].items() if k != 'NODE'}
    if apd != b['point_data']:
        diffs.append('point_data')
    return diffs


def oracle(m, vs, out):
    bad = []
    coords = {i: list(p) for i, p in m['nodes']}
    # points in storage order
    if out['points'] != [list(p) for _, p in m['nodes']]:
        bad.append(('points', 'points of the file differ from the node coordinates in storage order'))
        return bad
    pts = out['points']
    # one cell block per element type, one cell per element, right type, VTK node order, ids -> positions
    want_types = [SPEC_NAME[t] for t in m['blocks']]
    got_types = [c[0] for c in out['cells']]
    if got_types != want_types:
        bad.append(('cell-type', f'cell types {got_types} != {want_types}'))
        return bad
    for (t, b), (_, rows) in zip(m['blocks'].items(), out['cells']):
        if len(rows) != len(b):
            bad.append(('cell-count', f'{t}: {len(rows)} cells for {len(b)} elements'))
            continue
        for (e, c), row in zip(b, rows):
            want = list(c)
            if t == 'tet2':
                # VTK mid-edge node k sits on VTK edge k; femio stores the mid node of FrontISTR edge j at 4 + j
                want = c[:4] + [c[4 + FISTR_TET2_EDGES.index(tuple(sorted(ed)))] for ed in VTK_TET2_EDGES]
            if len(row) != len(want) or any(not (0 <= k < len(pts)) for k in row):
                bad.append(('index-range', f'{t} element {e}: row {row}'))
                break
            if [pts[k] for k in row] != [coords[n] for n in want]:
                bad.append(('index-translation', f'{t} element {e}: cell row {row} does not address the nodes {want}'))
                break
            if t == 'tet2' and m.get('geometric_tet2'):
                for k, (a, b2) in enumerate(VTK_TET2_EDGES):
                    mid = [(x + y) / 2 for x, y in zip(pts[row[a]], pts[row[b2]])]
                    if pts[row[4 + k]] != mid:
                        bad.append(('tet2-mid-edge', f'tet2 element {e}: point {4 + k} of the cell is not the midpoint of VTK edge {(a, b2)}'))
                        break
    # every nodal variable of rank <= 2 as point data, row k = value of the node stored at position k
    nids = [i for i, _ in m['nodes']]
    for v in vs:
        if len(v['shape']) >= 2 or v.get('misaligned'):
            continue
        got = out['point_data'].get(v['name'])
        if got is None:
            bad.append(('point-data-missing', f"nodal variable {v['name']} is not in the file"))
            continue
        byid = dict(zip(v['ids'], v['rows']))
        width = int(np.prod(v['shape'])) if v['shape'] else 1
        want = [byid[i] for i in nids]
        if unpad(got, width) != want:
            g = unpad(got, width)
            k = next((k for k in range(min(len(g), len(want))) if g[k] != want[k]), None)
            eg = (f': node {nids[k]} (position {k}) has {[str(x) for x in want[k]][:4]}, the file {[str(x) for x in g[k]][:4]}'
                  if k is not None else f': {len(g)} rows for {len(want)} nodes')
            bad.append(('point-data', f"point data {v['name']} (dtype {v.get('dtype') or ('int64' if v['int'] else 'float64')}) is not the "
                        f"variable's value at the node stored at each position{eg}"))
    node_pd = out['point_data'].get('NODE')
    if node_pd is not None and node_pd != pts:
        bad.append(('point-data', 'point data NODE differs from the points'))
    return bad


def case_json(m, vs, upd=None):
    j = G.to_json(m)
    j['geometric_tet2'] = bool(m.get('geometric_tet2'))
    if m.get('dtypes'):
        j['dtypes'] = dict(m['dtypes'])
    out = {'mesh': j, 'vars': C.jsonable(vs)}
    if upd is not None:
        # history: construct `mesh`, nodes.update(update_ids, their own coordinates, allow_overwrite=True), attach `vars`, export
        out['update_ids'] = list(upd)
    return out


def order_class(m):
    ids = [i for i, _ in m['nodes']]
    return 'asc' if ids == sorted(ids) else 'desc' if ids == sorted(ids, reverse=True) else 'shuf'


def one_case(ctx, rnd, pending, stream='main'):
    if stream == 'outside':
        m = gen_mesh(rnd, ctx.quick, types_pool=['hex2', 'tet', 'tri'])
    else:
        m = gen_mesh(rnd, ctx.quick)
    vs = gen_vars(rnd, m, misaligned=(stream == 'misaligned'))
    if stream == 'main' and rnd.random() < .3:
        m = pick_dtypes(rnd, m)
        for k, d in m['dtypes'].items():
            ctx.count(f'mesh array dtype {k}: {d}')
    impl = run_real(ctx, m, vs)
    ids = [i for i, _ in m['nodes']]
    ctx.case((stream, G.enc_mesh(m), repr(vs)),
             sample={'stream': stream, 'mesh': G.describe(m),
                     'vars': [(v['name'], v['shape'], v.get('dtype') or ('int' if v['int'] else 'float'), v.get('layout', 'C'))
                              + ((f"FEMAttribute.name={v['attr']}", v['how'])
                                                                                          if 'attr' in v else ()) for v in vs],
                     'outcome': impl[0] if impl[0] == 'ok' else impl[1]},
             nontrivial=stream == 'main' and ids != list(range(1, len(ids) + 1)))
    for v in vs if stream == 'main' else []:
        if v.get('dtype') or v.get('layout'):
            ctx.count(f"nodal:dtype {v.get('dtype', 'default')}" + (f" ({v['profile']})" if v.get('dtype') in ('int64', 'uint64') else ''))
            ctx.count(f"nodal:memory layout {v.get('layout', 'C')}")
    if impl[0] == 'err' and not_encodable(vs) and stream in ('main', 'misaligned'):
        # labelled stream: a dtype the legacy-VTK writer of meshio cannot encode at all (the export raises inside
        # meshio.write); nothing asserted.  When such an export SUCCEEDS it is judged like every other one.
        ctx.count(f"labelled: variable of dtype {'/'.join(not_encodable(vs))} (no legacy-VTK encoding in meshio): export raised {impl[1]}")
        return
    if stream == 'main':
        ctx.count('mesh:' + ('mixed' if len(m['blocks']) > 1 else 'uniform'))
        ctx.count('mesh-order:' + order_class(m))
        ctx.count('mesh-ids:' + str(m.get('id_style')))
        ctx.count('mesh-unreferenced:' + ('yes' if m.get('n_unref') else 'no'))
        ctx.count('outcome:' + (impl[0] if impl[0] == 'ok' else 'raised:' + impl[1]))
        for t in m['blocks']:
            ctx.count('etype:' + t)
        for v in vs:
            ctx.count(f"nodal:rank{len(v['shape']) + 1}:width{int(np.prod(v['shape'])) if v['shape'] else 1}:" + ('int' if v['int'] else 'float'))
        count_renames(ctx, vs)
        if impl[0] == 'ok':
            for sig, text in oracle(m, vs, impl[1]):
                ctx.fail(sig, text, case_json(m, vs), text)
            if any(len(v['shape']) >= 2 and v['name'] in impl[1]['point_data'] for v in vs):
                ctx.count('rank3-exported')
        else:
            ctx.fail('raises', f'write("vtk") raised {impl[1]} on a mesh inside the quantifier', case_json(m, vs), impl[1])
    elif stream == 'misaligned':
        if impl[0] == 'ok':
            for sig, text in oracle(m, vs, impl[1]):
                ctx.fail(sig, text, case_json(m, vs), text)
            v = vs[0]
            got = impl[1]['point_data'].get(v['name'])
            byid = dict(zip(v['ids'], v['rows']))
            width = int(np.prod(v['shape'])) if v['shape'] else 1
            kept = got is not None and unpad(got, width) == [byid[i] for i in ids]
            ctx.count('misaligned:' + ('values-kept' if kept else 'values-bound-to-other-nodes'))
        else:
            ctx.count('misaligned:raised:' + impl[1])
    else:
        ctx.count('outside:' + '+'.join(m['blocks']) + ':' + (impl[0] if impl[0] == 'ok' else 'raised:' + impl[1]))
    if stream != 'outside':
        pending.append((m, vs, impl, stream))


def updated_case(ctx, rnd, pending):
    """stream `updated`: construct -> nodes.update(existing ids, same coordinates, allow_overwrite=True) -> attach the
    nodal variables in the order the object now reports -> write('vtk') -> meshio.read.  The mesh of the property is
    the object's mesh at export time, i.e. what `fd.nodes.ids` / `fd.nodes.data` report after the update."""
    stream = 'updated'
    m = gen_mesh(rnd, ctx.quick)
    upd = gen_update(rnd, m)
    m2 = mesh_after_update(m, upd)
    vs = gen_vars(rnd, m2)
    impl = run_real(ctx, m, vs, upd)
    case = case_json(m, vs, upd)
    ids, ids2 = [i for i, _ in m['nodes']], [i for i, _ in m2['nodes']]
    ctx.case((stream, G.enc_mesh(m), repr(upd), repr(vs)),
             sample={'stream': stream, 'mesh': G.describe(m), 'update_ids': len(upd), 'order_after_update': order_class(m2),
                     'outcome': impl[0] if impl[0] == 'ok' else impl[1]},
             nontrivial=ids2 != list(range(1, len(ids2) + 1)))
    ctx.count(f'updated:order:{order_class(m)}->{order_class(m2)}')
    ctx.count('updated:storage-order:' + ('changed' if ids != ids2 else 'kept'))
    ctx.count('updated:ids:' + ('one' if len(upd) == 1 else 'all-permuted' if len(upd) == len(ids) else 'subset'))
    ctx.count('updated:outcome:' + (impl[0] if impl[0] == 'ok' else 'raised:' + impl[1]))
    count_renames(ctx, vs, 'updated:')
    # the update is semantically the identity (same id -> coordinates map): recorded, it is not a clause of C06
    ctx.count('updated:id->coordinates:' + ('kept' if dict(m['nodes']) == dict(m2['nodes']) and len(ids) == len(ids2) else 'CHANGED'))
    if impl[0] == 'err' and not_encodable(vs):
        ctx.count(f"labelled: variable of dtype {'/'.join(not_encodable(vs))} (no legacy-VTK encoding in meshio): export raised {impl[1]}")
        return
    if impl[0] == 'ok':
        for sig, text in oracle(m2, vs, impl[1]):
            ctx.fail(sig, text + ' [after nodes.update(existing ids, same coordinates, allow_overwrite=True); node ids in storage '
                     f'order at export: {ids2[:12]}]', case, text)
    else:
        ctx.fail('raises', f'write("vtk") raised {impl[1]} on a mesh inside the quantifier (after a nodes.update)', case, impl[1])
    pending.append((m2, vs, impl, stream, case))


def flush(ctx, pending):
    if ctx.driver is None or not pending:
        pending.clear()
        return
    replies = ctx.driver.ask_many([model_line(p[0], p[1]) for p in pending])
    for (m, vs, impl, stream, *rest), rep in zip(pending, replies):
        if rep.startswith('err bad-op'):
            raise RuntimeError('driver rejected a c06 request')
        model = parse_model(rep, vs)
        for d in compare(impl, model, vs):
            ctx.disagree(d + ('' if stream == 'main' else f' [{stream}]'), rest[0] if rest else case_json(m, vs),
                         impl[1] if impl[0] == 'err' else impl[1]['cells'][:2], model[1] if model[0] == 'err' else model[1]['cells'][:2])
    pending.clear()


# ======================================================================================================================
# stream `history` (inside the quantifier, reported through `fail`): ONE LIVE OBJECT is modified through public means,
# queried and exported SEVERAL times.  The mesh of the property at an export is the object's CURRENT PUBLIC STATE
# (`nodes.ids/.data`, per-type `elements[t].ids/.data`, `nodal_data[k].ids/.data`), copied out of the object just
# before the export.  Per export:  (1) oracle and model on that snapshot;  (2) the export does not change the object,
# the arrays the caller handed to femio at construction, or anything an EARLIER call returned (bit-exact);
# (3) two exports with nothing in between give identical files;  (4) at the end an independently constructed FRESH
# object with the same content gives the same file.
# ======================================================================================================================

class OpSkip(Exception):
    """the drawn step cannot be applied to the object as it is now (nothing is reported)"""


EDIT_KINDS = [('inplace', 30), ('setter', 13), ('loc', 13), ('update', 11), ('overwrite', 5), ('add-var', 5), ('pop-var', 3),
              ('elements.update', 12), ('add-nodes', 5)]
QUERIES = ['to_meshio', 'elements.to_meshio', 'nodal_data.to_meshio', 'ids2indices:dict', 'ids2indices:array',
           'ids2indices:object', 'write:ucd', 'to_first_order', 'filter_with_ids', 'element-views', 'loc-read',
           'adjacency', 'first_order_nodes']
VAR_KEYS = ['N1', 'N10', 'N', 'N0x', 'N01', 'T', 'NODE_1', 'N2_', 'S']       # also prefixes of each other / of existing keys
CACHED = ['calculate_adjacency_matrix_node', 'filter_first_order_nodes', 'calculate_adjacency_matrix',
          'calculate_incidence_matrix']


def gapped_ids(rnd, n):
    """'sparse but small' ids: two or three dense ranges separated by gaps of about n (so that sums / differences /
    offsets of ids collide with other ids or with positions)"""
    k = 1 if n < 2 else 2 if n < 3 else rnd.choice([2, 2, 3])
    cuts = sorted(rnd.sample(range(1, n), k - 1))
    ids, start = [], rnd.choice([1, 1, 2, n])
    for a, b in zip([0] + cuts, cuts + [n]):
        ids += list(range(start, start + b - a))
        start += (b - a) + n + rnd.randint(-1, 1)
    return ids


def renumber_monotone(m, node_ids=None, elem_ids=None):
    """the same mesh under an order-preserving renumbering (storage order classes asc / desc / midshuf / swap2 and the
    interleaving of element ids across types are kept)"""
    out = dict(m)
    if node_ids is not None:
        f = dict(zip(sorted(i for i, _ in m['nodes']), sorted(node_ids)))
        out['nodes'] = [(f[i], p) for i, p in m['nodes']]
        out['blocks'] = {t: [(e, [f[n] for n in c]) for e, c in b] for t, b in m['blocks'].items()}
        out['id_style'] = 'gapped'
    if elem_ids is not None:
        g = dict(zip(sorted(e for b in m['blocks'].values() for e, _ in b), sorted(elem_ids)))
        out['blocks'] = {t: [(g[e], c) for e, c in b] for t, b in out['blocks'].items()}
    return out


def gen_mesh_h(rnd, quick=True):
    """the meshes of the main stream plus the dimensions that realistic changes needed (DESIGN section 8, round 3): tet + quad
    in one mesh (same node count, different VTK cell), exactly one element, tet2 next to other types, gapped small ids;
    element-type insertion order is permuted by meshgen.to_femio / insertion_order for every mixed mesh"""
    r = rnd.random()
    dims = []
    if r < .12:
        types = ['quad', 'tet'] + rnd.sample([t for t in TYPES if t not in ('quad', 'tet')], rnd.choice([0, 0, 1, 2]))
        m = G.gen_combinatorial(rnd, types=types, max_elems=8 if quick else 30)
        dims.append('tet+quad')
    elif r < .22:
        m = G.gen_combinatorial(rnd, types=[rnd.choice(TYPES)], max_elems=1)
        dims.append('single-element')
    elif r < .32:
        types = ['tet2'] + rnd.sample([t for t in TYPES if t != 'tet2'], rnd.choice([0, 1, 2]))
        m = G.gen_combinatorial(rnd, types=types, max_elems=8 if quick else 30)
        dims.append('tet2')
    else:
        m = gen_mesh(rnd, quick)
    if 'geometric_tet2' not in m:
        m['nodes'] = [(i, tuple(F(float(x)) for x in p)) for i, p in m['nodes']]
    if rnd.random() < .25:
        m = renumber_monotone(m, node_ids=gapped_ids(rnd, len(m['nodes'])))
        dims.append('gapped-node-ids')
    if rnd.random() < .25:
        m = renumber_monotone(m, elem_ids=gapped_ids(rnd, sum(len(b) for b in m['blocks'].values())))
        dims.append('gapped-element-ids')
    by_id = sorted((e, t) for t, b in m['blocks'].items() for e, _ in b)
    runs = sum(1 for k in range(1, len(by_id)) if by_id[k][1] != by_id[k - 1][1]) + 1
    if len(m['blocks']) > 1 and runs > len(m['blocks']):
        dims.append('element-ids-interleave-the-types')
    m['dims'] = dims
    return m


def to_femio_keep(m, keep):
    """meshgen.to_femio, keeping hold of the arrays handed to femio (the caller's arrays)"""
    from femio import FEMData, FEMAttribute, FEMElementalAttribute
    dts = m.get('dtypes') or {}
    keep[('nodes', None, 'ids')] = np.array([i for i, _ in m['nodes']], dtype=dts.get('node_ids', 'int64'))
    keep[('nodes', None)] = np.array([[float(v) for v in p] for _, p in m['nodes']]).astype(dts.get('coords', 'float64'))
    el = {}
    for t, b in m['blocks'].items():
        keep[('conn', t, 'ids')] = np.array([e for e, _ in b], dtype=dts.get('elem_ids', 'int64'))
        keep[('conn', t)] = np.array([c for _, c in b], dtype=dts.get('conn', 'int64'))
        el[t] = FEMAttribute(t, ids=keep[('conn', t, 'ids')], data=keep[('conn', t)], silent=True)
    nodes = FEMAttribute('NODE', ids=keep[('nodes', None, 'ids')], data=keep[('nodes', None)], silent=True)
    return G.quiet(lambda: FEMData(nodes=nodes, elements=FEMElementalAttribute('ELEMENT', G.insertion_order(el))))


def etypes_of(fd):
    """element types present, canonical order, computed without femio's overridden keys() / items()"""
    return [t for t in G.ELEMENT_TYPES if dict.__contains__(fd.elements, t)]


def _target(fd, fam, key):
    try:
        return fd.nodes if fam == 'nodes' else dict.__getitem__(fd.elements, key) if fam == 'conn' else fd.nodal_data[key]
    except KeyError:
        raise OpSkip('no such table')


def var_keys(fd):
    return [k for k in fd.nodal_data.keys() if k != 'NODE']


def public_state(fd, base, geo):
    """(mesh, variables) as the object reports them now: plain Python values copied out of the object"""
    m = {'kind': base['kind'], 'order': base['order'], 'id_style': base.get('id_style'), 'geometric_tet2': bool(geo),
         'nodes': [(int(i), tuple(F(float(x)) for x in row)) for i, row in zip(fd.nodes.ids, np.asarray(fd.nodes.data))],
         'blocks': {t: [(int(e), [int(n) for n in c]) for e, c in zip(dict.__getitem__(fd.elements, t).ids,
                                                                     np.asarray(dict.__getitem__(fd.elements, t).data))]
                    for t in etypes_of(fd)}}
    nids = [i for i, _ in m['nodes']]
    vs = []
    for k in var_keys(fd):
        a = fd.nodal_data[k]
        d = np.asarray(a.data)
        integer = d.dtype.kind in 'iub'
        v = {'name': k, 'attr': a.name, 'how': 'setitem', 'shape': list(d.shape[1:]), 'ids': [int(i) for i in a.ids], 'int': integer,
             'dtype': d.dtype.name if d.dtype.kind in 'iubf' else None,
             'rows': [[F(int(x)) if integer else F(float(x)) for x in np.ravel(r)] for r in d]}
        if v['ids'] != nids:
            v['misaligned'] = True
        vs.append(v)
    return m, vs


def outside_reason(m, vs):
    """-> None, or why the object no longer describes ONE mesh with nodal variables (labelled, nothing asserted)"""
    nids = [i for i, _ in m['nodes']]
    if len(set(nids)) != len(nids):
        return 'duplicate node ids'
    if any(n not in set(nids) for b in m['blocks'].values() for _, c in b for n in c):
        return 'dangling node id'
    if any(len(v['ids']) != len(nids) for v in vs):
        return 'a nodal variable that does not have one row per node'
    if not m['blocks'] or any(not b for b in m['blocks'].values()):
        return 'no elements'
    return None


def _bits(a):
    a = np.asarray(a)
    if a.dtype == object:
        return ('object', repr([np.asarray(x).tolist() for x in a]))
    return (str(a.dtype), a.shape, a.tobytes())


def raw_state(fd, keep, results):
    """the user data the export must leave alone, bit-exact: ids and both public views (`.data`, `.data_frame`) of the
    nodes, of every per-type element block and of every nodal variable, the insertion order of the containers, the arrays
    the caller handed to femio, the arrays earlier calls returned.  Derived state (the id lookup table, the aggregate
    element view) is deliberately not part of it: an export that refreshes a derived table is not a violation."""
    s = {'nodes.ids': _bits(fd.nodes.ids), 'nodes.data': _bits(fd.nodes.data), 'nodes.data_frame': _bits(fd.nodes.data_frame.values),
         'elements: insertion order': list(dict.keys(fd.elements)), 'nodal_data: keys': list(fd.nodal_data.keys())}
    for t in dict.keys(fd.elements):
        b = dict.__getitem__(fd.elements, t)
        s[f'elements[{t}].ids'], s[f'elements[{t}].data'] = _bits(b.ids), _bits(b.data)
        s[f'elements[{t}].data_frame'] = _bits(b.data_frame.values)
    for k in fd.nodal_data.keys():
        a = fd.nodal_data[k]
        s[f'nodal_data[{k}].ids'], s[f'nodal_data[{k}].data'], s[f'nodal_data[{k}].name'] = _bits(a.ids), _bits(a.data), a.name
        s[f'nodal_data[{k}].data_frame'] = _bits(a.data_frame.values)
    for k, a in keep.items():
        s['array handed to femio by the caller: ' + ':'.join(str(x) for x in k if x is not None)] = _bits(a)
    for label, arrays in results:
        for j, a in enumerate(arrays):
            s[f'array returned earlier by {label} #{j}'] = _bits(a)
    return s


def coherent(fd):
    """hypothesis of `C06_history_export`: the lookup table of the nodes is `enumerate(nodes.ids)`"""
    t = fd.nodes.id2index
    return (np.array_equal(np.asarray(t.index.values), np.asarray(fd.nodes.ids))
            and np.array_equal(np.ravel(t.values), np.arange(len(fd.nodes.ids))))


def ids_setter_refreshes():
    """which configuration the tree implements: does `FEMAttribute.ids = ...` refresh `id2index`? (`Cfg.idsSetterRefreshes`)"""
    from femio import FEMAttribute
    a = FEMAttribute('NODE', ids=np.array([3, 1, 2]), data=np.zeros((3, 3)), silent=True, generate_id2index=True)
    a.ids = np.array([30, 10, 20])
    return [int(i) for i in a.id2index.index.values] == [30, 10, 20]


# ---- edits --------------------------------------------------------------------------------------------------------

def _fval(rnd, integer=False, lim=4000):
    return rnd.randint(-lim, lim) if integer else float(F(rnd.randint(-lim, lim), rnd.choice([1, 2, 4, 8])))


def _new_data(rnd, fam, n, shape, integer, nids, arity=None):
    if fam == 'conn':
        return [rnd.sample(nids, arity) for _ in range(n)]
    width = int(np.prod(shape)) if shape else 1
    lim = 40 if fam == 'nodes' else 4000
    return [[_fval(rnd, integer, lim) for _ in range(width)] for _ in range(n)]


def _arr(op, fam=None):
    fam = fam or op.get('fam')
    dt = int if (fam == 'conn' or op.get('int')) else float
    return np.array(op['data'], dtype=dt).reshape([len(op['data'])] + list(op['shape']))


def _pick(rnd, weighted):
    tot = sum(w for _, w in weighted)
    r = rnd.random() * tot
    for k, w in weighted:
        r -= w
        if r < 0:
            return k
    return weighted[-1][0]


def _fresh_ints(rnd, used, k):
    """k positive ints not in `used`, close to them (between, just below, just above; never enumerates the id range)"""
    used = set(used)
    pool = sorted({u + d for u in used for d in (-2, -1, 1, 2, len(used), len(used) + 1)} - used)
    pool = [i for i in pool if i > 0]
    top = max(used)
    while len(pool) < k:
        top += 1
        if top not in pool:
            pool.append(top)
    return rnd.sample(pool, k)


def draw_inplace_edit(rnd, fd, fam, key, nids):
    a = _target(fd, fam, key)
    arr = np.asarray(a.data)
    n = len(arr)
    row = rnd.randrange(n)
    op = {'op': 'inplace', 'fam': fam, 'key': key, 'row': row, 'via': rnd.choice(['data', 'data', 'data', 'values', 'caller'])}
    if fam == 'conn':
        cur = [int(x) for x in arr[row]]
        others = [i for i in nids if i not in cur]
        if others and rnd.random() < .6:
            op.update(how='cell', j=rnd.randrange(len(cur)), val=rnd.choice(others))
        else:
            new = list(cur)
            while new == cur:
                rnd.shuffle(new)
            op.update(how='row=', vals=new)
        return op
    integer = arr.dtype.kind in 'iub'
    width = int(np.prod(arr.shape[1:])) if arr.ndim > 1 else 1
    lim = 40 if fam == 'nodes' else 4000
    how = rnd.choice(['cell', 'row=', 'row+='])
    if how == 'cell':
        op.update(how=how, j=rnd.randrange(width), val=_fval(rnd, integer, lim))
    else:
        op.update(how=how, vals=[_fval(rnd, integer, lim) for _ in range(width)])
    return op


def _edit_array(arr, op):
    row = op['row']
    if row >= len(arr):
        raise OpSkip('row out of range')
    tail = arr.shape[1:]
    if op['how'] == 'cell':
        if arr.ndim == 1:
            arr[row] = op['val']
        else:
            if op['j'] >= int(np.prod(tail)):
                raise OpSkip('column out of range')
            arr[(row,) + tuple(int(x) for x in np.unravel_index(op['j'], tail))] = op['val']
    else:
        if len(op['vals']) != (int(np.prod(tail)) if tail else 1):
            raise OpSkip('row width changed')
        v = np.array(op['vals'], dtype=arr.dtype).reshape(tail) if tail else arr.dtype.type(op['vals'][0])
        if op['how'] == 'row=':
            arr[row] = v
        else:
            arr[row] += v


def draw_edit(rnd, fd, st):
    nids = [int(i) for i in fd.nodes.ids]
    types, vkeys = etypes_of(fd), var_keys(fd)
    kind = _pick(rnd, EDIT_KINDS)
    fams = [('nodes', None)] + [('conn', t) for t in types] + [('nodal', k) for k in vkeys]

    def fam_key(allowed):
        fam = rnd.choice([f for f in allowed if any(x[0] == f for x in fams)])
        return rnd.choice([x for x in fams if x[0] == fam])
    if kind == 'inplace':
        fam, key = fam_key(['nodes', 'conn', 'nodal'])
        return draw_inplace_edit(rnd, fd, fam, key, nids)
    if kind == 'setter':
        fam, key = fam_key(['nodes', 'conn', 'nodal'])
        a = _target(fd, fam, key)
        d = np.asarray(a.data)
        shape, integer = list(d.shape[1:]), d.dtype.kind in 'iub'
        if fam == 'nodal' and rnd.random() < .25:
            shape = list(rnd.choice(SHAPES))
        op = {'op': 'setter', 'fam': fam, 'key': key, 'shape': shape, 'int': integer,
              'via': rnd.choice(['data', 'data', 'update_data'] + (['elements.data'] if fam == 'conn' and len(types) == 1 else [])),
              'data': _new_data(rnd, fam, len(d), shape, integer, nids, d.shape[1] if fam == 'conn' else None)}
        if rnd.random() < .3 and shape == list(d.shape[1:]):      # ... and the caller goes on using the array it assigned
            al = draw_inplace_edit(rnd, fd, fam, key, nids)
            al['via'] = 'assigned'
            op['alias'] = al
        return op
    if kind == 'loc':
        fam, key = fam_key(['nodes', 'conn', 'nodal'])
        a = _target(fd, fam, key)
        d = np.asarray(a.data)
        ids = [int(i) for i in a.ids]
        via = rnd.choice(['loc', 'loc', 'loc-scalar', 'iloc', 'iloc-slice'])
        if via == 'loc':
            sel = rnd.sample(ids, rnd.randint(1, min(len(ids), 4)))
        elif via == 'loc-scalar':
            sel = [rnd.choice(ids)]
        elif via == 'iloc':
            sel = rnd.sample(range(len(ids)), rnd.randint(1, min(len(ids), 4)))
        else:
            lo = rnd.randrange(len(ids))
            sel = [lo, rnd.randint(lo + 1, min(len(ids), lo + 4))]
        k = sel[1] - sel[0] if via == 'iloc-slice' else len(sel)
        shape, integer = list(d.shape[1:]), d.dtype.kind in 'iub'
        return {'op': 'loc', 'fam': fam, 'key': key, 'via': via, 'sel': sel, 'shape': shape, 'int': integer,
                'data': _new_data(rnd, fam, k, shape, integer, nids, d.shape[1] if fam == 'conn' else None)}
    if kind == 'update':
        fam, key = fam_key(['nodes', 'nodal'])
        a = _target(fd, fam, key)
        d = np.asarray(a.data)
        ids = [int(i) for i in a.ids]
        sub = rnd.sample(ids, rnd.choice([1, rnd.randint(1, len(ids)), len(ids)]))
        shape, integer = list(d.shape[1:]), d.dtype.kind in 'iub'
        return {'op': 'update', 'fam': fam, 'key': key, 'via': rnd.choice(['update', 'update_data']), 'ids': sub, 'shape': shape,
                'int': integer, 'data': _new_data(rnd, fam, len(sub), shape, integer, nids), 'realign': rnd.random() < .5}
    if kind == 'overwrite':
        if not vkeys:
            raise OpSkip('no variable')
        key = rnd.choice(vkeys)
        d = np.asarray(fd.nodal_data[key].data)
        shape, integer = list(d.shape[1:]), d.dtype.kind in 'iub'
        return {'op': 'overwrite', 'key': key, 'shape': shape, 'int': integer, 'ids': list(nids) if rnd.random() < .5 else None,
                'data': _new_data(rnd, 'nodal', len(d), shape, integer, nids)}
    if kind == 'add-var':
        free = [k for k in VAR_KEYS if k not in fd.nodal_data.keys()]
        if not free or len(vkeys) >= 6:
            raise OpSkip('enough variables')
        key = rnd.choice(free)
        shape, integer = list(rnd.choice(SHAPES)), rnd.random() < .2
        return {'op': 'add-var', 'key': key, 'attr': rnd.choice([key, key, 'S', vkeys[0] if vkeys else key]), 'shape': shape, 'int': integer,
                'how': rnd.choice(['setitem', 'update', 'set_attribute_data', 'update_data']), 'ids': list(nids),
                'data': _new_data(rnd, 'nodal', len(nids), shape, integer, nids)}
    if kind == 'pop-var':
        if len(vkeys) < 2:
            raise OpSkip('keep one variable')
        return {'op': 'pop-var', 'key': rnd.choice(vkeys)}
    if kind == 'elements.update':
        eids = {t: [int(e) for e in dict.__getitem__(fd.elements, t).ids] for t in types}
        used = [e for v in eids.values() for e in v]
        absent = [t for t in TYPES if t not in types and G.ARITY[t] <= len(nids)]
        if absent and rnd.random() < .45:        # a block of a type the mesh did not have: inserted LAST, wherever it sorts canonically
            t = rnd.choice(absent)
            ids = _fresh_ints(rnd, used, rnd.randint(1, 3))
        else:                                    # an existing block replaced: rows re-ordered, re-connected, dropped, added
            t = rnd.choice(types)
            ids = list(eids[t])
            rnd.shuffle(ids)
            r = rnd.random()
            if r < .3 and len(ids) > 1:
                ids = ids[:rnd.randint(1, len(ids) - 1)]
            elif r < .6:
                ids += _fresh_ints(rnd, used, rnd.randint(1, 2))
        return {'op': 'elements.update', 'blocks': {t: {'ids': ids, 'conn': [rnd.sample(nids, G.ARITY[t]) for _ in ids]}}}
    if kind == 'add-nodes':
        new = _fresh_ints(rnd, nids, rnd.randint(1, 3))
        vars_ = {}
        for k in vkeys:
            d = np.asarray(fd.nodal_data[k].data)
            vars_[k] = {'shape': list(d.shape[1:]), 'int': d.dtype.kind in 'iub',
                        'data': _new_data(rnd, 'nodal', len(new), list(d.shape[1:]), d.dtype.kind in 'iub', nids)}
        return {'op': 'add-nodes', 'ids': new, 'shape': [3], 'data': _new_data(rnd, 'nodes', len(new), [3], False, nids), 'vars': vars_}
    raise ValueError(kind)


def draw_renumber(rnd, fd):
    """node ids replaced through the public `ids` setter of the nodes and of every nodal variable, the connectivity
    rewritten accordingly (separately labelled sub-stream `ids-setter`)"""
    nids = [int(i) for i in fd.nodes.ids]
    r = rnd.random()
    if r < .35:
        shift = rnd.choice([1, len(nids), 1000])
        new = [i + shift for i in nids]
    elif r < .7:
        new = list(nids)
        while len(new) > 1 and new == nids:
            rnd.shuffle(new)                     # the same id set, bound to other nodes
    else:
        new = _fresh_ints(rnd, [max(nids)], len(nids))
    return {'op': 'renumber-nodes', 'map': [[a, b] for a, b in zip(nids, new)], 'conn_via': rnd.choice(['setter', 'elements.update'])}


def _realign(fd, skip):
    """every other id-keyed table of the object goes through the same public update (with its own first row), which
    re-sorts it by id as the update re-sorted the table of `skip`: the tables stay aligned with each other"""
    seen = {id(skip)}
    for b in [fd.nodes] + [fd.nodal_data[k] for k in var_keys(fd)]:
        if id(b) in seen:
            continue
        seen.add(id(b))
        b.update(np.array([int(b.ids[0])]), np.array(b.data[0:1]), allow_overwrite=True)


def apply_edit(fd, op, keep):
    from femio import FEMAttribute
    o, fam, key = op['op'], op.get('fam'), op.get('key')
    if o == 'inplace':
        a = _target(fd, fam, key)
        if op['via'] == 'caller':
            arr = keep.get((fam, key))
            if arr is None or arr.shape != np.shape(a.data) or not arr.flags.writeable:
                raise OpSkip('no caller array of that table')
        else:
            arr = a.values if op['via'] == 'values' else a.data
        if not arr.flags.writeable:
            # numpy refuses (arrays that came out of a pandas frame are read-only): the user copies, edits, assigns
            arr = np.array(arr)
            _edit_array(arr, op)
            a.data = arr
            return 'read-only: copied, edited, assigned through the data setter'
        _edit_array(arr, op)
    elif o == 'setter':
        a = _target(fd, fam, key)
        arr = _arr(op)
        if len(arr) != len(a.ids):
            raise OpSkip('length changed')
        if op['via'] == 'elements.data':
            if len(etypes_of(fd)) != 1:
                raise OpSkip('mixed')
            fd.elements.data = arr
        elif op['via'] == 'update_data':
            a.update_data(arr)
        else:
            a.data = arr
        if op.get('alias'):
            _edit_array(arr, op['alias'])
    elif o == 'loc':
        a, arr, sel = _target(fd, fam, key), _arr(op), op['sel']
        ids = [int(i) for i in a.ids]
        if op['via'] in ('loc', 'loc-scalar'):
            if any(i not in ids for i in sel):
                raise OpSkip('id gone')
            sub = a.loc[sel] if op['via'] == 'loc' else a.loc[sel[0]]
        else:
            if max(sel) > len(ids) - (0 if op['via'] == 'iloc-slice' else 1):
                raise OpSkip('position gone')
            sub = a.iloc[sel] if op['via'] == 'iloc' else a.iloc[sel[0]:sel[1]]
        if list(np.shape(sub.data)) != list(arr.shape):
            raise OpSkip('shape changed')
        sub.data = arr
    elif o == 'update':
        a, arr = _target(fd, fam, key), _arr(op)
        if any(i not in set(int(x) for x in a.ids) for i in op['ids']) or list(np.shape(a.data)[1:]) != op['shape']:
            raise OpSkip('id gone / shape changed')
        if op['via'] == 'update_data':
            fd.nodal_data.update_data(np.array(op['ids']), {'NODE' if fam == 'nodes' else key: arr}, allow_overwrite=True)
        else:
            a.update(np.array(op['ids']), arr, allow_overwrite=True)
        if op.get('realign'):
            _realign(fd, a)
    elif o == 'overwrite':
        if key not in fd.nodal_data.keys() or len(op['data']) != len(fd.nodal_data[key].ids):
            raise OpSkip('variable gone / length changed')
        if op['ids'] is None:
            fd.nodal_data.overwrite(key, _arr(op, 'nodal'))
        else:
            fd.nodal_data.overwrite(key, _arr(op, 'nodal'), ids=np.array(op['ids']))
    elif o == 'add-var':
        nd, arr = fd.nodal_data, _arr(op, 'nodal')
        if key in nd.keys() or op['ids'] != [int(i) for i in fd.nodes.ids]:
            raise OpSkip('key exists / nodes changed')
        how = op['how']
        if how == 'set_attribute_data' and not nd.are_same_lengths():
            how = 'setitem'
        if how == 'set_attribute_data':       # binds the rows to the ids of the first attribute (NODE = the nodes)
            nd.set_attribute_data(key, arr, name=op['attr'])
        elif how == 'update_data':
            nd.update_data(np.array(op['ids']), {key: arr})
        elif how == 'update':
            nd.update({key: FEMAttribute(op['attr'], np.array(op['ids']), arr, silent=True)})
        else:
            nd[key] = FEMAttribute(op['attr'], np.array(op['ids']), arr, silent=True)
    elif o == 'pop-var':
        if key not in fd.nodal_data.keys():
            raise OpSkip('variable gone')
        fd.nodal_data.pop(key)
    elif o == 'elements.update':
        nids = set(int(i) for i in fd.nodes.ids)
        for t, b in op['blocks'].items():
            others = {int(e) for u in etypes_of(fd) if u != t for e in dict.__getitem__(fd.elements, u).ids}
            if any(n not in nids for c in b['conn'] for n in c) or others & set(b['ids']):
                raise OpSkip('node gone / element id taken')
        fd.elements.update({t: FEMAttribute(t, ids=np.array(b['ids']), data=np.array(b['conn']), silent=True)
                            for t, b in op['blocks'].items()})
    elif o == 'add-nodes':
        if set(op['ids']) & set(int(i) for i in fd.nodes.ids) or set(op['vars']) != set(var_keys(fd)):
            raise OpSkip('ids taken / variables changed')
        for k, v in op['vars'].items():
            if list(np.shape(fd.nodal_data[k].data)[1:]) != v['shape']:
                raise OpSkip('shape changed')
        fd.nodes.update(np.array(op['ids']), _arr(op, 'nodes'), allow_overwrite=True)
        seen = {id(fd.nodes)}
        for k, v in op['vars'].items():
            a = fd.nodal_data[k]
            if id(a) not in seen:
                seen.add(id(a))
                a.update(np.array(op['ids']), _arr(v, 'nodal'), allow_overwrite=True)
    elif o == 'renumber-nodes':
        f = {int(a): int(b) for a, b in op['map']}
        if set(f) != set(int(i) for i in fd.nodes.ids):
            raise OpSkip('nodes changed')
        new = {t: np.array([[f[int(n)] for n in row] for row in dict.__getitem__(fd.elements, t).data]) for t in etypes_of(fd)}
        seen = set()
        for a in [fd.nodes] + [fd.nodal_data[k] for k in var_keys(fd)]:
            if id(a) not in seen and set(int(i) for i in a.ids) <= set(f):
                seen.add(id(a))
                a.ids = np.array([f[int(i)] for i in a.ids])
        if op['conn_via'] == 'setter':
            for t, c in new.items():
                dict.__getitem__(fd.elements, t).data = c
        else:
            fd.elements.update({t: FEMAttribute(t, ids=np.array(dict.__getitem__(fd.elements, t).ids), data=c, silent=True)
                                for t, c in new.items()})
    else:
        raise ValueError(o)
    return None


def edit_label(op):
    o = op['op']
    if o in ('inplace', 'setter', 'loc', 'update'):
        fam = op['fam']
        tab = 'nodes' if fam == 'nodes' else f"elements[{op['key']}]" if fam == 'conn' else f"nodal_data[{op['key']}]"
        if o == 'inplace':
            src = {'caller': 'the array handed to femio at construction (', 'values': tab + '.values ('}.get(op['via'], tab + '.data (')
            return f"in-place edit of {src}{op['how']} row {op['row']})"
        if o == 'setter':
            return (f"fd.elements.data = new" if op['via'] == 'elements.data' else f"{tab}.update_data(new)" if op['via'] == 'update_data'
                    else f"{tab}.data = new") + (' + in-place edit of the assigned array' if op.get('alias') else '')
        if o == 'loc':
            return f"{tab}.{op['via']}[{op['sel']}].data = rows"
        return f"{tab}.{op['via']}({len(op['ids'])} existing ids, new rows, allow_overwrite=True)" + (' + realign' if op.get('realign') else '')
    if o == 'overwrite':
        return f"nodal_data.overwrite({op['key']}, new" + (', ids=node ids)' if op['ids'] is not None else ')')
    if o == 'add-var':
        return f"new nodal variable {op['key']} by {op['how']}"
    if o == 'pop-var':
        return f"nodal_data.pop({op['key']})"
    if o == 'elements.update':
        return 'elements.update({' + ', '.join(f'{t}: {len(b["ids"])} rows' for t, b in op['blocks'].items()) + '})'
    if o == 'add-nodes':
        return f"nodes.update({len(op['ids'])} new ids) + every variable.update(the same ids)"
    if o == 'renumber-nodes':
        return f"node ids renumbered through the ids setter (connectivity by {op['conn_via']})"
    return o


def edit_class(op):
    o = op['op']
    if o in ('inplace', 'setter', 'loc', 'update'):
        extra = ':' + op['via'] if o in ('inplace', 'loc') else ''
        return f"{o}:{ {'nodes': 'coordinates', 'conn': 'connectivity', 'nodal': 'nodal variable'}[op['fam']] }{extra}"
    return o


# ---- queries ------------------------------------------------------------------------------------------------------

def run_query(ctx, fd, step, st):
    """other public calls on the same object between modifications and exports (what they return is kept and must not be
    changed by a later export; what they do to the object is not C06's business - the snapshot is taken afterwards)"""
    q, rnd_ids = step['q'], step.get('ids')
    ret = None
    if q == 'to_meshio':
        mm = fd.to_meshio()
        ret = [mm.points] + [cb.data for cb in mm.cells] + list(mm.point_data.values())
    elif q == 'elements.to_meshio':
        ret = list(fd.elements.to_meshio(fd.nodes).values())
    elif q == 'nodal_data.to_meshio':
        ret = list(fd.nodal_data.to_meshio().values())
    elif q == 'ids2indices:dict':
        got = fd.nodes.ids2indices(fd.elements)
        pos = {int(i): k for k, i in enumerate(fd.nodes.ids)}
        want = [[[pos[int(n)] for n in row] for row in dict.__getitem__(fd.elements, t).data] for t in etypes_of(fd)]
        ctx.count('history:query:nodes.ids2indices(elements) ' + ('= positions, canonical type order'
                                                                  if [np.asarray(g).tolist() for g in got] == want else 'DIFFERS (not a clause of C06)'))
        ret = [np.asarray(g) for g in got]
    elif q == 'ids2indices:array':
        ret = [fd.nodes.ids2indices(np.array(rnd_ids))]
    elif q == 'ids2indices:object':
        ret = [fd.nodes.ids2indices(np.array(rnd_ids, dtype=object))]
    elif q == 'write:ucd':
        p = st['dir'] / f"q{st['n_files']}.inp"
        st['n_files'] += 1
        fd.write('ucd', str(p))
    elif q == 'to_first_order':
        ret = [np.asarray(v.data) for v in fd.elements.to_first_order().values()]
    elif q == 'filter_with_ids':
        ret = [fd.nodes.filter_with_ids(np.array(rnd_ids)).data]
    elif q == 'element-views':
        ret = [fd.elements.ids, fd.elements.types, fd.elements.to_vtk(fd.nodes)]
    elif q == 'loc-read':
        ret = [fd.nodes.loc[rnd_ids].data] + [fd.nodal_data.get_attribute_data(k) for k in var_keys(fd)[:2]]
    elif q == 'adjacency':
        fd.calculate_adjacency_matrix_node()
    elif q == 'first_order_nodes':
        ret = [np.asarray(fd.filter_first_order_nodes())]
    else:
        raise ValueError(q)
    if ret is not None:
        st['results'].append((q, [a for a in ret if isinstance(a, np.ndarray) and a.dtype != object]))


def draw_query(rnd, fd):
    q = rnd.choice(QUERIES)
    step = {'step': 'query', 'q': q}
    if q in ('ids2indices:array', 'ids2indices:object', 'filter_with_ids', 'loc-read'):
        ids = [int(i) for i in fd.nodes.ids]
        step['ids'] = rnd.sample(ids, rnd.randint(1, min(4, len(ids))))
    return step


# ---- exports ------------------------------------------------------------------------------------------------------

def read_vtk(path):
    import meshio
    mm = G.quiet(meshio.read, str(path))
    points = [[F(float(x)) for x in p] for p in np.asarray(mm.points)]
    cells = [(cb.type, [[int(k) for k in r] for r in cb.data]) for cb in mm.cells]
    pd = {k: exact_rows(v) for k, v in mm.point_data.items()}
    return {'points': points, 'cells': cells, 'point_data': pd}


def do_export(fd, step, st):
    """-> ('ok', parsed file) | ('err', class).  `path`: a new file, a new file in a directory that does not exist yet, the file
    of the previous export rewritten with overwrite=True, a longer pre-existing VTK file rewritten with overwrite=True"""
    import meshio
    how = step['path']
    if how in ('same', 'prefilled') and st['last_path'] is None:
        how = 'new'
    if how == 'same':
        p = st['last_path']
    elif how == 'newdir':
        p = st['dir'] / f"d{st['n_files']}" / 'sub' / 'mesh.vtk'
    else:
        p = st['dir'] / f"e{st['n_files']}.vtk"
    st['n_files'] += 1
    if how == 'prefilled':
        old = st['last_path'].read_bytes()
        p.write_bytes(old + old[len(old) // 2:])
    try:
        with contextlib.redirect_stderr(io.StringIO()):
            if step['via'] == 'to_meshio':
                mm = G.quiet(fd.to_meshio)
                st['results'].append(('to_meshio', [mm.points] + [cb.data for cb in mm.cells] + list(mm.point_data.values())))
                p.parent.mkdir(parents=True, exist_ok=True)
                meshio.write(str(p), mm, file_format='vtk')
            else:
                G.quiet(fd.write, 'vtk', str(p), overwrite=how in ('same', 'prefilled'))
    except tuple(ERR) as e:
        return 'err', next(v for k, v in ERR.items() if isinstance(e, k)) + f' ({type(e).__name__}: {str(e)[:120]})'
    except Exception as e:  # noqa
        return 'err', 'exc:' + type(e).__name__ + f' ({str(e)[:120]})'
    st['last_path'] = p
    return 'ok', read_vtk(p)


def step_label(s):
    if s['step'] == 'export':
        return f"EXPORT[{'write(vtk)' if s['via'] == 'write' else 'to_meshio() + meshio.write'}, {s['path']}]"
    if s['step'] == 'query':
        return 'query ' + s['q']
    return edit_label(s)


def draw_plan(rnd, ids_setter=False):
    """kinds of the steps of one history; always ends with an export; the patterns [export, export],
    [export, edit, export], [edit, export], [query, export] all occur often"""
    r = rnd.random()
    if r < .15:
        plan = ['export', 'export']
    elif r < .35:
        plan = ['export', 'edit', 'export']
    elif r < .5:
        plan = ['edit', 'export', 'export']
    else:
        plan = [_pick(rnd, [('edit', 50), ('query', 20), ('export', 30)]) for _ in range(rnd.randint(1, 5))] + ['export']
        if rnd.random() < .5:
            plan.insert(rnd.randrange(len(plan)), 'export')
    if ids_setter:
        last = max(k for k, s in enumerate(plan) if s == 'export')
        plan.insert(rnd.randint(0, last), 'renumber')
    return plan


def run_history(ctx, m, vs, plan=None, steps=None, rnd=None, pending=None, quiet_counts=False):
    """executes one history on ONE live object; `plan` (kinds, concrete steps drawn from `rnd` against the live object) or
    `steps` (concrete, replay / shrinking).  -> (steps executed, failures [(signature, text, index of the export, observed)])"""
    import shutil
    from femio import FEMData
    count = (lambda *a: None) if quiet_counts else ctx.count
    for name in CACHED:
        f = getattr(FEMData, name, None)
        if f is not None and hasattr(f, 'cache_clear'):
            f.cache_clear()
    _N[0] += 1
    st = {'dir': ctx.tmp / f'hist{_N[0]}', 'n_files': 0, 'last_path': None, 'results': [], 'keep': {}}
    st['dir'].mkdir(parents=True, exist_ok=True)
    done, fails = [], []
    geo = bool(m.get('geometric_tet2'))
    used_ids_setter = False
    try:
        try:
            fd = build(m, vs, keep=st['keep'])
        except Exception as e:  # noqa
            count('history:construction-raised:' + type(e).__name__)
            return done, fails
        prev = None            # (parsed file of the last export, nothing happened since)
        last_ok = None
        todo = list(steps) if steps is not None else list(plan)
        for k, item in enumerate(todo):
            kind = item if steps is None else item['step']
            if kind == 'renumber':
                kind = 'edit'
            # -- concrete step
            if steps is None:
                step = None
                for _ in range(6):
                    try:
                        if item == 'renumber':
                            step = dict(draw_renumber(rnd, fd), step='edit')
                        elif kind == 'edit':
                            step = dict(draw_edit(rnd, fd, st), step='edit')
                        elif kind == 'query':
                            step = draw_query(rnd, fd)
                        else:
                            step = {'step': 'export', 'via': rnd.choice(['write', 'write', 'write', 'to_meshio']),
                                    'path': rnd.choice(['new', 'new', 'newdir', 'same', 'same', 'prefilled'])}
                        break
                    except OpSkip:
                        continue
                if step is None:
                    continue
            else:
                step = item
            # -- execute
            if kind == 'edit':
                try:
                    note = G.quiet(apply_edit, fd, step, st['keep'])
                except OpSkip as e:
                    count('history:step-not-applicable')
                    continue
                except Exception as e:  # noqa   a public modifier that raises is not an observation about the export
                    count(f"history:modifier-raised:{edit_class(step)}:{type(e).__name__}")
                    done.append(step)
                    break
                if step['op'] == 'renumber-nodes':
                    used_ids_setter = True
                if step['op'] != 'pop-var' and step.get('fam') != 'nodal' and step['op'] not in ('overwrite', 'add-var'):
                    geo = False
                count('history:edit:' + edit_class(step) + (' [' + note.split(':')[0] + ']' if note else ''))
                done.append(step)
                prev = None
            elif kind == 'query':
                try:
                    with contextlib.redirect_stderr(io.StringIO()):
                        G.quiet(run_query, ctx, fd, step, st)
                    count('history:query:' + step['q'])
                except Exception as e:  # noqa
                    count(f"history:query-raised:{step['q']}:{type(e).__name__}")
                done.append(step)
            else:
                ms, vss = public_state(fd, m, geo)
                why = outside_reason(ms, vss)
                if why:
                    count('history:outside:' + why)
                    done.append(step)
                    break
                # hypothesis of the Lean history theorem (`Coherent`): evaluated on the live object before every export
                stale = not coherent(fd)
                count('history:export:nodes.id2index ' + ('= enumerate(nodes.ids)' if not stale else 'STALE'))
                if stale and not (used_ids_setter and not _CFG.get('ids_setter_refreshes')):
                    fails.append(('tie', 'history hypothesis', len(done), 'nodes.id2index != enumerate(nodes.ids) before the export'))
                before = raw_state(fd, st['keep'], st['results'])
                n_res = len(st['results'])
                impl = do_export(fd, step, st)
                after = raw_state(fd, st['keep'], st['results'][:n_res])
                done.append(step)
                idx = len(done) - 1
                changed = [key for key in before if after.get(key) != before[key]] + [key for key in after if key not in before]
                here = []
                if changed:
                    here.append(('export-modifies-object', 'the export changed ' + '; '.join(changed[:6]), idx, changed[:12]))
                if impl[0] == 'ok':
                    for sig, text in oracle(ms, vss, impl[1]):
                        here.append((sig, text, idx, text))
                    if prev is not None and prev != impl[1]:
                        here.append(('second-export-differs', 'two exports of the same object with nothing in between give different files '
                                     f"(cells {prev['cells'][:2]} then {impl[1]['cells'][:2]})", idx, impl[1]['cells'][:3]))
                    prev = impl[1]
                    last_ok = (ms, vss, impl[1])
                else:
                    here.append(('raises', f'the export raised {impl[1]} on a mesh inside the quantifier', idx, impl[1]))
                    prev = None
                    last_ok = None
                if here and stale and used_ids_setter:
                    # separately labelled sub-stream: ONE signature for whatever follows from the table that the `ids`
                    # setter left stale (observed: nodes.id2index != enumerate(nodes.ids) just before this export)
                    here = [('ids-setter:stale-id2index', 'after node ids were replaced through the public `ids` setter the lookup table of the '
                             'nodes still holds the old ids, and the export translates with it: ' + here[0][1], idx, here[0][3])]
                fails += here
                count('history:export:' + step['via'] + ':' + step['path'] + ':' + (impl[0] if impl[0] == 'ok' else 'raised'))
                for v in vss:
                    if v.get('misaligned'):
                        count('history:export:variable with its own id order (labelled, positional values not asserted)')
                if pending is not None and not (stale and used_ids_setter):
                    # (with the table left stale by the upstream `ids` setter the model of the export is `exportObj` on the
                    # stale table - `C06_ids_setter_counterexample` -, not `toMeshio` of the public state: not compared)
                    pending.append((ms, vss, (impl[0], impl[1] if impl[0] == 'ok' else impl[1].split(' ')[0]), 'history',
                                    {'mesh_at_export': G.describe(ms), 'step': idx}))
                if any(f[0] != 'tie' for f in fails):
                    break
        # -- an independently constructed fresh object with the same content gives the same file
        if all(f[0] == 'tie' for f in fails) and last_ok is not None and done and done[-1]['step'] == 'export':
            ms, vss, out = last_ok
            fresh = run_real(ctx, ms, vss)
            if fresh[0] != 'ok' or fresh[1] != out:
                fails.append(('differs-from-fresh-object', 'the file differs from the file of an independently constructed object with the '
                              'same nodes, elements and nodal variables '
                              f"(cells {out['cells'][:2]} vs {fresh[1]['cells'][:2] if fresh[0] == 'ok' else fresh[1]})", len(done) - 1,
                              out['cells'][:3]))
    finally:
        shutil.rmtree(st['dir'], ignore_errors=True)
    return done, fails


_N = [0]
_CFG = {}


def history_json(m, vs, steps):
    j = case_json(m, vs)
    j['history'] = C.jsonable(steps)
    j['how_to_read'] = ('construct `mesh` + `vars` (harness/c06.py: build), apply the steps of `history` in order to that ONE object '
                        '(apply_edit / run_query / do_export); the mesh of the property at an EXPORT step is what the object '
                        'reports just before it (public_state)')
    return j


def shrink_history(ctx, m, vs, steps, sig):
    """greedy: drop every step that is not needed for a failure of the same signature"""
    steps = list(steps)
    k = len(steps) - 2
    budget = 25
    while k >= 0 and budget > 0:
        cand = steps[:k] + steps[k + 1:]
        budget -= 1
        try:
            _, fl = run_history(ctx, m, vs, steps=cand, quiet_counts=True)
        except Exception:  # noqa
            fl = []
        if any(f[0] == sig for f in fl):
            steps = cand
        k -= 1
    return steps


def history_case(ctx, rnd, pending, ids_setter=False):
    stream = 'history:ids-setter' if ids_setter else 'history'
    m = gen_mesh_h(rnd, ctx.quick)
    vs = gen_vars(rnd, m, encodable_only=True)
    if rnd.random() < .25:
        dims = m.get('dims', [])
        m = pick_dtypes(rnd, m)
        m['dims'] = dims + ['mesh arrays (ids / connectivity / coordinates) in other dtypes']
    if rnd.random() < .3:          # variable names that are prefixes of each other
        ren = {'N0': 'PART1', 'N1': 'PART10', 'N2': 'PART', 'N3': 'PART1_'}
        for v in vs:
            v['name'] = ren.get(v['name'], v['name'])
            if v.get('attr') in ren:
                v['attr'] = ren[v['attr']]
        m['dims'].append('variable names prefixes of each other')
    plan = draw_plan(rnd, ids_setter)
    steps, fails = run_history(ctx, m, vs, plan=plan, rnd=rnd, pending=pending)
    n_exp = sum(1 for s in steps if s['step'] == 'export')
    ctx.case((stream, G.enc_mesh(m), repr(vs), repr(steps)),
             sample={'stream': stream, 'mesh': G.describe(m), 'dims': m.get('dims'), 'history': [step_label(s) for s in steps]},
             nontrivial=n_exp > 0)
    ctx.count(f'{stream}:exports per object:{min(n_exp, 4)}' + ('+' if n_exp >= 4 else ''))
    for d in m.get('dims', []):
        ctx.count('history:mesh-dimension:' + d)
    if len(m['blocks']) > 1:
        ctx.count('history:mixed mesh, element types inserted in ' + ('canonical' if list(G.insertion_order(
            {t: _IdsOnly([e for e, _ in b]) for t, b in m['blocks'].items()})) == list(m['blocks']) else 'NON-canonical') + ' order')
    kinds = ''.join({'export': 'X', 'query': 'q', 'edit': 'e'}[s['step']] for s in steps)
    for pat, name in [('XX', 'export twice in a row'), ('XeX', 'export, modify, export'), ('eX', 'modify, export'), ('qX', 'query, export')]:
        if pat in kinds:
            ctx.count('history:pattern:' + name)
    seen = set()
    for sig, text, idx, obs in fails:
        if sig in seen:
            continue
        seen.add(sig)
        if sig == 'tie':
            ctx.disagree('history: ' + obs, history_json(m, vs, steps[:idx + 1]), obs, 'the model re-establishes the table in every modifier')
            continue
        cut = steps[:idx + 1]
        if sig not in _SHRUNK and len(_SHRUNK) < 8:      # the first failure of every signature is minimised
            _SHRUNK.add(sig)
            cut = shrink_history(ctx, m, vs, cut, sig)
        ctx.fail(sig, text + ' [one object: ' + ' -> '.join(step_label(s) for s in cut) + ']', history_json(m, vs, cut), obs)


_SHRUNK = set()


class _IdsOnly:
    def __init__(self, ids):
        self.ids = ids


def table_oracle(ctx):
    """the table clauses on the real code (used when a table theorem breaks): femio's own dictionaries and the
    two tet2 reorderings, against the hand specification"""
    from femio import config
    from femio.fem_elemental_attribute import FEMElementalAttribute as E
    for t in TYPES:
        got = config.DICT_FEMIO_ELEMENT_TO_MESHIO_ELEMENT.get(t)
        ctx.case(('table', t), nontrivial=True)
        if got != SPEC_NAME[t]:
            ctx.fail('type-table', f'element type {t} is exported as {got!r}, the VTK cell of that shape is {SPEC_NAME[t]!r}',
                     {'table': 'DICT_FEMIO_ELEMENT_TO_MESHIO_ELEMENT', 'type': t}, got)
        elif config.DICT_MESHIO_ELEMENT_TO_FEMIO_ELEMENT.get(got) != t:
            ctx.fail('type-table-inverse', f'meshio type {got!r} does not map back to {t!r}', {'table': 'inverse', 'type': t}, got)
    row = np.arange(10)[None, :]
    e = E('ELEMENT', {})
    to = e._to_meshio_tet2(row)[0].tolist()
    back = E._from_meshio_tet2(e._to_meshio_tet2(row))[0].tolist()
    forth = e._to_meshio_tet2(E._from_meshio_tet2(row))[0].tolist()
    ctx.case(('table', 'tet2'), nontrivial=True)
    if back != list(range(10)) or forth != list(range(10)):
        ctx.fail('tet2-perms-not-inverse', f'_from_meshio_tet2(_to_meshio_tet2(0..9)) = {back}, the other way {forth}',
                 {'table': 'tet2'}, {'back': back, 'forth': forth})
    want = [0, 1, 2, 3] + [4 + FISTR_TET2_EDGES.index(tuple(sorted(ed))) for ed in VTK_TET2_EDGES]
    if to != want:
        ctx.fail('tet2-edge-order', f'_to_meshio_tet2 takes columns {to}; VTK edge order needs {want}', {'table': 'tet2'}, to)


def corpus(ctx, pending):
    """minimised past failures (corpus/C06/*.json: histories in the format of the `history` stream), replayed first"""
    for name, j in C.corpus_cases(PROP):
        if 'history' not in j:
            continue
        m = G.from_json(j['mesh'])
        m['geometric_tet2'] = j['mesh'].get('geometric_tet2', False)
        if j['mesh'].get('dtypes'):
            m['dtypes'] = j['mesh']['dtypes']
        vs = [dict(v, rows=[[F(x) for x in r] for r in v['rows']]) for v in j['vars']]
        steps, fails = run_history(ctx, m, vs, steps=j['history'], pending=pending)
        ctx.count('corpus')
        ctx.case(('corpus', name), sample={'stream': 'corpus', 'file': name, 'history': [step_label(s) for s in steps]}, nontrivial=True)
        for sig, text, idx, obs in fails:
            if sig == 'tie':
                ctx.disagree(f'corpus case {name}: ' + obs, j, obs, 'the model re-establishes the table in every modifier')
            else:
                ctx.fail(sig, f'corpus case {name}: {text} [one object: ' + ' -> '.join(step_label(s) for s in steps[:idx + 1]) + ']',
                         {k: v for k, v in j.items() if k != 'note'}, obs)


def run(ctx):
    rnd = ctx.rng
    table_oracle(ctx)
    pending = []
    _CFG['ids_setter_refreshes'] = ids_setter_refreshes()
    corpus(ctx, pending)
    for k in range(ctx.n(600, 5000)):
        one_case(ctx, rnd, pending)
        if len(pending) >= 200:
            flush(ctx, pending)
    for k in range(ctx.n(60, 300)):
        one_case(ctx, rnd, pending, 'misaligned')
    flush(ctx, pending)
    for k in range(ctx.n(10, 50)):
        one_case(ctx, rnd, pending, 'outside')
    # histories: the object is updated through the public API before the export (drawn after the other streams so that
    # their cases are the same as before for a given seed)
    for k in range(ctx.n(200, 1500)):
        updated_case(ctx, rnd, pending)
        if len(pending) >= 200:
            flush(ctx, pending)
    flush(ctx, pending)
    # histories on one live object: public modifications, other queries, several exports (drawn last: the cases of the
    # streams above stay what they were for a given seed)
    _CFG['ids_setter_refreshes'] = ids_setter_refreshes()
    ctx.count('history:tree: FEMAttribute.ids setter ' + ('refreshes' if _CFG['ids_setter_refreshes'] else 'does NOT refresh') + ' id2index')
    for k in range(ctx.n(160, 2500)):
        history_case(ctx, rnd, pending, ids_setter=(k % 9 == 8))
        if len(pending) >= 200:
            flush(ctx, pending)
    flush(ctx, pending)
    if ctx.driver is None:
        for k in range(ctx.n(200, 800)):
            history_case(ctx, rnd, None, ids_setter=(k % 9 == 8))
        for k in range(ctx.n(300, 1000)):
            one_case(ctx, rnd, pending)
            pending.clear()
        for k in range(ctx.n(100, 500)):
            updated_case(ctx, rnd, pending)
            pending.clear()
    if ctx.dist.get('misaligned:values-bound-to-other-nodes'):
        ctx.notes.append('misaligned stream (outside the default quantifier, DESIGN F9 class): point data is written positionally, '
                         'a nodal variable whose own id order differs from the mesh ends up bound to other nodes in '
                         f"{ctx.dist['misaligned:values-bound-to-other-nodes']} cases")


def replay(ctx, obj):
    case = obj['input']
    if 'table' in case:
        table_oracle(ctx)
        return {'fails': bool(ctx.failures), 'violations': [(f['signature'], f['what']) for f in ctx.failures]}
    m = G.from_json(case['mesh'])
    # replay files are written with sorted keys: back to the canonical type order the generators produce
    m['blocks'] = {t: m['blocks'][t] for t in sorted(m['blocks'], key=G.ELEMENT_TYPES.index)}
    m['geometric_tet2'] = case['mesh'].get('geometric_tet2', False)
    if case['mesh'].get('dtypes'):
        m['dtypes'] = case['mesh']['dtypes']
    vs = case['vars']
    for v in vs:
        v['rows'] = [[F(x) for x in r] for r in v['rows']]
    if 'history' in case:
        _CFG['ids_setter_refreshes'] = ids_setter_refreshes()
        steps, fails = run_history(ctx, m, vs, steps=case['history'], quiet_counts=True)
        return {'fails': any(f[0] != 'tie' for f in fails), 'history': [step_label(s) for s in steps],
                'violations': [(f[0], f[1]) for f in fails if f[0] != 'tie'],
                'model_tie': [f[3] for f in fails if f[0] == 'tie']}
    upd = case.get('update_ids')
    impl = run_real(ctx, m, vs, upd)
    res = {'outcome': impl[0] if impl[0] == 'ok' else impl[1]}
    if upd is not None:
        # the mesh of the property is the one the object reports after the update
        m = mesh_after_update(m, upd)
        res['node_ids_at_export'] = [i for i, _ in m['nodes']]
    if impl[0] == 'ok':
        bad = oracle(m, vs, impl[1])
        res.update(violations=bad, fails=bool(bad), cells=impl[1]['cells'][:3])
    else:
        res.update(fails=True, violations=[('raises', impl[1])])
    if ctx.driver is not None:
        model = parse_model(ctx.driver.ask(model_line(m, vs)), vs)
        res['model_agrees'] = not compare(impl, model, vs)
    return res
