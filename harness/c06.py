"""C06 - legacy VTK export describes the same mesh when read back by meshio (DESIGN.md section 4, C06).

Tie T: `femioToMeshio`, `meshioToFemio`, `tet2ToMeshio`, `tet2FromMeshio`, `elementTypes` regenerated from the tree
(theorems `C06_type_table`, `C06_tet2_perms_inverse`, `C06_tet2_edges` by kernel `decide`).
Tie D: the real `FEMData.write('vtk', f)` followed by `meshio.read(f)` (independent parser) is compared with
`Femio.Meshio.toMeshio` (`c06.to_meshio`): points in storage order, cell blocks (meshio type, zero-based rows),
point data.
Oracle: the statement of the property from ids, with hand specifications that are not femio code (the VTK cell
type of each shape, VTK's mid-edge order of the quadratic tetrahedron; for geometric tet2 meshes additionally
"point 4+k of a cell is the midpoint of the corners of VTK edge k").
Separately labelled streams: nodal variables whose own id order differs from the mesh (`misaligned:*`), element
types outside the property's list (`outside:*`).
Stream `updated` (inside the quantifier, reported through `fail`): the generated mesh object goes through a public
update of its nodes before the export (`nodes.update(ids of existing nodes, their own coordinates,
allow_overwrite=True)`: same mesh, but femio may re-sort the storage order); the mesh handed to the model and to the
oracle is the one the object reports after the update (`fd.nodes.ids`, `fd.nodes.data`), the nodal variables are
attached afterwards in that order.
"""
import contextlib
import io
from fractions import Fraction as F

import numpy as np

from . import common as C
from . import meshgen as G

PROP = 'C06'
LEAN_MODULES = ['Femio.Props.C06']
THEOREMS = ['C06_index_translation', 'C06_export_succeeds', 'C06_type_table', 'C06_tet2_perms_inverse',
            'C06_tet2_edges', 'C06_point_data']
PARTIAL = []
RULE = ('meshes over the eight types the property names (line, tri, quad, tet, tet2, pyr, prism, hex): combinatorial '
        '(arbitrary connectivity, 1-8 types mixed) and geometric (conforming bricks, tet meshes promoted to tet2 with exact '
        'mid-edge nodes); node ids dense / sparse / ~1e6 / ~2e9 / prefix-like in ascending / descending / shuffled storage order, '
        'unreferenced nodes; 1-4 nodal variables of rank 1-2 (widths 1, 2, 3, 6, 9; float and int) plus rank-3 ones (which the '
        'export drops by design); in 35% of the cases a share of the variables is stored under a dict key that differs from '
        'its FEMAttribute.name (one name shared by several keys, the key of another variable, a fresh name; attached by '
        'nodal_data[key] = attribute, update({key: attribute}) or set_attribute_data(key, data, name=...)): the point-data name '
        'is the KEY; a case is one mesh + variables written with write("vtk") and read with meshio.read; '
        'non-trivial when the storage order is not 1..n ascending (ids differ from positions + 1); stream "updated": the same '
        'meshes after nodes.update(subset or permutation of the existing ids, the same coordinates, allow_overwrite=True) on the '
        'object (histories construct -> update -> export; the mesh compared is the one the object reports after the update)')
ASSUMPTIONS = [
    'the VTK file encoding (binary legacy VTK 5.1) is meshio\'s, on both sides; meshio pads 2-component point data with a '
    'zero third component and reads (n,1) arrays back as (n,): compared up to that',
    'VTK node order of the first-order cells equals femio\'s order (line, triangle, quad, tetra, pyramid, wedge, hexahedron: '
    'hand specification from the VTK file-format document; femio\'s prism has the outward-pointing base triangle first, as VTK_WEDGE)',
    'variable names are plain identifiers',
]
TRUSTED = ['C06: hand specifications in harness/c06.py (VTK cell-type names/numbers, VTK quadratic-tetra edge order) and '
           'in Props/C06.lean (vtkCellType, vtkTet2Edges, fistrTet2Edges)',
           'C06: meshio 5.3.5 VTK writer and reader (the independent reader the property names)']

TYPES = ['line', 'tri', 'quad', 'tet', 'tet2', 'pyr', 'prism', 'hex']
SPEC_NAME = {'line': 'line', 'tri': 'triangle', 'quad': 'quad', 'tet': 'tetra', 'tet2': 'tetra10', 'pyr': 'pyramid',
             'prism': 'wedge', 'hex': 'hexahedron'}
VTK_TET2_EDGES = [(0, 1), (1, 2), (0, 2), (0, 3), (1, 3), (2, 3)]      # vtkQuadraticTetra
FISTR_TET2_EDGES = G.TET2_EDGES                                         # femio / FrontISTR 342
ERR = {ValueError: 'value', KeyError: 'key', IndexError: 'index', NotImplementedError: 'other'}
T_IDX = {t: i for i, t in enumerate(G.ELEMENT_TYPES)}
SHAPES = [(), (1,), (2,), (3,), (6,), (9,), (3, 3)]


def gen_mesh(rnd, quick=True, types_pool=None):
    r = rnd.random()
    if r < .3 and types_pool is None:
        kind = rnd.choice(['tet', 'tet', 'hex', 'mixed', 'pyr', 'prism'])
        m = G.gen_geometric(rnd, kind=kind, max_cells=2)
        if kind == 'tet' and rnd.random() < .7:
            m = G.promote_tet2(rnd, m)
            m['geometric_tet2'] = True
    else:
        pool = types_pool or TYPES
        types = rnd.sample(pool, rnd.randint(1, min(len(pool), rnd.choice([1, 2, 3, 8]))))
        m = G.gen_combinatorial(rnd, types=types, max_elems=10 if quick else 40)
    m['nodes'] = [(i, tuple(F(float(x)) for x in p)) for i, p in m['nodes']]
    return m


def gen_vars(rnd, m, misaligned=False):
    nids = [i for i, _ in m['nodes']]
    out = []
    for k in range(rnd.randint(1, 4)):
        shape = rnd.choice(SHAPES)
        width = int(np.prod(shape)) if shape else 1
        integer = rnd.random() < .2
        rows = [[F(rnd.randint(-4000, 4000), 1 if integer else rnd.choice([1, 2, 4, 8])) for _ in range(width)] for _ in nids]
        out.append({'name': f'N{k}', 'shape': list(shape), 'ids': list(nids), 'rows': rows, 'int': integer})
    if misaligned:
        v = out[0]
        while len(v['ids']) > 1 and v['ids'] == nids:
            rnd.shuffle(v['ids'])
        v['misaligned'] = True
        v['shape'] = v['shape'] if len(v['shape']) < 2 else [9]
    if rnd.random() < .35:
        rename_some(rnd, out)
    return out


def rename_some(rnd, vs):
    """a share of the variables is stored in nodal_data under a dict KEY (v['name']: the variable's name for the user,
    hence the point-data name) that differs from its FEMAttribute.name (v['attr']): one name shared by several keys, the
    key of another variable, or a fresh name; attached through nodal_data[key] = attribute, nodal_data.update({key:
    attribute}) or nodal_data.set_attribute_data(key, data, name=...)"""
    keys = [v['name'] for v in vs]
    for v in vs:
        if rnd.random() < .65:
            others = [k for k in keys if k != v['name']]
            r = rnd.random()
            v['attr'] = 'S' if r < .45 else rnd.choice(others) if (r < .7 and others) else 'A' + v['name']
            v['how'] = rnd.choice(['setitem', 'update', 'set_attribute_data'])


def count_renames(ctx, vs, stream=''):
    ren = [v for v in vs if v.get('attr', v['name']) != v['name']]
    for v in ren:
        ctx.count(f'{stream}key != FEMAttribute.name: rank{len(v["shape"]) + 1} variable attached by {v["how"]}')
    low = [v.get('attr', v['name']) for v in vs if len(v['shape']) < 2]
    if len(set(low)) < len(low):
        ctx.count(f'{stream}key != FEMAttribute.name: cases with two keys (rank <= 2) sharing one attribute name')
    if any(v['attr'] in {w['name'] for w in vs} for v in ren):
        ctx.count(f'{stream}key != FEMAttribute.name: cases with an attribute named like another key')


def gen_update(rnd, m):
    """ids (existing nodes only) handed to nodes.update(..., allow_overwrite=True): a proper subset in random order, a
    single node, or all nodes in another order; the values are the nodes' own coordinates"""
    nids = [i for i, _ in m['nodes']]
    r = rnd.random()
    if r < .25:
        sub = [rnd.choice(nids)]
    elif r < .8:
        sub = rnd.sample(nids, rnd.randint(1, max(1, len(nids) - 1)))
    else:
        sub = rnd.sample(nids, len(nids))
    return sub


def update_nodes(fd, m, upd):
    """the public update (same coordinates); returns the mesh as the object reports it afterwards"""
    coords = dict(m['nodes'])
    G.quiet(fd.nodes.update, np.array(upd), np.array([[float(x) for x in coords[i]] for i in upd]), allow_overwrite=True)
    m2 = dict(m)
    m2['nodes'] = [(int(i), tuple(F(float(x)) for x in row)) for i, row in zip(fd.nodes.ids, np.asarray(fd.nodes.data))]
    return m2


def mesh_after_update(m, upd):
    return update_nodes(G.to_femio(m), m, upd)


def build(m, vs, upd=None):
    from femio import FEMAttribute
    fd = G.to_femio(m)
    if upd is not None:
        update_nodes(fd, m, upd)
    for v in vs:
        data = np.array([[int(x) if v['int'] else float(x) for x in r] for r in v['rows']]).reshape(
            [len(v['ids'])] + list(v['shape']))
        key, attr, how, nd = v['name'], v.get('attr', v['name']), v.get('how', 'setitem'), fd.nodal_data
        if how == 'set_attribute_data' and not (len(nd) and [int(i) for i in list(nd.values())[0].ids] == list(v['ids'])
                                                and nd.are_same_lengths()):
            how = 'setitem'      # set_attribute_data binds the rows to the ids of the first attribute
        if how == 'set_attribute_data':
            G.quiet(nd.set_attribute_data, key, data, name=attr)
        elif how == 'update':
            nd.update({key: FEMAttribute(attr, np.array(v['ids']), data, silent=True)})
        else:
            nd[key] = FEMAttribute(attr, np.array(v['ids']), data, silent=True)
    return fd


def run_real(ctx, m, vs, upd=None):
    import meshio
    f = ctx.tmp / 'c06.vtk'
    if f.exists():
        f.unlink()
    try:
        fd = build(m, vs, upd)
        with contextlib.redirect_stderr(io.StringIO()):     # meshio warns about 2-component vectors
            G.quiet(fd.write, 'vtk', str(f))
    except tuple(ERR) as e:
        return 'err', next(v for k, v in ERR.items() if isinstance(e, k))
    except Exception as e:  # noqa
        return 'err', 'exc:' + type(e).__name__
    mm = G.quiet(meshio.read, str(f))
    points = [[F(float(x)) for x in p] for p in np.asarray(mm.points)]
    cells = [(cb.type, [[int(k) for k in r] for r in cb.data]) for cb in mm.cells]
    pd = {k: [[F(float(x)) for x in np.ravel(r)] for r in v] for k, v in mm.point_data.items()}
    return 'ok', {'points': points, 'cells': cells, 'point_data': pd}


def model_line(m, vs):
    toks = ['c06.to_meshio', G.enc_mesh(m), str(len(vs))]
    for k, v in enumerate(vs):
        toks += [str(k), str(len(v['shape']) + 1), C.enc_list(v['ids']),
                 C.enc_list(v['rows'], lambda r: C.enc_list(r, C.enc_rat))]
    return ' '.join(toks)


def parse_model(rep, vs):
    t = C.Toks(rep)
    head = t.tok()
    if head == 'err':
        return 'err', t.tok()
    if head != 'ok':
        raise RuntimeError('driver: ' + rep[:200])
    points = t.lst(lambda: t.lst(t.rat))
    cells = []
    for _ in range(t.nat()):
        t.nat()
        name = C.unesc(t.tok())
        cells.append((name, t.lst(lambda: t.lst(t.nat))))
    pd = {}
    for _ in range(t.nat()):
        name = vs[t.nat()]['name']
        pd[name] = t.lst(lambda: t.lst(t.rat))
    assert t.done()
    return 'ok', {'points': points, 'cells': cells, 'point_data': pd}


def unpad(rows, width):
    """meshio pads 2-vectors with a zero third component"""
    if width == 2 and all(len(r) == 3 and r[2] == 0 for r in rows):
        return [r[:2] for r in rows]
    return rows


def compare(impl, model, vs):
    if impl[0] != model[0]:
        return [f'outcome {impl} vs {model}'[:200]]
    if impl[0] == 'err':
        return [] if impl[1] == model[1] else [f'exception class {impl[1]} vs {model[1]}']
    a, b = impl[1], model[1]
    diffs = []
    if a['points'] != b['points']:
        diffs.append('points')
    if a['cells'] != b['cells']:
        diffs.append('cells')
    width = {v['name']: (int(np.prod(v['shape'])) if v['shape'] else 1) for v in vs}
    apd = {k: unpad(r, width.get(k)) for k, r in a['point_data'].items() if k != 'NODE'}
    if apd != b['point_data']:
        diffs.append('point_data')
    return diffs


def oracle(m, vs, out):
    bad = []
    coords = {i: list(p) for i, p in m['nodes']}
    # points in storage order
    if out['points'] != [list(p) for _, p in m['nodes']]:
        bad.append(('points', 'points of the file differ from the node coordinates in storage order'))
        return bad
    pts = out['points']
    # one cell block per element type, one cell per element, right type, VTK node order, ids -> positions
    want_types = [SPEC_NAME[t] for t in m['blocks']]
    got_types = [c[0] for c in out['cells']]
    if got_types != want_types:
        bad.append(('cell-type', f'cell types {got_types} != {want_types}'))
        return bad
    for (t, b), (_, rows) in zip(m['blocks'].items(), out['cells']):
        if len(rows) != len(b):
            bad.append(('cell-count', f'{t}: {len(rows)} cells for {len(b)} elements'))
            continue
        for (e, c), row in zip(b, rows):
            want = list(c)
            if t == 'tet2':
                # VTK mid-edge node k sits on VTK edge k; femio stores the mid node of FrontISTR edge j at 4 + j
                want = c[:4] + [c[4 + FISTR_TET2_EDGES.index(tuple(sorted(ed)))] for ed in VTK_TET2_EDGES]
            if len(row) != len(want) or any(not (0 <= k < len(pts)) for k in row):
                bad.append(('index-range', f'{t} element {e}: row {row}'))
                break
            if [pts[k] for k in row] != [coords[n] for n in want]:
                bad.append(('index-translation', f'{t} element {e}: cell row {row} does not address the nodes {want}'))
                break
            if t == 'tet2' and m.get('geometric_tet2'):
                for k, (a, b2) in enumerate(VTK_TET2_EDGES):
                    mid = [(x + y) / 2 for x, y in zip(pts[row[a]], pts[row[b2]])]
                    if pts[row[4 + k]] != mid:
                        bad.append(('tet2-mid-edge', f'tet2 element {e}: point {4 + k} of the cell is not the midpoint of VTK edge {(a, b2)}'))
                        break
    # every nodal variable of rank <= 2 as point data, row k = value of the node stored at position k
    nids = [i for i, _ in m['nodes']]
    for v in vs:
        if len(v['shape']) >= 2 or v.get('misaligned'):
            continue
        got = out['point_data'].get(v['name'])
        if got is None:
            bad.append(('point-data-missing', f"nodal variable {v['name']} is not in the file"))
            continue
        byid = dict(zip(v['ids'], v['rows']))
        width = int(np.prod(v['shape'])) if v['shape'] else 1
        if unpad(got, width) != [byid[i] for i in nids]:
            bad.append(('point-data', f"point data {v['name']} is not the variable's value at the node stored at each position"))
    node_pd = out['point_data'].get('NODE')
    if node_pd is not None and node_pd != pts:
        bad.append(('point-data', 'point data NODE differs from the points'))
    return bad


def case_json(m, vs, upd=None):
    j = G.to_json(m)
    j['geometric_tet2'] = bool(m.get('geometric_tet2'))
    out = {'mesh': j, 'vars': C.jsonable(vs)}
    if upd is not None:
        # history: construct `mesh`, nodes.update(update_ids, their own coordinates, allow_overwrite=True), attach `vars`, export
        out['update_ids'] = list(upd)
    return out


def order_class(m):
    ids = [i for i, _ in m['nodes']]
    return 'asc' if ids == sorted(ids) else 'desc' if ids == sorted(ids, reverse=True) else 'shuf'


def one_case(ctx, rnd, pending, stream='main'):
    if stream == 'outside':
        m = gen_mesh(rnd, ctx.quick, types_pool=['hex2', 'tet', 'tri'])
    else:
        m = gen_mesh(rnd, ctx.quick)
    vs = gen_vars(rnd, m, misaligned=(stream == 'misaligned'))
    impl = run_real(ctx, m, vs)
    ids = [i for i, _ in m['nodes']]
    ctx.case((stream, G.enc_mesh(m), repr(vs)),
             sample={'stream': stream, 'mesh': G.describe(m),
                     'vars': [(v['name'], v['shape'], 'int' if v['int'] else 'float') + ((f"FEMAttribute.name={v['attr']}", v['how'])
                                                                                          if 'attr' in v else ()) for v in vs],
                     'outcome': impl[0] if impl[0] == 'ok' else impl[1]},
             nontrivial=stream == 'main' and ids != list(range(1, len(ids) + 1)))
    if stream == 'main':
        ctx.count('mesh:' + ('mixed' if len(m['blocks']) > 1 else 'uniform'))
        ctx.count('mesh-order:' + order_class(m))
        ctx.count('mesh-ids:' + str(m.get('id_style')))
        ctx.count('mesh-unreferenced:' + ('yes' if m.get('n_unref') else 'no'))
        ctx.count('outcome:' + (impl[0] if impl[0] == 'ok' else 'raised:' + impl[1]))
        for t in m['blocks']:
            ctx.count('etype:' + t)
        for v in vs:
            ctx.count(f"nodal:rank{len(v['shape']) + 1}:width{int(np.prod(v['shape'])) if v['shape'] else 1}:" + ('int' if v['int'] else 'float'))
        count_renames(ctx, vs)
        if impl[0] == 'ok':
            for sig, text in oracle(m, vs, impl[1]):
                ctx.fail(sig, text, case_json(m, vs), text)
            if any(len(v['shape']) >= 2 and v['name'] in impl[1]['point_data'] for v in vs):
                ctx.count('rank3-exported')
        else:
            ctx.fail('raises', f'write("vtk") raised {impl[1]} on a mesh inside the quantifier', case_json(m, vs), impl[1])
    elif stream == 'misaligned':
        if impl[0] == 'ok':
            for sig, text in oracle(m, vs, impl[1]):
                ctx.fail(sig, text, case_json(m, vs), text)
            v = vs[0]
            got = impl[1]['point_data'].get(v['name'])
            byid = dict(zip(v['ids'], v['rows']))
            width = int(np.prod(v['shape'])) if v['shape'] else 1
            kept = got is not None and unpad(got, width) == [byid[i] for i in ids]
            ctx.count('misaligned:' + ('values-kept' if kept else 'values-bound-to-other-nodes'))
        else:
            ctx.count('misaligned:raised:' + impl[1])
    else:
        ctx.count('outside:' + '+'.join(m['blocks']) + ':' + (impl[0] if impl[0] == 'ok' else 'raised:' + impl[1]))
    if stream != 'outside':
        pending.append((m, vs, impl, stream))


def updated_case(ctx, rnd, pending):
    """stream `updated`: construct -> nodes.update(existing ids, same coordinates, allow_overwrite=True) -> attach the
    nodal variables in the order the object now reports -> write('vtk') -> meshio.read.  The mesh of the property is
    the object's mesh at export time, i.e. what `fd.nodes.ids` / `fd.nodes.data` report after the update."""
    stream = 'updated'
    m = gen_mesh(rnd, ctx.quick)
    upd = gen_update(rnd, m)
    m2 = mesh_after_update(m, upd)
    vs = gen_vars(rnd, m2)
    impl = run_real(ctx, m, vs, upd)
    case = case_json(m, vs, upd)
    ids, ids2 = [i for i, _ in m['nodes']], [i for i, _ in m2['nodes']]
    ctx.case((stream, G.enc_mesh(m), repr(upd), repr(vs)),
             sample={'stream': stream, 'mesh': G.describe(m), 'update_ids': len(upd), 'order_after_update': order_class(m2),
                     'outcome': impl[0] if impl[0] == 'ok' else impl[1]},
             nontrivial=ids2 != list(range(1, len(ids2) + 1)))
    ctx.count(f'updated:order:{order_class(m)}->{order_class(m2)}')
    ctx.count('updated:storage-order:' + ('changed' if ids != ids2 else 'kept'))
    ctx.count('updated:ids:' + ('one' if len(upd) == 1 else 'all-permuted' if len(upd) == len(ids) else 'subset'))
    ctx.count('updated:outcome:' + (impl[0] if impl[0] == 'ok' else 'raised:' + impl[1]))
    count_renames(ctx, vs, 'updated:')
    # the update is semantically the identity (same id -> coordinates map): recorded, it is not a clause of C06
    ctx.count('updated:id->coordinates:' + ('kept' if dict(m['nodes']) == dict(m2['nodes']) and len(ids) == len(ids2) else 'CHANGED'))
    if impl[0] == 'ok':
        for sig, text in oracle(m2, vs, impl[1]):
            ctx.fail(sig, text + ' [after nodes.update(existing ids, same coordinates, allow_overwrite=True); node ids in storage '
                     f'order at export: {ids2[:12]}]', case, text)
    else:
        ctx.fail('raises', f'write("vtk") raised {impl[1]} on a mesh inside the quantifier (after a nodes.update)', case, impl[1])
    pending.append((m2, vs, impl, stream, case))


def flush(ctx, pending):
    if ctx.driver is None or not pending:
        pending.clear()
        return
    replies = ctx.driver.ask_many([model_line(p[0], p[1]) for p in pending])
    for (m, vs, impl, stream, *rest), rep in zip(pending, replies):
        if rep.startswith('err bad-op'):
            raise RuntimeError('driver rejected a c06 request')
        model = parse_model(rep, vs)
        for d in compare(impl, model, vs):
            ctx.disagree(d + ('' if stream == 'main' else f' [{stream}]'), rest[0] if rest else case_json(m, vs),
                         impl[1] if impl[0] == 'err' else impl[1]['cells'][:2], model[1] if model[0] == 'err' else model[1]['cells'][:2])
    pending.clear()


def table_oracle(ctx):
    """the table clauses on the real code (used when a table theorem breaks): femio's own dictionaries and the
    two tet2 reorderings, against the hand specification"""
    from femio import config
    from femio.fem_elemental_attribute import FEMElementalAttribute as E
    for t in TYPES:
        got = config.DICT_FEMIO_ELEMENT_TO_MESHIO_ELEMENT.get(t)
        ctx.case(('table', t), nontrivial=True)
        if got != SPEC_NAME[t]:
            ctx.fail('type-table', f'element type {t} is exported as {got!r}, the VTK cell of that shape is {SPEC_NAME[t]!r}',
                     {'table': 'DICT_FEMIO_ELEMENT_TO_MESHIO_ELEMENT', 'type': t}, got)
        elif config.DICT_MESHIO_ELEMENT_TO_FEMIO_ELEMENT.get(got) != t:
            ctx.fail('type-table-inverse', f'meshio type {got!r} does not map back to {t!r}', {'table': 'inverse', 'type': t}, got)
    row = np.arange(10)[None, :]
    e = E('ELEMENT', {})
    to = e._to_meshio_tet2(row)[0].tolist()
    back = E._from_meshio_tet2(e._to_meshio_tet2(row))[0].tolist()
    forth = e._to_meshio_tet2(E._from_meshio_tet2(row))[0].tolist()
    ctx.case(('table', 'tet2'), nontrivial=True)
    if back != list(range(10)) or forth != list(range(10)):
        ctx.fail('tet2-perms-not-inverse', f'_from_meshio_tet2(_to_meshio_tet2(0..9)) = {back}, the other way {forth}',
                 {'table': 'tet2'}, {'back': back, 'forth': forth})
    want = [0, 1, 2, 3] + [4 + FISTR_TET2_EDGES.index(tuple(sorted(ed))) for ed in VTK_TET2_EDGES]
    if to != want:
        ctx.fail('tet2-edge-order', f'_to_meshio_tet2 takes columns {to}; VTK edge order needs {want}', {'table': 'tet2'}, to)


def run(ctx):
    rnd = ctx.rng
    table_oracle(ctx)
    pending = []
    for k in range(ctx.n(600, 5000)):
        one_case(ctx, rnd, pending)
        if len(pending) >= 200:
            flush(ctx, pending)
    for k in range(ctx.n(60, 300)):
        one_case(ctx, rnd, pending, 'misaligned')
    flush(ctx, pending)
    for k in range(ctx.n(10, 50)):
        one_case(ctx, rnd, pending, 'outside')
    # histories: the object is updated through the public API before the export (drawn after the other streams so that
    # their cases are the same as before for a given seed)
    for k in range(ctx.n(200, 1500)):
        updated_case(ctx, rnd, pending)
        if len(pending) >= 200:
            flush(ctx, pending)
    flush(ctx, pending)
    if ctx.driver is None:
        for k in range(ctx.n(300, 1000)):
            one_case(ctx, rnd, pending)
            pending.clear()
        for k in range(ctx.n(100, 500)):
            updated_case(ctx, rnd, pending)
            pending.clear()
    if ctx.dist.get('misaligned:values-bound-to-other-nodes'):
        ctx.notes.append('misaligned stream (outside the default quantifier, DESIGN F9 class): point data is written positionally, '
                         'a nodal variable whose own id order differs from the mesh ends up bound to other nodes in '
                         f"{ctx.dist['misaligned:values-bound-to-other-nodes']} cases")


def replay(ctx, obj):
    case = obj['input']
    if 'table' in case:
        table_oracle(ctx)
        return {'fails': bool(ctx.failures), 'violations': [(f['signature'], f['what']) for f in ctx.failures]}
    m = G.from_json(case['mesh'])
    m['geometric_tet2'] = case['mesh'].get('geometric_tet2', False)
    vs = case['vars']
    for v in vs:
        v['rows'] = [[F(x) for x in r] for r in v['rows']]
    upd = case.get('update_ids')
    impl = run_real(ctx, m, vs, upd)
    res = {'outcome': impl[0] if impl[0] == 'ok' else impl[1]}
    if upd is not None:
        # the mesh of the property is the one the object reports after the update
        m = mesh_after_update(m, upd)
        res['node_ids_at_export'] = [i for i, _ in m['nodes']]
    if impl[0] == 'ok':
        bad = oracle(m, vs, impl[1])
        res.update(violations=bad, fails=bool(bad), cells=impl[1]['cells'][:3])
    else:
        res.update(fails=True, violations=[('raises', impl[1])])
    if ctx.driver is not None:
        model = parse_model(ctx.driver.ask(model_line(m, vs)), vs)
        res['model_agrees'] = not compare(impl, model, vs)
    return res
