"""Helpers shared by the FrontISTR text-format checks (C01 .msh, C03 .cnt).

A decimal datum with p decimals is the triple (neg, mant, exp): value (-1)^neg * mant * 10^(exp - p)
with 10^p <= mant < 10^(p+1) or mant == 0 - exactly what `'%.pE' % x` prints (Lean: `Fistr.Sci`).
Values are chosen as integers first and turned into floats through exact rationals, so the
implementation's printf is never used to produce the model's input.
"""
import contextlib
import io
from fractions import Fraction as F


def quiet(f, *a, **k):
    with contextlib.redirect_stdout(io.StringIO()):
        return f(*a, **k)


def sci_fraction(s, p):
    neg, mant, exp = s
    v = F(mant) * (F(10) ** (exp - p))
    return -v if neg else v


def sci_float(s, p):
    neg, mant, exp = s
    if mant == 0:
        return -0.0 if neg else 0.0
    return float(sci_fraction(s, p))


def rand_sci(rnd, p, style=None, allow_zero=True):
    style = style or rnd.choice(['unit', 'unit', 'unit', 'int', 'zero', 'wide', 'short'])
    neg = rnd.random() < .4
    if style == 'zero' and allow_zero:
        return (neg, 0, 0)
    if style == 'int':
        k = rnd.randint(1, 9)
        return (neg, k * 10 ** p, rnd.randint(0, 2))
    if style == 'short':     # few significant digits, trailing zeros
        d = rnd.randint(1, min(4, p + 1))
        return (neg, rnd.randint(10 ** (d - 1), 10 ** d - 1) * 10 ** (p + 1 - d), rnd.randint(-3, 3))
    mant = rnd.randint(10 ** p, 10 ** (p + 1) - 1)
    if style == 'wide':
        return (neg, mant, rnd.choice([-300, -101, -100, -99, -12, -10, -9, 9, 10, 12, 99, 100, 101, 300]))
    return (neg, mant, rnd.randint(-4, 4))


def sci_of_fraction(fr, p):
    """(neg, mant, exp) if `fr` has at most p+1 significant decimal digits, else None"""
    fr = F(fr)
    if fr == 0:
        return (False, 0, 0)
    neg = fr < 0
    a = -fr if neg else fr
    e = 0
    while a >= F(10) ** (e + 1):
        e += 1
    while a < F(10) ** e:
        e -= 1
    mant = a * F(10) ** (p - e)
    if mant.denominator != 1:
        return None
    return (neg, int(mant), e)


def quantize(fr, digits=9):
    """nearest decimal with `digits` decimals (exact Fraction)"""
    q = F(10) ** digits
    return F(round(F(fr) * q), q)


def enc_sci(s):
    return f'{int(s[0])} {s[1]} {s[2]}'


def dec_float(neg, m, e):
    if m == 0:
        return -0.0 if neg else 0.0
    v = F(m) * (F(10) ** e)
    return float(-v if neg else v)


def read_dec(t):
    neg = t.nat()
    m = t.nat()
    e = int(t.tok())
    return dec_float(neg, m, e)


def rand_name(rnd, taken=(), first_alpha=False):
    alpha = 'ABCDEFGHIJKLMNOPQRSTUVWXYZabcdefghijklmnopqrstuvwxyz'
    while True:
        n = rnd.randint(1, 7)
        s = ''.join(rnd.choice(alpha + ('' if (first_alpha and k == 0) else '0123456789_')) for k in range(n))
        if s not in taken and s.upper() != 'ALL' and s.lower() not in ('nan', 'na', 'null', 'none', 'inf'):
            return s


def floats_equal(a, b):
    return a == b or (a != a and b != b)


def close(read, orig, rel):
    """`read` reproduces `orig` to the relative precision `rel` (exact for 0)"""
    if orig != orig:
        return read != read
    return abs(read - orig) <= rel * abs(orig)
