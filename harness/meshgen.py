"""Seeded structured mesh generators shared by the checks (DESIGN.md section 3).

A mesh is a dict
    {'nodes': [(id, (x, y, z))]   storage order, coordinates exact (Fraction),
     'blocks': {etype: [(eid, [node ids])]}   rows in block storage order,
     'kind', 'order': labels for the evidence histograms}
Every random choice comes from the `random.Random` passed in.
"""
import contextlib
import io
from fractions import Fraction as F

ELEMENT_TYPES = ['line', 'line2', 'spring', 'tri', 'tri2', 'quad', 'quad2', 'polygon', 'tet', 'tet2', 'pyr', 'pyr2',
                 'prism', 'prism2', 'hex', 'hex2', 'hexprism', 'polyhedron', 'unknown']
ARITY = {'line': 2, 'line2': 3, 'spring': 2, 'tri': 3, 'tri2': 6, 'quad': 4, 'quad2': 8, 'tet': 4, 'tet2': 10, 'pyr': 5,
         'prism': 6, 'hex': 8, 'hex2': 20, 'hexprism': 12}


def quiet(f, *a, **k):
    with contextlib.redirect_stdout(io.StringIO()):
        return f(*a, **k)


def det3(a, b, c):
    return a[0] * (b[1] * c[2] - b[2] * c[1]) - a[1] * (b[0] * c[2] - b[2] * c[0]) + a[2] * (b[0] * c[1] - b[1] * c[0])


def sub(a, b):
    return tuple(x - y for x, y in zip(a, b))


def tet6(p):
    return det3(sub(p[1], p[0]), sub(p[2], p[0]), sub(p[3], p[0]))


def signed(t, p):
    """6 x signed volume by femio's 'linear' decomposition (exact on Fractions)"""
    if t == 'tet':
        return tet6(p)
    if t == 'hex':
        return sum(tet6([p[a], p[b], p[c], p[d]]) for a, b, c, d in
                   [(4, 1, 0, 3), (6, 2, 1, 3), (6, 1, 4, 3), (3, 7, 4, 6), (5, 1, 4, 6)])
    if t == 'prism':
        return tet6([p[0], p[2], p[1], p[3]]) + tet6([p[1], p[3], p[2], p[4]]) + tet6([p[2], p[4], p[3], p[5]])
    if t == 'pyr':
        return tet6([p[0], p[1], p[2], p[4]]) + tet6([p[0], p[2], p[3], p[4]])
    raise ValueError(t)


KUHN = [(0, 1, 2, 6), (0, 2, 3, 6), (0, 3, 7, 6), (0, 7, 4, 6), (0, 4, 5, 6), (0, 5, 1, 6)]
PRISMS = [(0, 1, 2, 4, 5, 6), (0, 2, 3, 4, 6, 7)]
PYR_BASES = [(0, 3, 2, 1), (4, 5, 6, 7), (0, 1, 5, 4), (1, 2, 6, 5), (2, 3, 7, 6), (3, 0, 4, 7)]
FACES = {'tet': [[0, 2, 1], [0, 1, 3], [1, 2, 3], [0, 3, 2]],
         'hex': [[0, 1, 5, 4], [0, 3, 2, 1], [1, 2, 6, 5], [2, 3, 7, 6], [3, 0, 4, 7], [4, 5, 6, 7]],
         'pyr': [[0, 1, 4], [1, 2, 4], [2, 3, 4], [3, 0, 4], [0, 3, 2, 1]],
         'prism': [[0, 1, 2], [3, 5, 4], [0, 3, 4, 1], [1, 4, 5, 2], [0, 2, 5, 3]]}
# FrontISTR mid-edge order (edge k of tet2 = nodes 4+k):  femio tet2 = [c0..c3, m(1,2), m(0,2), m(0,1), m(0,3), m(1,3), m(2,3)]
TET2_EDGES = [(1, 2), (0, 2), (0, 1), (0, 3), (1, 3), (2, 3)]


def random_ids(rnd, n, style=None):
    style = style or rnd.choice(['dense', 'sparse', 'large', 'huge', 'prefix'])
    if style == 'dense':
        ids = list(range(1, n + 1))
    elif style == 'sparse':
        ids = rnd.sample(range(1, 50 * n + 2), n)
    elif style == 'large':
        ids = rnd.sample(range(10**6, 10**6 + 20 * n + 1), n)
    elif style == 'huge':
        ids = rnd.sample(range(2 * 10**9 - 50 * n - 1, 2 * 10**9), n)
    elif style == 'pow2':
        # (only on request, never drawn by default: existing streams are unchanged)  large sparse ids with a binary structure:
        # "parts" numbered independently with offsets that are multiples of 2^o, so the same local index occurs in several
        # parts (ids differing by exact multiples of 2^o), and - three times out of four - the largest id is 2^k - 1
        # (max id + 1 a power of two).  Arithmetic on packed / hashed rows of such ids wraps or collides where it does
        # not for random ids of the same magnitude.
        o, k = rnd.choice([(20, 22), (20, 22), (18, 23), (16, 24), (20, 23), (13, 17), (10, 18), (4, 20), (20, 31)])
        n_slots, cap = 2 ** (k - o), 2 ** o - 2
        parts = rnd.sample(range(n_slots), min(n_slots, max(rnd.randint(2, 4), -(-n // cap))))
        n_local = min(cap, -(-n // len(parts)) + rnd.randint(0, 2))
        base = rnd.choice([1, 1, 2 ** o - 1 - n_local])             # local indices start at 1 or end just below the next part
        pairs = rnd.sample([(p, j) for p in parts for j in range(n_local)], n)
        ids = [p * 2 ** o + base + j for p, j in pairs]
        if rnd.random() < .75:
            ids[ids.index(max(ids))] = 2 ** k - 1
    else:  # ids that are prefixes / digit permutations of each other
        pool = set()
        while len(pool) < n:
            b = rnd.choice([1, 12, 21, 123, 132, 1234])
            pool.add(int(str(b) + str(rnd.randint(0, 999)) * rnd.randint(0, 1)))
        ids = list(pool)
    return ids, style


def order_ids(rnd, keys, idmap, order=None):
    """storage order classes: ascending, descending, random shuffle, and two 'looks sorted' classes that
    shortcut guards typically get wrong: 'midshuf' (smallest first, largest last, middle shuffled) and 'swap2'
    (ascending with one adjacent transposition)"""
    order = order or rnd.choice(['asc', 'desc', 'shuf', 'shuf', 'midshuf', 'swap2'])
    keys = sorted(keys, key=lambda k: idmap[k], reverse=(order == 'desc'))
    if order == 'shuf':
        rnd.shuffle(keys)
    elif order == 'midshuf' and len(keys) > 3:
        mid = keys[1:-1]
        rnd.shuffle(mid)
        keys = [keys[0]] + mid + [keys[-1]]
    elif order == 'swap2' and len(keys) > 2:
        j = rnd.randrange(len(keys) - 1)
        keys[j], keys[j + 1] = keys[j + 1], keys[j]
    return keys, order


def gen_geometric(rnd, kind=None, max_cells=3, jitter=True, voids=True, unref=True, order=None, id_style=None,
                  affine=None):
    """conforming solid mesh: kind in tet | hex | mixed (hex + prism + pyr) | pyr | prism"""
    nx, ny, nz = (rnd.randint(1, max_cells) for _ in range(3))
    kind = kind or rnd.choice(['tet', 'hex', 'mixed'])

    def idx(x, y, z):
        return x + (nx + 1) * (y + (ny + 1) * z)
    pts = {idx(x, y, z): (F(x), F(y), F(z)) for z in range(nz + 1) for y in range(ny + 1) for x in range(nx + 1)}
    cells = [(x, y, z) for z in range(nz) for y in range(ny) for x in range(nx)]
    if voids and rnd.random() < .4 and len(cells) > 2:
        cells = rnd.sample(cells, rnd.randint(max(1, len(cells) // 2), len(cells) - 1))
    col_prism = {(x, y): rnd.random() < .5 for x in range(nx) for y in range(ny)}
    elems = []
    for (x, y, z) in cells:
        c = [idx(x, y, z), idx(x + 1, y, z), idx(x + 1, y + 1, z), idx(x, y + 1, z),
             idx(x, y, z + 1), idx(x + 1, y, z + 1), idx(x + 1, y + 1, z + 1), idx(x, y + 1, z + 1)]
        if kind == 'tet':
            elems += [('tet', [c[i] for i in t]) for t in KUHN]
        elif kind == 'hex':
            elems.append(('hex', c))
        elif kind == 'prism':
            elems += [('prism', [c[i] for i in t]) for t in PRISMS]
        elif kind == 'pyr':
            centre = len(pts) + 10**6 + len(elems)
            pts[centre] = tuple(sum(pts[i][k] for i in c) / 8 for k in range(3))
            elems += [('pyr', [c[i] for i in b] + [centre]) for b in PYR_BASES]
        else:
            r = rnd.random()
            if col_prism[(x, y)]:
                elems += [('prism', [c[i] for i in t]) for t in PRISMS]
            elif r < .35:
                centre = len(pts) + 10**6 + len(elems)
                pts[centre] = tuple(sum(pts[i][k] for i in c) / 8 for k in range(3))
                elems += [('pyr', [c[i] for i in b] + [centre]) for b in PYR_BASES]
            else:
                elems.append(('hex', c))
    if affine is None:
        affine = rnd.random() < .5
    while True:
        A = [[F(rnd.randint(-4, 4), rnd.choice([1, 2, 4])) for _ in range(3)] for _ in range(3)]
        if det3(*A) > 0:
            break
    t = [F(rnd.randint(-8, 8), 2) for _ in range(3)]
    if not affine:
        A = [[F(1), 0, 0], [0, F(1), 0], [0, 0, F(1)]]

    def mapped(jit):
        out = {}
        for k, q in pts.items():
            v = tuple(sum(A[r][c] * q[c] for c in range(3)) + t[r] for r in range(3))
            if jit:
                v = tuple(x + F(rnd.randint(-1, 1), 16) * min(abs(det3(*A)), 1) for x in v)
            out[k] = v
        return out
    base = mapped(False)
    fixed = []
    for ty, c in elems:
        if signed(ty, [base[n] for n in c]) < 0:
            perm = {'tet': [0, 2, 1, 3], 'prism': [0, 2, 1, 3, 5, 4], 'pyr': [0, 3, 2, 1, 4],
                    'hex': [0, 3, 2, 1, 4, 7, 6, 5]}[ty]
            c = [c[i] for i in perm]
        assert signed(ty, [base[n] for n in c]) > 0
        fixed.append((ty, c))
    pts2 = base
    jittered = False
    if jitter and rnd.random() < .4:
        cand = mapped(True)

        def ok(ty, c):
            P = [cand[n] for n in c]
            if signed(ty, P) <= 0:
                return False
            g = tuple(sum(q[k] for q in P) / len(P) for k in range(3))
            for f in FACES[ty]:
                fc = tuple(sum(P[i][k] for i in f) / len(f) for k in range(3))
                for i in range(len(f)):
                    if det3(sub(fc, g), sub(P[f[i - 1]], g), sub(P[f[i]], g)) <= 0:
                        return False
            return True
        if all(ok(ty, c) for ty, c in fixed):
            pts2 = cand
            jittered = True
    pts = dict(pts2)
    used = sorted({n for _, c in fixed for n in c})
    n_unref = 0
    if unref and rnd.random() < .3:
        for k in range(rnd.randint(1, 2)):
            pts[-1 - k] = (F(99 + k), F(99), F(99))
            used.append(-1 - k)
            n_unref += 1
    id_list, id_style = random_ids(rnd, len(used), id_style)
    rnd.shuffle(id_list)
    ids = dict(zip(used, id_list))
    keys, order = order_ids(rnd, used, ids, order)
    eid_list, _ = random_ids(rnd, len(fixed), rnd.choice(['dense', 'sparse', 'large']))
    rnd.shuffle(eid_list)
    blocks = {}
    for (ty, c), e in zip(fixed, eid_list):
        blocks.setdefault(ty, []).append((e, [ids[n] for n in c]))
    for b in blocks.values():
        rnd.shuffle(b)
    blocks = {t: blocks[t] for t in ELEMENT_TYPES if t in blocks}
    return {'kind': kind, 'order': order, 'id_style': id_style, 'jittered': jittered, 'affine': affine,
            'n_unref': n_unref, 'nodes': [(ids[k], pts[k]) for k in keys], 'blocks': blocks}


def promote_tet2(rnd, m):
    """replace every tet by a tet2 with mid-edge nodes (new ids, shared per edge)"""
    if set(m['blocks']) != {'tet'}:
        return m
    pos = dict(m['nodes'])
    nxt = max(pos) + 1
    mid = {}
    rows = []
    for e, c in m['blocks']['tet']:
        extra = []
        for a, b in TET2_EDGES:
            k = frozenset((c[a], c[b]))
            if k not in mid:
                mid[k] = nxt + rnd.randint(0, 3)
                nxt = mid[k] + 1
                pos[mid[k]] = tuple((x + y) / 2 for x, y in zip(pos[c[a]], pos[c[b]]))
            extra.append(mid[k])
        rows.append((e, list(c) + extra))
    new_nodes = list(m['nodes']) + [(i, pos[i]) for i in mid.values()]
    rnd.shuffle(new_nodes)
    out = dict(m)
    out.update(nodes=new_nodes, blocks={'tet2': rows}, kind='tet2', order='shuf')
    return out


def gen_combinatorial(rnd, types=None, n_nodes=None, max_elems=12, id_style=None, order=None, unref=True):
    """arbitrary connectivity (distinct nodes inside one element) over arbitrary ids; coordinates small rationals"""
    types = types or rnd.sample(['line', 'tri', 'quad', 'tet', 'tet2', 'pyr', 'prism', 'hex', 'hex2'], rnd.randint(1, 3))
    need = max(ARITY[t] for t in types)
    n_nodes = n_nodes or rnd.randint(need + (1 if unref else 0), need + 12)
    id_list, id_style = random_ids(rnd, n_nodes, id_style)
    idmap = dict(zip(range(n_nodes), id_list))
    keys, order = order_ids(rnd, list(range(n_nodes)), idmap, order)
    nodes = [(idmap[k], (F(rnd.randint(-40, 40), rnd.choice([1, 2, 4, 8])), F(rnd.randint(-40, 40), rnd.choice([1, 2, 4])),
                         F(rnd.randint(-40, 40)))) for k in keys]
    n_el = rnd.randint(len(types), max_elems)
    eids, _ = random_ids(rnd, n_el, rnd.choice(['dense', 'sparse', 'large']))
    rnd.shuffle(eids)
    usable = id_list[:-1] if (unref and n_nodes > need and rnd.random() < .35) else id_list
    blocks = {}
    for k, e in enumerate(eids):
        t = types[k] if k < len(types) else rnd.choice(types)
        blocks.setdefault(t, []).append((e, rnd.sample(usable, ARITY[t])))
    blocks = {t: blocks[t] for t in ELEMENT_TYPES if t in blocks}
    return {'kind': 'comb:' + '+'.join(sorted(blocks)), 'order': order, 'id_style': id_style, 'nodes': nodes,
            'blocks': blocks, 'n_unref': n_nodes - len({n for b in blocks.values() for _, c in b for n in c})}


def insertion_order(el):
    """the same {type: attribute} dict with its INSERTION order permuted (deterministically from the content).  femio's
    FEMElementalAttribute overrides keys() / values() / items() to the canonical ELEMENT_TYPES order but not __iter__, and
    its own readers fill the dict in deck / alphabetical order: insertion order is a dimension of "arbitrary storage
    order" that must not be observable (seeded change C06-6 was missed because every generator inserted canonically)."""
    ts = list(el)
    if len(ts) < 2:
        return el
    try:
        s = int(sum(int(x) for t in ts for x in list(getattr(el[t], 'ids', []))[:3]))
    except Exception:
        s = len(ts)
    k = s % len(ts)
    ts = ts[k:] + ts[:k]
    if (s // 7) % 2:
        ts.reverse()
    return {t: el[t] for t in ts}


def to_femio(m, float_coords=True):
    import numpy as np
    from femio import FEMData, FEMAttribute, FEMElementalAttribute
    nodes = FEMAttribute('NODE', ids=np.array([i for i, _ in m['nodes']]),
                         data=np.array([[float(v) for v in p] for _, p in m['nodes']]), silent=True)
    el = {t: FEMAttribute(t, ids=np.array([e for e, _ in b]), data=np.array([c for _, c in b]), silent=True)
          for t, b in m['blocks'].items()}
    return quiet(lambda: FEMData(nodes=nodes, elements=FEMElementalAttribute('ELEMENT', insertion_order(el))))


def enc_mesh(m):
    """protocol encoding (Femio/Driver/Mesh.lean)"""
    from .common import enc_rat
    toks = [str(len(m['nodes']))]
    for i, p in m['nodes']:
        toks += [str(i)] + [enc_rat(v) for v in p]
    toks.append(str(len(m['blocks'])))
    for t, b in m['blocks'].items():
        toks += [str(ELEMENT_TYPES.index(t)), str(len(b))]
        for e, c in b:
            toks += [str(e), str(len(c))] + [str(n) for n in c]
    return ' '.join(toks)


def describe(m):
    return {'kind': m['kind'], 'order': m['order'], 'id_style': m.get('id_style'), 'n_nodes': len(m['nodes']),
            'n_elems': sum(len(b) for b in m['blocks'].values()), 'types': list(m['blocks'])}


def to_json(m):
    return {'nodes': [[i, [str(v) for v in p]] for i, p in m['nodes']],
            'blocks': {t: [[e, list(c)] for e, c in b] for t, b in m['blocks'].items()},
            'kind': m['kind'], 'order': m['order']}


def from_json(j):
    return {'nodes': [(i, tuple(F(v) for v in p)) for i, p in j['nodes']],
            'blocks': {t: [(e, list(c)) for e, c in b] for t, b in j['blocks'].items()},
            'kind': j.get('kind', '?'), 'order': j.get('order', '?')}
