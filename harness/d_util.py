"""Helpers shared by the checks of package D (C10, C12, C18): canonicalisation of real femio outputs,
exact (Fraction) geometry used by the property oracles, tolerances of DESIGN.md section 2.3."""
from fractions import Fraction as F

import numpy as np

from . import meshgen as G

TOL_LINEAR = 1e-9      # float64 kernels, relative to max|p|^d
TOL_CENTROID = 2e-6    # kernels accumulating in float32


def clear_caches():
    from femio import FEMData
    for name in dir(FEMData):
        try:
            obj = getattr(FEMData, name)
        except Exception:
            continue
        if hasattr(obj, 'cache_clear'):
            obj.cache_clear()


def fresh(m):
    clear_caches()
    return G.to_femio(m)


def coords_exact(m):
    """id -> exact rational coordinates of the float64 values femio holds"""
    return {i: tuple(F(float(v)) for v in p) for i, p in m['nodes']}


def scale(m, d=3):
    s = max([abs(float(v)) for _, p in m['nodes'] for v in p] + [1.0])
    return s ** d


def rows(a):
    """list of lists of python ints from an int / object array (or list of arrays)"""
    return [[int(x) for x in r] for r in a]


def surface_parts(s):
    """canonical (tri, quad) index lists from `extract_surface()[0]`"""
    if isinstance(s, dict):
        extra = [k for k in s if k not in ('tri', 'quad')]
        if extra and any(len(s[k]) for k in extra):
            raise ValueError('unexpected facet shapes ' + repr(extra))
        return rows(s.get('tri', [])), rows(s.get('quad', []))
    r = rows(s)
    if r and len(r[0]) == 3:
        return r, []
    return [], r


def det3(a, b, c):
    return a[0] * (b[1] * c[2] - b[2] * c[1]) - a[1] * (b[0] * c[2] - b[2] * c[0]) + a[2] * (b[0] * c[1] - b[1] * c[0])


def sub(a, b):
    return tuple(x - y for x, y in zip(a, b))


def add(a, b):
    return tuple(x + y for x, y in zip(a, b))


def cross(a, b):
    return (a[1] * b[2] - a[2] * b[1], a[2] * b[0] - a[0] * b[2], a[0] * b[1] - a[1] * b[0])


def dot(a, b):
    return sum(x * y for x, y in zip(a, b))


def mean(ps):
    n = len(ps)
    return tuple(sum(p[k] for p in ps) / n for k in range(3))


def face_flux(ps):
    """exact flux of x/3 through the polygon ps (centroid fan; a triangle needs no fan)"""
    if len(ps) == 3:
        return det3(*ps) / 6
    g = mean(ps)
    return sum(det3(g, ps[i - 1], ps[i]) for i in range(len(ps))) / 6


def vector_area(ps):
    """exact vector area of a closed polygon"""
    tot = (F(0), F(0), F(0))
    for i in range(len(ps)):
        tot = add(tot, cross(ps[i - 1], ps[i]))
    return tuple(x / 2 for x in tot)


def dir_edges(f):
    return [(f[i], f[(i + 1) % len(f)]) for i in range(len(f))]


def cyc_canon(f):
    """rotation-invariant form of an oriented face"""
    f = list(f)
    k = f.index(min(f))
    return tuple(f[k:] + f[:k])


def elem_list(m):
    """[(type, id, conn)] in block order"""
    return [(t, e, list(c)) for t, b in m['blocks'].items() for e, c in b]


def flat_ids(fd):
    return [int(i) for i in fd.elements.ids]


def close(a, b, tol):
    return abs(float(a) - float(b)) <= tol


def mesh_case(m, **kw):
    d = {'mesh': G.to_json(m), 'describe': G.describe(m)}
    d.update(kw)
    return d


def parse_faces(t):
    return t.lst(lambda: t.lst(t.nat))


def real_volumes(m, mode):
    """element id -> float volume from the real kernels, evaluated block by block on a fresh object
    (the 'mix' branch of calculate_element_volumes binds per-block results to ascending-id positions, which
    mis-assigns them when a block is not stored in ascending id order - outside C10 / C18, see the report)"""
    fd = fresh(m)
    out = {}
    for t, blk in fd.elements.items():
        v = G.quiet(fd.calculate_element_volumes, mode=mode, raise_negative_volume=False, elements=blk,
                    element_type=t, update=False)
        out.update(zip([int(i) for i in blk.ids], [float(x) for x in v[:, 0]]))
    return out


STAGE = ['']


def stage(name):
    """remember which real API call is running (an exception there is reported as `raises:<stage>`)"""
    STAGE[0] = name


def guarded(ctx, case, sample_key, f, *a):
    """run the real-API observation; an exception on an input inside the property's quantifier is a failure of the
    property (nothing is returned), reported with the stage that raised"""
    try:
        return f(*a)
    except Exception as e:  # noqa
        import traceback
        ctx.case(sample_key, sample={'raised_in': STAGE[0], 'error': repr(e)}, nontrivial=True)
        ctx.fail(f'raises:{STAGE[0]}:{type(e).__name__}', f'{STAGE[0]} raised {type(e).__name__} on a valid mesh', case,
                 {'stage': STAGE[0], 'error': repr(e), 'trace': traceback.format_exc()[-600:]})
        return None
