"""C08 - an attribute is one id-keyed table whichever way it is accessed (DESIGN.md section 4, C08).

Tie D: random histories on real FEMAttribute / FEMAttributes objects and on the model (`Attr.hstep`, stateless
`c08.hstep`): public updates interleaved with references the caller retains (slices kept across later updates and
written through later, arrays returned by read paths, the data_frame); after every operation (ids, positional data,
id-keyed frame, id2index) of the attribute AND of every slice still held are compared; exactly the `Cfg.fixed`
behaviour is required (the upstream behaviours are `decide`d counterexamples, replayed from corpus/C08).
Oracle: all public read paths of the real object (and of every retained slice) agree with each other; a write through
a slice lands on the selected ids of the parent as it is NOW and nowhere else.
Collections: FEMAttributes of attributes stored in different id orders, every collection-level read path against the
attributes' own tables (`c08.cfilter`, `c08.csetattr`), also through FEMData.extract_with_element_indices.
Further streams: time-series read paths; mixed-type element collections (`_update_self`, `filter_with_ids`,
`generate_elemental_attribute`) against `Core.flatten` and brute-force definitions; uses outside the quantifier (counted only)."""
import contextlib
import io
import math
from fractions import Fraction

import numpy as np

from . import common as C
from . import meshgen as mg

PROP = 'C08'
LEAN_MODULES = ['Femio.Props.C08']
THEOREMS = ['C08_inv_init', 'C08_inv', 'C08_reachable', 'C08_views_agree', 'C08_filter_with_ids', 'C08_update_spec',
            'C08_mixed_once_sorted',
            'C08_hist_inv', 'C08_hist_reachable', 'C08_keepRef_noop', 'C08_write_through_by_id', 'C08_held_write_by_id',
            'C08_collection_filter', 'C08_collection_set_attribute',
            'C08_counterexample_loc_write', 'C08_counterexample_overwrite', 'C08_counterexample_update_index',
            'C08_counterexample_iloc_scalar', 'C08_counterexample_slice_alias']
PARTIAL = ['time-series attributes: data assignment and every read path (ids, data, loc, iloc, filter_with_ids) are checked by the oracle '
           'only, not modelled; update raises NotImplementedError for time series and write-through of a time-series slice is not exercised',
           'ragged (object) attributes: read paths of polyhedron blocks are exercised by the element stream (oracle only), not modelled',
           'update(allow_overwrite=False) raises AttributeError on the installed pandas (DataFrame.append removed): modelled '
           'as the error it is, state unchanged (F5)',
           'slices of slices (a.loc[..].loc[..].data = v reaches the intermediate slice only) are neither modelled nor exercised',
           'the upstream aliasing of slices (Cfg.sliceOwnsData = false) is modelled in simplified form (any retained reference severs '
           'the view); only the decide-d counterexample C08_counterexample_slice_alias and its corpus replay rely on it']
RULE = ('seeded histories of 1..12 (thorough: ..30) operations on one attribute with unsorted / sparse / large / "looks sorted" '
        '(midshuf, swap2) ids, rank 1..3 data, with and without id2index: public updates (data assignment, update with/without '
        'overwrite incl. NaN cells and new ids that re-sort the rows, write through .loc / .iloc slices spelled as list / array / Index / '
        'one key / boolean mask / positional slice, FEMAttributes.overwrite with and without ids) INTERLEAVED with references the caller '
        'retains: slices a.loc[..] / a.iloc[..] kept across later updates of the parent and written through later (.data =, .update), '
        'arrays returned by .data / .values / .ids / to_dict, the data_frame and pieces of it; after every operation the attribute and '
        'every slice still held are dumped through all read paths and compared with the model; a write through a slice is also checked '
        'by id against the snapshot taken before it (selected ids hold what the slice says, other ids keep their rows); a case = one '
        'operation applied to one state; non-trivial = the operation changed the state or raised; '
        'plus collections (FEMAttributes) of 2..4 attributes over the same ids in DIFFERENT orders / other id sets / other lengths, '
        'built by constructor, update_data, update, set_attribute_data, read after each of 0..3 collection-level updates through '
        'filter_with_ids, extract_dict, get_attribute_ids/data, get_data_length, are_same_lengths, to_dict/from_dict, to_meshio and '
        'FEMData.extract_with_element_indices (non-trivial = attributes stored in different id orders); time-series attributes '
        '(assignment, then every read path); mixed-type element collections with interleaved ids; a labelled stream of uses outside '
        'the quantifier (caller edits its own array after handing it over, ids assigned, an element block written behind the '
        'collection) is recorded in the distribution and never reported')
ASSUMPTIONS = ['pandas combine_first semantics (union index sorted ascending unless the two indexes are identical; cell-wise '
               '"new unless NaN") are reproduced by the model and validated by this correspondence',
               'ids are pairwise distinct (the property\'s id sets), also within one selection',
               'FEMAttributes.overwrite(name, data, ids=...) puts a NEW attribute object into the collection: slices of the old object '
               'are dropped from the history (model and harness)',
               'a slice is a snapshot (copy) of the selected rows that writes through to its parent by id; this is what the repaired '
               'code does and what the correspondence validates for every retained slice after every operation']

NAN = float('nan')


def canon(x):
    x = float(x)
    return 'n' if math.isnan(x) else Fraction(x)


def rows_of(arr, n):
    a = np.asarray(arr, dtype=float)
    a = a.reshape(n, -1) if n else a.reshape(0, -1)
    return [[canon(v) for v in r] for r in a]


def enc_val(v):
    return 'n' if v == 'n' else C.enc_rat(v)


def enc_rows(rows):
    return C.enc_list(rows, lambda r: C.enc_list(r, enc_val))


def observe(a):
    ids = [int(i) for i in a.ids]
    n = len(ids)
    data = rows_of(a.data, n)
    frame = rows_of(a.data_frame.values, n)
    idx = None
    if a.generate_id2index:
        idx = [(int(i), int(v)) for i, v in zip(a.id2index.index.values, a.id2index.values[:, 0])]
    return ids, data, frame, idx


def enc_state(st):
    ids, data, frame, idx = st
    s = f'{C.enc_list(ids)} {enc_rows(data)} {enc_rows(frame)} '
    s += '0' if idx is None else '1 ' + C.enc_list(idx, lambda p: f'{p[0]} {p[1]}')
    return s


def parse_state(t):
    def val():
        x = t.tok()
        return 'n' if x == 'n' else Fraction(x)
    ids = t.lst(t.nat)
    data = t.lst(lambda: t.lst(val))
    frame = t.lst(lambda: t.lst(val))
    idx = None
    if t.nat():
        idx = t.lst(lambda: (t.nat(), t.nat()))
    return ids, data, frame, idx


def oracle(a):
    """all public read paths of the real object agree; returns a list of (path, detail)"""
    bad = []
    ids = [int(i) for i in a.ids]
    n = len(ids)
    try:
        data = rows_of(a.data, n)
    except Exception as e:
        return [('data', f'{type(e).__name__}: {e}')]
    if len(data) != n:
        bad.append(('len', f'{n} ids vs {len(data)} rows'))
        return bad
    for k, i in enumerate(ids):
        try:
            r = rows_of(a.loc[i].data, 1)[0]
            if r != data[k]:
                bad.append(('loc', f'loc[{i}] = {r} but data[{k}] = {data[k]}'))
            r = rows_of(a.iloc[k].data, 1)[0]
            if r != data[k]:
                bad.append(('iloc', f'iloc[{k}] = {r} but data[{k}] = {data[k]}'))
            r = rows_of(a[i], 1)[0]
            if r != data[k]:
                bad.append(('getitem', f'[{i}] = {r} but data[{k}] = {data[k]}'))
            if a.generate_id2index:
                p = a.ids2indices(np.array([i]))
                if [int(x) for x in np.ravel(p)] != [k]:
                    bad.append(('ids2indices', f'ids2indices([{i}]) = {np.ravel(p).tolist()} but the id is stored at {k}'))
        except Exception as e:
            bad.append(('read-raises', f'id {i} at {k}: {type(e).__name__}: {e}'))
        if len(bad) > 3:
            break
    if n and a.generate_id2index and not bad:
        try:          # id -> position translation keeps the shape of what it is given (2-d connectivity, object rows)
            p2 = a.ids2indices(np.array([ids[::-1], ids]))
            po = a.ids2indices(np.array([np.array(ids[:1]), np.array(ids)], dtype=object))
            if np.asarray(p2).tolist() != [list(range(n))[::-1], list(range(n))] or [list(map(int, x)) for x in po] != [[0], list(range(n))]:
                bad.append(('ids2indices', 'ids2indices of a 2-d / ragged array of ids is not the array of their positions'))
        except Exception as e:
            bad.append(('read-raises', f'ids2indices (2-d / ragged): {type(e).__name__}: {e}'))
    if n:
        sel = ids[::-1][: max(1, n // 2)]
        try:
            f = a.filter_with_ids(np.array(sel))
            if [int(i) for i in f.ids] != sel or rows_of(f.data, len(sel)) != [data[ids.index(i)] for i in sel]:
                bad.append(('filter_with_ids', f'filter_with_ids({sel}) does not return the rows stored for these ids'))
        except Exception as e:
            bad.append(('read-raises', f'filter_with_ids: {type(e).__name__}: {e}'))
    return bad


def shape_rows(rows, tail):
    a = np.array([[NAN if v == 'n' else float(v) for v in r] for r in rows], dtype=float)
    return a.reshape([len(rows)] + list(tail))


PUB = ('setData', 'update', 'locWrite', 'ilocWrite', 'overwrite', 'overwriteIds')
N_REF_KINDS = 10


def make_key(form, sel, a, positional=False):
    """the same selection spelled in the different ways a caller may spell it"""
    if form == 'scalar':
        return sel[0]
    if form == 'array':
        return np.array(sel)
    if form == 'slice':          # contiguous positions (iloc only)
        return slice(sel[0], sel[-1] + 1)
    if form == 'mask':           # boolean mask over the stored rows (selection in stored order)
        return np.isin(np.arange(len(a.ids)) if positional else a.ids, sel)
    if form == 'index':
        import pandas as pd
        return pd.Index(sel)
    return list(sel)


def apply_real(holder, op):
    """holder = {'attrs': FEMAttributes, 'name': str, 'held': [slices kept by the caller], 'refs': [...]}; returns error kind"""
    from femio import FEMAttributes  # noqa
    a = holder['attrs'][holder['name']]
    tail = holder['tail']
    held = holder.setdefault('held', [])
    kind = op[0]
    form = op[3] if kind in ('locWrite', 'ilocWrite') and len(op) > 3 else (op[2] if kind in ('take', 'takeI') and len(op) > 2 else 'list')
    try:
        with contextlib.redirect_stdout(io.StringIO()):
            if kind == 'setData':
                if len(op) > 2 and op[2] == 'update_data':
                    a.update_data(shape_rows(op[1], tail))
                else:
                    a.data = shape_rows(op[1], tail)
            elif kind == 'update':
                spell = op[4] if len(op) > 4 else 'list'
                ids_, vals = list(op[1]), shape_rows(op[2], tail)
                if spell == 'scalar' and len(ids_) == 1:          # update(id, value): one id, not wrapped in a list
                    ids_ = ids_[0]
                    if not tail:
                        vals = float(vals[0])
                elif spell == 'array':
                    ids_ = np.array(ids_)
                elif spell == 'tuple':
                    ids_ = tuple(ids_)
                a.update(ids_, vals, allow_overwrite=bool(op[3]))
            elif kind == 'locWrite':
                a.loc[make_key(form, list(op[1]), a)].data = shape_rows(op[2], tail)
            elif kind == 'ilocWrite':
                a.iloc[make_key(form, list(op[1]), a, True)].data = shape_rows(op[2], tail)
            elif kind == 'overwrite':
                holder['attrs'].overwrite(holder['name'], shape_rows(op[1], tail))
            elif kind == 'overwriteIds':
                holder['attrs'].overwrite(holder['name'], shape_rows(op[2], tail), ids=np.array(op[1]))
                del held[:]          # a NEW object sits in the collection: the slices held belong to the old one
            elif kind == 'take':
                held.append(a.loc[make_key(form, list(op[1]), a)])
            elif kind == 'takeI':
                held.append(a.iloc[make_key(form, list(op[1]), a, True)])
            elif kind == 'heldSet':
                held[op[1]].data = shape_rows(op[2], tail)
            elif kind == 'heldUpdate':
                held[op[1]].update(list(op[2]), shape_rows(op[3], tail), allow_overwrite=True)
            elif kind == 'drop':
                del held[op[1]]
            elif kind == 'keepRef':
                # a caller reads a public accessor and keeps what it returned (lazily shared, copy-on-write pieces of the
                # frame, the array behind .data, a slice's array ...): not an update - the attribute must behave as before
                df = a.data_frame
                k = op[1] % N_REF_KINDS
                ref = [lambda: df[0], lambda: df.iloc[:2], lambda: df.copy(deep=False), lambda: a.data, lambda: a.values,
                       lambda: a.ids, lambda: a.iloc[[0]].data, lambda: a.to_dict(), lambda: df.values,
                       lambda: a.filter_with_ids(a.ids[:1]).data_frame][k]()
                holder.setdefault('refs', []).append(ref)
        return 'ok'
    except ValueError:
        return 'value_error'
    except (KeyError, IndexError):
        return 'key_error'
    except Exception as e:
        holder['last_exc'] = f'{type(e).__name__}: {e}'
        return 'other'


def enc_op(op):
    k = op[0]
    if k in ('setData', 'overwrite'):
        return f'{k} {enc_rows(op[1])}'
    if k == 'update':
        return f'update {C.enc_list(op[1])} {enc_rows(op[2])} {int(op[3])}'
    return f'{k} {C.enc_list(op[1])} {enc_rows(op[2])}'


def enc_hop(op):
    k = op[0]
    if k in PUB:
        return 'pub ' + enc_op(op)
    if k == 'keepRef':
        return 'keepRef'
    if k == 'takeI' and len(op) > 2 and op[2] == 'scalar':
        return f'takeI1 {op[1][0]}'
    if k == 'takeI' and len(op) > 2 and op[2] in ('slice', 'mask'):          # keys pandas may serve as views of the parent
        return f'takeView {C.enc_list(op[1])}'
    if k in ('take', 'takeI'):
        return f'{k} {C.enc_list(op[1])}'
    if k == 'heldSet':
        return f'heldSet {op[1]} {enc_rows(op[2])}'
    if k == 'heldUpdate':
        return f'heldUpdate {op[1]} {C.enc_list(op[2])} {enc_rows(op[3])}'
    return f'drop {op[1]}'


def enc_hist(h):
    return (f'{enc_state(h[0])} {C.enc_list(h[1], enc_state)} {h[2]} '
            + C.enc_list(h[3], lambda v: '0' if v is None else '1 ' + C.enc_list(v)))


def parse_hist(t):
    cur = parse_state(t)
    held = t.lst(lambda: parse_state(t))
    refs = t.nat()
    vws = t.lst(lambda: t.lst(t.nat) if t.nat() else None)
    return cur, held, refs, vws


def rand_val(r, allow_nan):
    u = r.random()
    if allow_nan and u < .2:
        return 'n'
    if u < .6:
        return Fraction(r.randint(-50, 50))
    return Fraction(r.randint(-400, 400), r.choice([2, 4, 8]))


def rand_rows(r, n, w, allow_nan=False):
    return [[rand_val(r, allow_nan) for _ in range(w)] for _ in range(n)]


def rand_sel(r, ids, loc=True, scalar_iloc=False):
    """a selection of stored ids (loc) / positions (iloc) and a way of spelling it"""
    n = len(ids)
    u = r.random()
    if loc:
        if u < .12:
            return [r.choice(ids)], 'scalar'
        if u < .24:
            k = r.randint(1, n)
            chosen = set(r.sample(ids, k))
            return [i for i in ids if i in chosen], 'mask'
        return r.sample(ids, r.randint(1, n)), r.choice(['list', 'list', 'array', 'index'])
    if scalar_iloc and u > .9:
        return [r.randrange(n)], 'scalar'
    if u < .2:
        i = r.randrange(n)
        j = r.randint(i, n - 1)
        return list(range(i, j + 1)), 'slice'
    if u < .3:
        chosen = set(r.sample(range(n), r.randint(1, n)))
        return [k for k in range(n) if k in chosen], 'mask'
    return r.sample(range(n), r.randint(1, n)), r.choice(['list', 'list', 'array'])


def rand_op(r, ids, w, held_ids=(), slicey=False, scalar_iloc=False):
    """one operation of the history alphabet; `held_ids` = the ids of the slices the caller still holds"""
    n = len(ids)
    if r.random() < .07:
        return ('keepRef', r.randrange(N_REF_KINDS))
    if slicey or held_ids:
        v = r.random()
        if held_ids and v < .22:
            k = r.randrange(len(held_ids))
            m = len(held_ids[k])
            return ('heldSet', k, rand_rows(r, m if r.random() < .95 else m + 1, w))
        if held_ids and v < .30:
            k = r.randrange(len(held_ids))
            sel = r.sample(held_ids[k], r.randint(1, len(held_ids[k])))
            return ('heldUpdate', k, sel, rand_rows(r, len(sel), w, allow_nan=True))
        if held_ids and v < .33:
            return ('drop', r.randrange(len(held_ids)))
        if len(held_ids) < 3 and v < (.62 if not held_ids else .45):
            if r.random() < .65:
                sel, form = rand_sel(r, ids, True)
                if r.random() < .04:
                    sel, form = sel + [max(ids) + 3], 'list'
                return ('take', sel, form)
            pos, form = rand_sel(r, ids, False, scalar_iloc)
            return ('takeI', pos, form)
    u = r.random()
    if u < .14:
        return ('setData', rand_rows(r, n if r.random() < .9 else n + 1, w), r.choice(['data', 'data', 'update_data']))
    if u < .42 or (held_ids and u < .6):
        k = r.randint(1, max(1, n))
        old = r.sample(ids, min(k, n)) if r.random() < .8 else []
        new = []
        if r.random() < (.7 if held_ids else .5):
            new = []
            while len(new) < r.randint(1, 3):
                c = r.choice([r.randint(1, 60), max(ids) + r.randint(1, 9), max(1, min(ids) - r.randint(1, 9))])
                if c not in ids and c not in new:
                    new.append(c)
        sel = old + new
        r.shuffle(sel)
        if r.random() < .1:
            sel = list(ids)           # identical index: pandas does not sort the union
        if not sel:
            sel = [ids[0]]
        if r.random() < .15:
            sel = sel[:1]
        return ('update', sel, rand_rows(r, len(sel), w), r.random() < .9, 'scalar') if len(sel) == 1 and r.random() < .7 else \
            ('update', sel, rand_rows(r, len(sel), w, allow_nan=True), r.random() < .9, r.choice(['list', 'list', 'array', 'tuple']))
    if u < .65:
        sel, form = rand_sel(r, ids, True)
        if r.random() < .07:
            sel, form = sel + [max(ids) + 5], 'list'
        nrows = len(sel) if r.random() < .93 else len(sel) + 1
        return ('locWrite', sel, rand_rows(r, nrows, w), form)
    if u < .8:
        pos, form = rand_sel(r, ids, False, scalar_iloc)
        return ('ilocWrite', pos, rand_rows(r, len(pos), w), form)
    if u < .93:
        return ('overwrite', rand_rows(r, n if r.random() < .9 else max(0, n - 1), w))
    m = r.randint(1, 6)
    nid, _ = mg.random_ids(r, m)
    return ('overwriteIds', nid, rand_rows(r, m, w))


def table_of(st):
    """id -> row of an observed state (positional view)"""
    return dict(zip(st[0], [tuple(x) for x in st[1]]))


def check_scalar_slices(a):
    """a slice selected with ONE key is an attribute over that one id: (ids, data) of `a.loc[i]` / `a.iloc[k]` must be
    (ids[k], data[k]) - the positional and the id-keyed description of the same row"""
    ids = [int(i) for i in a.ids]
    n = len(ids)
    data = rows_of(a.data, n)
    bad = []
    for k, i in enumerate(ids):
        for path, c in (('loc', a.loc[i]), ('iloc', a.iloc[k])):
            got = ([int(x) for x in c.ids], rows_of(c.data, 1))
            if got != ([i], [data[k]]):
                bad.append((f'{path}-scalar', f'{path}[{i if path == "loc" else k}] is the slice (ids, data) = {got[0], [[str(v) for v in x] for x in got[1]]} '
                            f'but position {k} holds id {i} with {[str(v) for v in data[k]]}'))
                break
    return bad


def step_oracles(holder, op, err, before, before_held, after, after_held, first):
    """the property stated on the real objects after one operation of a history (independent of the model);
    returns [(signature, what, fatal)]"""
    a = holder['attrs'][holder['name']]
    out = []
    bad = oracle(a)
    if bad:
        return [(f'views-disagree:{op[0]}:{bad[0][0]}', f'after {op[0]} the read paths of the attribute disagree: {bad[0][1]}', True)]
    touched = ([len(holder['held']) - 1] if op[0] in ('take', 'takeI') and err == 'ok' else
               [op[1]] if op[0] in ('heldSet', 'heldUpdate') and op[1] < len(holder['held']) else [])
    for k in touched:          # a slice is itself an attribute
        bad = oracle(holder['held'][k])
        if bad:
            return [(f'views-disagree:{op[0]}:slice:{bad[0][0]}', f'after {op[0]} the read paths of the slice (itself an attribute) '
                     f'disagree: {bad[0][1]}', True)]
    for k, st in enumerate(after_held):          # every slice the caller still holds: positional rows = id-keyed rows
        if k not in touched and st[1] != st[2]:
            j = next(j for j in range(len(st[0])) if st[1][j] != st[2][j])
            return [('retained-slice:views-disagree', f'after {op[0]} on the attribute, a slice taken earlier and still held (ids {st[0]}) '
                     f'says data[{j}] = {[str(v) for v in st[1][j]]} but loc[{st[0][j]}] = {[str(v) for v in st[2][j]]}: its positional view '
                     'follows later writes to the parent, its id-keyed view does not', True)]
    if err != 'ok' and (before != after or before_held != after_held):
        return [(f'failed-op-mutates:{op[0]}', f'{op[0]} raised {err} but changed the attribute', True)]
    if op[0] == 'keepRef' and (before != after or before_held != after_held):
        return [('read-mutates:keep-reference', 'reading a public accessor and keeping what it returned changed the attribute', True)]
    # ---- what a slice / a write through a slice is, by id
    if err == 'ok' and op[0] in ('take', 'takeI'):
        want_ids = list(op[1]) if op[0] == 'take' else [before[0][k] for k in op[1]]
        tb = table_of(before)
        got = after_held[-1]
        if got[0] != want_ids or [tuple(x) for x in got[1]] != [tb[i] for i in want_ids]:
            return [(f'slice-differs:{op[0]}', f'the slice {op[0]}({op[1]}, spelled as {op[2]}) does not hold the selected ids with '
                     f'the rows the attribute stores for them: slice ids {got[0]}', True)]
    if err == 'ok' and op[0] in ('locWrite', 'ilocWrite', 'heldSet', 'heldUpdate'):
        if op[0] in ('heldSet', 'heldUpdate'):
            child = table_of(after_held[op[1]])            # what the caller's slice says after the write
        else:
            sel = list(op[1]) if op[0] == 'locWrite' else [before[0][k] for k in op[1]]
            child = dict(zip(sel, [tuple(x) for x in op[2]]))
        tb, ta = table_of(before), table_of(after)
        probs = []
        if after[0] != before[0]:
            probs.append(('ids-changed', f'ids {before[0]} -> {after[0]}'))
        for i, row in child.items():
            if ta.get(i) != row:
                probs.append(('selected-id', f'the slice says id {i} -> {[str(v) for v in row]} but the attribute says id {i} -> '
                              f'{[str(v) for v in ta.get(i, ())]}'))
                break
        for i in tb:
            if i not in child and ta.get(i) != tb[i]:
                probs.append(('other-id', f'id {i} was not selected but its row changed from {[str(v) for v in tb[i]]} to '
                              f'{[str(v) for v in ta.get(i, ())]}'))
                break
        if probs:
            return [(f'write-through:{op[0]}:{probs[0][0]}', f'after writing through an id-selected slice ({op[0]}) the attribute and '
                     f'the slice describe different tables: ' + '; '.join(q[1] for q in probs), True)]
    # ---- single-key slices (a read path) describe the same row by id and by position
    if first or before[0] != after[0]:
        bad = check_scalar_slices(a)
        if bad:
            out.append((f'slice-ids:{bad[0][0]}', f'after {op[0]}: {bad[0][1]}', False))
    return out


def history(ctx, hid):
    from femio import FEMAttribute, FEMAttributes
    r = ctx.rng
    n = r.randint(1, 7)
    ids, style = mg.random_ids(r, n)
    ids, order = mg.order_ids(r, list(ids), {i: i for i in ids}, r.choice(['asc', 'desc', 'shuf', 'shuf', 'midshuf', 'swap2']))
    tail = r.choice([[], [1], [3], [2, 2], [3, 3]])
    w = int(np.prod(tail)) if tail else 1
    with_idx = r.random() < .6
    slicey = r.random() < .55          # histories in which the caller keeps slices and writes through them later
    rows0 = rand_rows(r, n, w)
    a = FEMAttribute('x', ids=np.array(ids), data=shape_rows(rows0, tail), silent=True, generate_id2index=with_idx)
    holder = {'attrs': FEMAttributes({'x': a}), 'name': 'x', 'tail': tail, 'held': [], 'refs': []}
    moved = []             # per held slice: did the parent's ids / order change since the slice was taken
    scalar_iloc = not check_scalar_slices(a)      # write through `a.iloc[k]` (one int) only where that slice carries the id
    ctx.count(f'ids:{style}/{order}')
    ctx.count(f'rank:{len(tail) + 1}')
    ctx.count('id2index:' + ('yes' if with_idx else 'no'))
    ctx.count('history:' + ('retained-slices' if slicey else 'plain'))
    ops = []
    model = None
    if ctx.driver is not None:
        t = C.Toks(ctx.driver.ask(f'c08.new {int(with_idx)} {C.enc_list(ids)} {enc_rows(rows0)}'))
        assert t.tok() == 'ok' and t.tok() == 'ok'
        model = (parse_state(t), [], 0, [])
    for step in range(r.randint(1, ctx.n(12, 30))):
        a = holder['attrs'][holder['name']]
        cur_ids = [int(i) for i in a.ids]
        held_ids = [[int(i) for i in c.ids] for c in holder['held']]
        op = rand_op(r, cur_ids, w, held_ids, slicey, scalar_iloc)
        before = observe(a)
        before_held = [observe(c) for c in holder['held']]
        err = apply_real(holder, op)
        ops.append(op)
        a = holder['attrs'][holder['name']]
        case = {'ids': ids, 'rows0': rows0, 'tail': tail, 'with_index': with_idx, 'ops': ops[:]}
        try:
            after = observe(a)
            after_held = [observe(c) for c in holder['held']]
        except Exception as e:
            ctx.case((hid, step), nontrivial=True)
            ctx.fail(f'views-disagree:{op[0]}:data', f'after {op[0]} ({err}) the attribute cannot be read any more: '
                     f'{type(e).__name__}: {e}', case, None)
            return
        ctx.case((hid, step), sample={'initial_ids': ids, 'tail': tail, 'op': op[0], 'result': err, 'n_ops_before': step},
                 nontrivial=(before != after) or before_held != after_held or err != 'ok')
        ctx.count('op:' + op[0] + ('' if err == 'ok' else '/' + err))
        if op[0] in ('take', 'takeI', 'locWrite', 'ilocWrite') and err == 'ok':
            ctx.count('key-form:' + (op[3] if op[0].endswith('Write') else op[2]))
        if op[0] in ('heldSet', 'heldUpdate') and err == 'ok':
            ctx.count('write-through:retained-slice' + (':parent-rows-moved-since' if moved[op[1]] else ''))
        # ---- oracle
        fatal = False
        for sig, what, f in step_oracles(holder, op, err, before, before_held, after, after_held, step == 0):
            ctx.fail(sig, what, case, None)
            fatal = fatal or f
        if fatal:
            return
        if err == 'ok':
            if op[0] in ('take', 'takeI'):
                moved.append(False)
            elif op[0] == 'drop':
                del moved[op[1]]
            elif op[0] == 'overwriteIds':
                del moved[:]
            elif before[0] != after[0]:
                moved[:] = [True] * len(moved)
        # ---- correspondence
        if ctx.driver is not None and model is not None:
            rep = ctx.driver.ask(f'c08.hstep 1 1 1 1 1 {enc_hist(model)} {enc_hop(op)}')
            t = C.Toks(rep)
            if t.tok() != 'ok':
                raise RuntimeError('driver: ' + rep[:300])
            merr = t.tok()
            model = parse_hist(t)
            if (merr, model[0], model[1]) != (err, after, after_held):
                ctx.disagree(f'state after {op[0]}', case, {'err': err, 'state': after, 'held': after_held, 'exc': holder.get('last_exc')},
                             {'err': merr, 'state': model[0], 'held': model[1]})
                return
        if op[0] == 'overwriteIds' and err == 'ok':
            with_idx = False


# ------------------------------------------------------------------------------------------------ collections
def _attr_from(spec):
    from femio import FEMAttribute
    return FEMAttribute(spec['name'], ids=np.array(spec['ids']), data=shape_rows(_restore(spec['rows']), spec['tail']), silent=True,
                        generate_id2index=spec.get('with_index', False))


def build_collection(spec):
    """a FEMAttributes whose attributes arrive the ways they do in practice: constructor, update_data (a field computed later,
    ids in the order of whoever computed it), update, set_attribute_data"""
    from femio import FEMAttributes
    first = spec['attrs'][0]
    with contextlib.redirect_stdout(io.StringIO()):
        if first['route'] == 'list':
            coll = FEMAttributes([_attr_from(first)])
        elif first['route'] == 'arrays':
            coll = FEMAttributes(names=[first['name']], ids=np.array(first['ids']),
                                 list_arrays=[shape_rows(_restore(first['rows']), first['tail'])])
        else:
            coll = FEMAttributes({first['name']: _attr_from(first)})
        for sp in spec['attrs'][1:]:
            data = shape_rows(_restore(sp['rows']), sp['tail'])
            if sp['route'] == 'update_data':
                coll.update_data(np.array(sp['ids']), {sp['name']: data})
            elif sp['route'] == 'update':
                coll.update({sp['name']: _attr_from(sp)})
            elif sp['route'] == 'set_attribute_data':
                coll.set_attribute_data(sp['name'], data)
            else:
                coll[sp['name']] = _attr_from(sp)
    return coll


def apply_collection_op(coll, tails, op):
    kind = op[0]
    try:
        with contextlib.redirect_stdout(io.StringIO()):
            if kind == 'update_data':
                coll.update_data(list(op[1]), {nm: shape_rows(_restore(rows), tails[nm]) for nm, rows in op[2].items()},
                                 allow_overwrite=True)
            elif kind == 'overwrite':
                coll.overwrite(op[1], shape_rows(_restore(op[2]), tails[op[1]]))
            elif kind == 'overwriteIds':
                coll.overwrite(op[1], shape_rows(_restore(op[3]), tails[op[1]]), ids=np.array(op[2]))
            elif kind == 'locWrite':
                coll[op[1]].loc[list(op[2])].data = shape_rows(_restore(op[3]), tails[op[1]])
            elif kind == 'set_attribute_data':
                coll.set_attribute_data(op[1], shape_rows(_restore(op[2]), op[3]), allow_overwrite=bool(op[4]))
                tails[op[1]] = op[3]
            elif kind == 'pop':
                coll.pop(op[1])
                tails.pop(op[1], None)
        return 'ok'
    except ValueError:
        return 'value_error'
    except (KeyError, IndexError):
        return 'key_error'


def collection_reads(coll, sel, model_ask=None):
    """every collection-level read path against the attributes' own id-keyed tables; returns [(signature, detail)] and
    the observed states"""
    from femio import FEMAttributes
    names = list(coll.keys())
    states, tables = {}, {}
    for nm in names:
        bad = oracle(coll[nm])
        if bad:
            return [(f'collection:attribute:{bad[0][0]}', f'attribute {nm}: {bad[0][1]}')], None
        states[nm] = observe(coll[nm])
        tables[nm] = table_of(states[nm])
    out = []
    lens = [len(states[nm][0]) for nm in names]
    same = len(set(lens)) == 1
    # get_data_length / are_same_lengths
    if bool(coll.are_same_lengths()) != same:
        out.append(('collection:are_same_lengths', f'are_same_lengths() = {coll.are_same_lengths()} for lengths {lens}'))
    try:
        gl = int(coll.get_data_length())
        if not same or gl != lens[0]:
            out.append(('collection:get_data_length', f'get_data_length() = {gl} for lengths {lens}'))
    except Exception as e:          # which error is raised for unequal lengths is not the property's business
        if same:
            out.append(('collection:get_data_length', f'get_data_length() raised {type(e).__name__} for equal lengths {lens}'))
    # get_attribute_ids / get_attribute_data, one name and a list of names
    for nm in names:
        if [int(i) for i in coll.get_attribute_ids(nm)] != states[nm][0] or \
                rows_of(coll.get_attribute_data(nm), len(states[nm][0])) != states[nm][1]:
            out.append(('collection:get_attribute', f'get_attribute_ids/data({nm!r}) differ from the attribute'))
    gi, gd = coll.get_attribute_ids(tuple(names)), coll.get_attribute_data(tuple(names))
    if [[int(i) for i in x] for x in gi] != [states[nm][0] for nm in names] or \
            [rows_of(d, len(states[nm][0])) for d, nm in zip(gd, names)] != [states[nm][1] for nm in names]:
        out.append(('collection:get_attribute', 'get_attribute_ids/data(list of names) differ from the attributes'))
    # to_dict and back; to_meshio
    d = coll.to_dict()
    if sorted(d) != sorted(f'{nm}/{x}' for nm in names for x in ('ids', 'data')) or any(
            [int(i) for i in d[f'{nm}/ids']] != states[nm][0] or rows_of(d[f'{nm}/data'], len(states[nm][0])) != states[nm][1] for nm in names):
        out.append(('collection:to_dict', 'to_dict() differs from the attributes'))
    else:
        with contextlib.redirect_stdout(io.StringIO()):
            back = FEMAttributes.from_dict(d)
        if sorted(back.keys()) != sorted(names) or any(table_of(observe(back[nm])) != tables[nm] for nm in names):
            out.append(('collection:from_dict', 'from_dict(to_dict()) is a different collection of tables'))
    mio = coll.to_meshio()
    for nm in names:
        if np.asarray(coll[nm].data).ndim < 3 and (nm not in mio or rows_of(mio[nm], len(states[nm][0])) != states[nm][1]):
            out.append(('collection:to_meshio', f'to_meshio()[{nm!r}] differs from the attribute'))
    # filter_with_ids / extract_dict: by id, on every attribute's OWN index
    if sel:
        want = {nm: [tables[nm].get(i) for i in sel] for nm in names}
        defined = all(None not in w for w in want.values())
        got = None
        try:
            f = coll.filter_with_ids(np.array(sel))
            got = {nm: ([int(i) for i in f[nm].ids], [tuple(x) for x in rows_of(f[nm].data, len(sel))]) for nm in f.keys()}
            ex = coll.extract_dict(list(sel))
            gex = {nm: [tuple(x) for x in rows_of(v, len(sel))] for nm, v in ex.items()}
        except (KeyError, IndexError) as e:
            if defined:
                out.append(('collection:filter_with_ids:raises', f'filter_with_ids({sel}) raised {type(e).__name__}: {e} although every '
                            'attribute stores every selected id'))
        if defined and got is not None:
            for nm in names:
                if nm not in got or got[nm][0] != list(sel) or got[nm][1] != want[nm]:
                    i = next((i for i, g, w_ in zip(sel, got.get(nm, ([], []))[1], want[nm]) if g != w_), sel[0])
                    out.append(('collection:filter_with_ids', f'filter_with_ids({sel})[{nm!r}] pairs id {i} with a row that lookup by id / '
                                f'(ids[k], data[k]) of the same attribute do not give (ids of {nm!r}: {states[nm][0]}, ids of the first '
                                f'attribute: {states[names[0]][0]})'))
                    break
                if gex.get(nm) != want[nm]:
                    out.append(('collection:extract_dict', f'extract_dict({sel})[{nm!r}] differs from lookup by id'))
                    break
        if model_ask is not None:
            t = C.Toks(model_ask('c08.cfilter ' + C.enc_list([states[nm] for nm in names], enc_state) + ' ' + C.enc_list(sel)))
            assert t.tok() == 'ok'
            mrows = None
            if t.nat():
                mrows = t.lst(lambda: [tuple(x) for x in t.lst(lambda: t.lst(lambda: (lambda x: 'n' if x == 'n' else Fraction(x))(t.tok())))])
            mlen = t.nat() if t.nat() else None
            impl = None if got is None else [got[nm][1] for nm in names]
            if mrows != impl or mlen != (lens[0] if same else None):
                out.append(('MODEL', (impl, mrows, mlen)))
    return out, states


def femdata_extract_check(coll, fd):
    """FEMData.extract_with_element_indices filters nodal_data by node id: rows must be those the attributes hold for the ids"""
    from femio import FEMData, FEMAttribute
    names = list(coll.keys())
    tables = {nm: table_of(observe(coll[nm])) for nm in names}
    nodes = FEMAttribute('NODE', ids=np.array(fd['node_ids']), data=np.array(fd['coords'], dtype=float), silent=True)
    elements = FEMAttribute('ELEMENT', ids=np.array(fd['elem_ids']), data=np.array(fd['conn']), silent=True)
    with contextlib.redirect_stdout(io.StringIO()):
        data = FEMData(nodes=nodes, elements=mg.quiet(lambda: __import__('femio').FEMElementalAttribute('ELEMENT', {fd['etype']: elements})),
                       nodal_data=coll)
        sub = data.extract_with_element_indices(np.array(fd['indices']))
    used = sorted({n for k in fd['indices'] for n in fd['conn'][k]})
    coords = dict(zip(fd['node_ids'], [tuple(Fraction(x) for x in c) for c in fd['coords']]))
    out = []
    if [int(i) for i in sub.nodes.ids] != used or [tuple(x) for x in rows_of(sub.nodes.data, len(used))] != [coords[i] for i in used]:
        out.append(('collection:extract_with_element_indices:nodes', 'extracted nodes are not (id, coordinates) of the nodes used'))
    for nm in names:
        f = sub.nodal_data[nm]
        if [int(i) for i in f.ids] != used or [tuple(x) for x in rows_of(f.data, len(used))] != [tables[nm][i] for i in used]:
            out.append(('collection:extract_with_element_indices:nodal_data', f'nodal_data[{nm!r}] of the extracted part pairs node ids '
                        f'{[int(i) for i in f.ids]} with rows that the attribute does not hold for them'))
            break
    return out


def gen_collection(r):
    n = r.randint(2, 7)
    base, style = mg.random_ids(r, n)
    base, order = mg.order_ids(r, list(base), {i: i for i in base})
    attrs = []
    m = r.randint(2, 4)
    rel_of = []
    for j in range(m):
        tail = r.choice([[], [1], [2], [3], [2, 2]])
        w = int(np.prod(tail)) if tail else 1
        ids = list(base)
        rel = 'first'
        route = r.choice(['dict', 'list', 'arrays'])
        if j:
            rel = r.choice(['same-order', 'permuted', 'permuted', 'permuted', 'permuted', 'other-set', 'other-length'])
            route = r.choice(['dict', 'update_data', 'update_data', 'update'])
            if rel == 'same-order' and r.random() < .5 and all(len(x['ids']) == len(base) for x in attrs):
                route = 'set_attribute_data'
            if rel == 'permuted':
                ids, _ = mg.order_ids(r, ids, {i: i for i in ids}, r.choice(['asc', 'desc', 'shuf', 'shuf', 'midshuf', 'swap2']))
                if ids == base:
                    ids = ids[::-1]
            elif rel == 'other-set':
                ids = r.sample(ids, len(ids))
                for _ in range(r.randint(1, 2)):
                    c = max(base) + r.randint(1, 20)
                    if c not in ids:
                        ids[r.randrange(len(ids))] = c
            elif rel == 'other-length':
                if r.random() < .5 and len(ids) > 1:
                    ids = r.sample(ids, r.randint(1, len(ids) - 1))
                else:
                    ids = r.sample(ids, len(ids)) + [max(base) + r.randint(1, 9)]
        rel_of.append(rel)
        attrs.append({'name': 'TQUVW'[j] if j < 5 else f'A{j}', 'ids': ids, 'rows': rand_rows(r, len(ids), w), 'tail': tail,
                      'with_index': (r.random() < .4 and route not in ('update_data', 'set_attribute_data', 'arrays')), 'route': route})
    return {'kind': 'collection', 'attrs': attrs, 'ops': [], 'reads': []}, style, order, rel_of


def rand_collection_op(r, coll, tails):
    names = list(coll.keys())
    ids_of = {nm: [int(i) for i in coll[nm].ids] for nm in names}
    allids = sorted({i for v in ids_of.values() for i in v})
    u = r.random()
    nm = r.choice(names)
    w = lambda t: int(np.prod(t)) if t else 1
    if u < .3:
        sel = r.sample(allids, r.randint(1, len(allids)))
        if r.random() < .4:
            sel.append(r.choice([max(allids) + r.randint(1, 5), max(1, min(allids) - 1)]))
            sel = list(dict.fromkeys(sel))
        r.shuffle(sel)
        which = r.sample(names, r.randint(1, min(2, len(names))))
        return ['update_data', sel, {x: rand_rows(r, len(sel), w(tails[x]), allow_nan=True) for x in which}]
    if u < .45:
        return ['overwrite', nm, rand_rows(r, len(ids_of[nm]), w(tails[nm]))]
    if u < .55:
        ids = r.sample(ids_of[nm], len(ids_of[nm]))
        return ['overwriteIds', nm, ids, rand_rows(r, len(ids), w(tails[nm]))]
    if u < .7:
        sel = r.sample(ids_of[nm], r.randint(1, len(ids_of[nm])))
        return ['locWrite', nm, sel, rand_rows(r, len(sel), w(tails[nm]))]
    if u < .9:
        key = r.choice(names + ['Z', 'Y'])
        tail = r.choice([[], [2], [3]])
        n0 = len(ids_of[names[0]])
        return ['set_attribute_data', key, rand_rows(r, n0 if r.random() < .9 else n0 + 1, w(tail)), tail, r.random() < .8]
    if len(names) > 2:
        return ['pop', nm]
    return ['overwrite', nm, rand_rows(r, len(ids_of[nm]), w(tails[nm]))]


def pick_sel(r, coll):
    names = list(coll.keys())
    common = set(int(i) for i in coll[names[0]].ids)
    for nm in names[1:]:
        common &= set(int(i) for i in coll[nm].ids)
    common = sorted(common)
    if not common:
        return []
    sel = r.sample(common, r.randint(1, len(common)))
    if r.random() < .05:          # an id that one of the attributes may not store: KeyError expected, model says so too
        sel.append(int(max(int(i) for nm in names for i in coll[nm].ids)))
        sel = list(dict.fromkeys(sel))
    return sel


def collection_stream(ctx, k):
    r = ctx.rng
    spec, style, order, rels = gen_collection(r)
    ctx.count(f'collection:ids:{style}/{order}')
    for rel in rels[1:]:
        ctx.count('collection:attribute-vs-first:' + rel)
    n_ops = r.choice([0, 1, 1, 2, 3])
    try:
        coll = build_collection(spec)
        tails = {sp['name']: sp['tail'] for sp in spec['attrs']}
        ask = ctx.driver.ask if ctx.driver is not None else None
        for stage in range(n_ops + 1):
            if stage:
                op = rand_collection_op(r, coll, tails)
                names = list(coll.keys())
                all_states = [observe(coll[nm]) for nm in names]
                err = apply_collection_op(coll, tails, op)
                spec['ops'].append(op)
                ctx.count('collection:op:' + op[0] + ('' if err == 'ok' else '/' + err))
                if op[0] == 'set_attribute_data' and ask is not None:
                    t = C.Toks(ask('c08.csetattr ' + C.enc_list(all_states, enc_state) + ' ' + enc_rows(op[2])))
                    assert t.tok() == 'ok'
                    merr = t.tok()
                    mst = parse_state(t)
                    exists = op[1] in names and not op[4]
                    if exists:
                        merr = 'value_error'
                    if merr != err or (err == 'ok' and (mst[0], mst[1]) != observe(coll[op[1]])[:2]):
                        ctx.disagree('set_attribute_data', dict(spec), {'err': err}, {'err': merr, 'state': mst})
                        return
            sel = pick_sel(r, coll)
            spec['reads'].append(sel)
            probs, states = collection_reads(coll, sel, ask)
            names = list(coll.keys())
            orders = {tuple(states[nm][0]) for nm in names} if states else set()
            ctx.case(('coll', k, stage), sample={'attributes': {nm: states[nm][0] for nm in names} if states else None, 'filter': sel,
                                                  'ops': [o[0] for o in spec['ops']]}, nontrivial=len(orders) > 1)
            ctx.count('collection:read:' + ('attributes-in-different-id-orders' if len(orders) > 1 else 'one-id-order'))
            for sig, detail in probs:
                if sig == 'MODEL':
                    ctx.disagree('collection filter', dict(spec), detail[0], detail[1:])
                else:
                    ctx.fail(sig, detail, {**spec, 'ops': list(spec['ops']), 'reads': list(spec['reads'])}, None)
            if probs:
                return
        # the same collection as nodal_data of a FEMData: extraction of a part filters it by node id
        names = list(coll.keys())
        node_ids = [int(i) for i in coll[names[0]].ids]
        if r.random() < .5 and len(node_ids) >= 2 and all(sorted(int(i) for i in coll[nm].ids) == sorted(node_ids) for nm in names):
            et, arity = r.choice([('line', 2), ('tri', 3), ('tet', 4)])
            if len(node_ids) >= arity:
                ne = r.randint(1, 4)
                eids, _ = mg.random_ids(r, ne)
                r.shuffle(eids)
                nid = r.sample(node_ids, len(node_ids))
                fd = {'etype': et, 'node_ids': nid, 'coords': [[r.randint(-9, 9) for _ in range(3)] for _ in nid], 'elem_ids': eids,
                      'conn': [r.sample(node_ids, arity) for _ in range(ne)], 'indices': r.sample(range(ne), r.randint(1, ne))}
                spec['femdata'] = fd
                ctx.count('collection:extract_with_element_indices')
                ctx.case(('coll-femdata', k), nontrivial=True)
                for sig, detail in femdata_extract_check(coll, fd):
                    ctx.fail(sig, detail, {**spec, 'ops': list(spec['ops']), 'reads': list(spec['reads'])}, None)
    except (RuntimeError, AssertionError):
        raise
    except Exception as e:
        import traceback
        tb = traceback.extract_tb(e.__traceback__)
        where = next((f'{f.filename.split("/")[-1]}:{f.lineno}' for f in reversed(tb) if '/femio/' in f.filename), None)
        if where is None:
            raise
        ctx.case(('coll-raises', k), nontrivial=True)
        ctx.fail('collection:raises', f'a public path of a collection of attributes raised {type(e).__name__}: {e} (at {where})',
                 {**spec, 'ops': list(spec['ops']), 'reads': list(spec['reads'])}, None)


def run_collection(case):
    coll = build_collection(case)
    tails = {sp['name']: sp['tail'] for sp in case['attrs']}
    found = []
    for stage, sel in enumerate(case['reads']):
        if stage:
            apply_collection_op(coll, tails, case['ops'][stage - 1])
        probs, _ = collection_reads(coll, list(sel))
        found += [p for p in probs if p[0] != 'MODEL']
    if len(case['ops']) >= len(case['reads']) and case['ops']:
        for op in case['ops'][max(0, len(case['reads']) - 1):]:
            apply_collection_op(coll, tails, op)
    if 'femdata' in case and not found:
        found += femdata_extract_check(coll, case['femdata'])
    return found


# ------------------------------------------------------------------------------------------------ time series
def time_series_stream(ctx, k):
    r = ctx.rng
    n, T = r.randint(1, 5), r.randint(1, 3)
    ids, style = mg.random_ids(r, n)
    ids, order = mg.order_ids(r, list(ids), {i: i for i in ids})
    tail = r.choice([[1], [2], [3]])
    case = {'kind': 'time-series', 'ids': ids, 'steps': [rand_rows(r, n, tail[0]) for _ in range(T)], 'tail': tail,
            'assign': [rand_rows(r, n, tail[0]) for _ in range(T)] if r.random() < .5 else None,
            'sel': r.sample(ids, r.randint(1, n))}
    ctx.count(f'time-series:ids:{order}')
    ctx.case(('ts', k), sample={'ids': ids, 'steps': T}, nontrivial=True)
    for sig, detail in run_time_series(case):
        ctx.fail(sig, detail, case, None)


def run_time_series(case):
    """time-series attributes (data[t, k] belongs to ids[k]): assignment of data, then every read path"""
    from femio import FEMAttribute
    ids, tail = list(case['ids']), case['tail']
    n = len(ids)
    arr = lambda steps: np.stack([shape_rows(_restore(st), tail) for st in steps])
    out = []
    try:
        a = FEMAttribute('t', ids=np.array(ids), data=arr(case['steps']), silent=True, time_series=True)
        cur = case['steps']
        if case.get('assign'):
            a.data = arr(case['assign'])
            cur = case['assign']
        want = [[tuple(x) for x in _restore(st)] for st in cur]          # want[t][k]
        T = len(want)
        got = [[tuple(x) for x in rows_of(a.data[t], n)] for t in range(T)]
        if [int(i) for i in a.ids] != ids or got != want or len(a) != n:
            out.append(('time-series:data', 'ids / data differ from what was assigned'))
        for kk, i in enumerate(ids):
            for path, c in (('loc', a.loc[[i]]), ('iloc', a.iloc[[kk]])):
                if [tuple(rows_of(c.data[t], 1)[0]) for t in range(T)] != [want[t][kk] for t in range(T)]:
                    out.append((f'time-series:{path}', f'{path} of id {i} (position {kk}) differs from data[:, {kk}]'))
        sel = list(case['sel'])
        pos = [ids.index(i) for i in sel]
        c = a.loc[sel]
        if [int(i) for i in c.ids] != sel or [[tuple(x) for x in rows_of(c.data[t], len(sel))] for t in range(T)] != \
                [[want[t][p] for p in pos] for t in range(T)]:
            out.append(('time-series:loc', f'loc[{sel}] differs from the rows stored for these ids'))
    except Exception as e:
        out.append(('time-series:raises', f'{type(e).__name__}: {e}'))
        return out
    try:
        f = a.filter_with_ids(np.array(sel))
        fd = np.asarray(f.data, dtype=float)
        if [int(i) for i in f.ids] != sel or fd.shape[:2] != (T, len(sel)) or \
                [[tuple(x) for x in rows_of(fd[t], len(sel))] for t in range(T)] != [[want[t][p] for p in pos] for t in range(T)]:
            out.append(('time-series:filter_with_ids', f'filter_with_ids({sel}) does not return, for every step, the rows stored for these ids'))
    except Exception as e:
        out.append(('time-series:filter_with_ids', f'filter_with_ids({sel}) on a time-series attribute raised {type(e).__name__}: {e}'))
    return out


# ------------------------------------------------------------------------------------------------ outside the quantifier
def outside_stream(ctx, k):
    """uses that are NOT public update operations in the sense of the property (recorded, never reported through fail):
    editing the caller's own array after handing it over, assigning ids, writing an element block behind the collection"""
    from femio import FEMAttribute, FEMElementalAttribute
    r = ctx.rng
    n = r.randint(2, 5)
    ids, _ = mg.random_ids(r, n)
    r.shuffle(ids)
    kind = ['caller-array-edited-after-hand-over', 'ids-assigned', 'element-block-written-behind-collection'][k % 3]
    try:
        if kind == 'caller-array-edited-after-hand-over':
            arr = shape_rows(rand_rows(r, n, 1), [1])
            a = FEMAttribute('x', ids=np.array(ids), data=arr, silent=True, generate_id2index=True)
            arr[0, 0] += 1.
            agree = not oracle(a)
        elif kind == 'ids-assigned':
            a = FEMAttribute('x', ids=np.array(ids), data=shape_rows(rand_rows(r, n, 1), [1]), silent=True, generate_id2index=True)
            a.ids = np.array([i + 1000 for i in ids])
            agree = not oracle(a)
        else:
            el = mg.quiet(lambda: FEMElementalAttribute('ELEMENT', {
                'tri': FEMAttribute('tri', ids=np.array(ids), data=np.array([[1, 2, 3]] * n), silent=True),
                'line': FEMAttribute('line', ids=np.array([max(ids) + 1]), data=np.array([[1, 2]]), silent=True)}))
            el['tri'].data = np.array([[4, 5, 6]] * n)
            p = int(el.id2index.loc[ids[0]].values[0])
            agree = [int(x) for x in el.data[p]] == [4, 5, 6]
    except Exception:
        agree = False
    ctx.case(('outside', k), nontrivial=False)
    ctx.count(f'outside-quantifier:{kind}:' + ('views-agree' if agree else 'views-disagree'))


def elem_stream(ctx, k):
    """mixed-type element collections; an exception inside femio on these in-quantifier inputs is a failure"""
    try:
        _elem_stream(ctx, k)
    except (RuntimeError, AssertionError):
        raise
    except Exception as e:
        import traceback
        tb = traceback.extract_tb(e.__traceback__)
        where = next((f'{f.filename.split("/")[-1]}:{f.lineno}' for f in reversed(tb) if '/femio/' in f.filename), '?')
        ctx.case(('elem-raises', k), nontrivial=True)
        ctx.fail('element-collection:raises', f'a public read path of an element collection raised {type(e).__name__}: {e} (at {where})',
                 {'stream': 'elements', 'index': k, 'seed_note': 're-run with the same VERIF_SEED'}, None)


def _elem_stream(ctx, k):
    from femio import FEMAttribute, FEMElementalAttribute
    r = ctx.rng
    types = r.sample(['line', 'tri', 'quad', 'tet', 'tet2', 'pyr', 'prism', 'hex', 'hex2', 'hexprism', 'hexprism'], r.randint(1, 3))
    m = mg.gen_combinatorial(r, types=types, max_elems=ctx.n(8, 14))
    blocks = dict(m['blocks'])
    if r.random() < .3:
        # a ragged polyhedron block (long type name, rows of different lengths)
        used = {e for b in blocks.values() for e, _ in b}
        nid = [i for i, _ in m['nodes']]
        rows = []
        for _ in range(r.randint(1, 3)):
            e = max(used) + r.randint(1, 5)
            used.add(e)
            rows.append((e, r.sample(nid, min(len(nid), r.randint(4, 7)))))
        blocks['polyhedron'] = rows
        blocks = {t: blocks[t] for t in mg.ELEMENT_TYPES if t in blocks}
    def block_data(t, b):
        if t == 'polyhedron':
            a = np.empty(len(b), dtype=object)
            a[:] = [np.array(c) for _, c in b]
            return a
        return np.array([c for _, c in b])
    el = mg.quiet(lambda: FEMElementalAttribute('ELEMENT', {
        t: FEMAttribute(t, ids=np.array([e for e, _ in b]), data=block_data(t, b), silent=True)
        for t, b in blocks.items()}))
    owner = {e: (t, c) for t, b in blocks.items() for e, c in b}
    ids = [int(i) for i in el.ids]
    types = [str(t) for t in el.types]
    data = [[int(x) for x in d] for d in el.data]
    case = {'blocks': {t: [[e, c] for e, c in b] for t, b in blocks.items()}}
    mixed = len(blocks) > 1
    ctx.count('elements:' + ('mixed' if mixed else 'uniform'))
    ctx.case(('elem', k), sample={'types': list(blocks), 'ids': ids[:10]}, nontrivial=mixed)
    probs = []
    if sorted(ids) != sorted(owner):
        probs.append('not every element exactly once')
    if mixed and ids != sorted(ids):
        probs.append('ids not ascending')
    for p, i in enumerate(ids):
        if i in owner and (types[p], data[p]) != (owner[i][0], owner[i][1]):
            probs.append(f'type/connectivity at position {p} are not those of element {i}')
            break
        if int(el.id2index.loc[i].values[0]) != p:
            probs.append(f'id2index[{i}] != {p}')
            break
        if str(el.ids_types.loc[i].values[0]) != owner[i][0]:
            probs.append(f'ids_types[{i}] wrong')
            break
    if {t: [int(i) for i in v] for t, v in el.dict_type_ids.items()} != {t: [e for e, _ in b] for t, b in blocks.items()}:
        probs.append('dict_type_ids differs from the blocks')
    # filter_with_ids / generate_elemental_attribute by definition
    sel = r.sample(ids, r.randint(1, len(ids)))
    f = mg.quiet(el.filter_with_ids, np.array(sel))
    got = {t: ([int(i) for i in v.ids], [[int(x) for x in d] for d in v.data]) for t, v in f.items()}
    want = {}
    for i in sel:
        want.setdefault(owner[i][0], ([], []))
        want[owner[i][0]][0].append(i)
        want[owner[i][0]][1].append(owner[i][1])
    if got != want:
        probs.append(f'filter_with_ids({sel}) wrong')
    vals = {i: float(r.randint(-99, 99)) for i in ids}
    sel2 = r.sample(ids, r.randint(1, len(ids)))
    g = mg.quiet(el.generate_elemental_attribute, 'v', np.array(sel2), np.array([[vals[i]] for i in sel2]))
    for t, v in g.items():
        for i, d in zip(v.ids, v.data):
            if owner[int(i)][0] != t or float(np.ravel(d)[0]) != vals[int(i)]:
                probs.append(f'generate_elemental_attribute binds {d} to element {i} of type {t}')
                break
    if sorted(int(i) for v in g.values() for i in v.ids) != sorted(sel2):
        probs.append('generate_elemental_attribute drops or duplicates ids')
    if probs:
        ctx.fail('element-collection:' + probs[0].split(' ')[0], 'mixed element collection inconsistent: ' + '; '.join(probs[:3]),
                 case, {'ids': ids, 'types': types})
    if ctx.driver is not None:
        enc = C.enc_list(blocks.items(), lambda tb: f'{mg.ELEMENT_TYPES.index(tb[0])} ' + C.enc_list(
            tb[1], lambda ec: f'{ec[0]} {C.enc_list(ec[1])}'))
        t = C.Toks(ctx.driver.ask('c08.flatten ' + enc))
        assert t.tok() == 'ok'
        mflat = t.lst(lambda: (t.nat(), mg.ELEMENT_TYPES[t.nat()], t.lst(t.nat)))
        if mflat != list(zip(ids, types, data)):
            ctx.disagree('flatten', case, list(zip(ids, types, data))[:6], mflat[:6])


def _restore(x):
    """JSON form of an operation argument -> the generator's form (rows of exact rationals)"""
    if isinstance(x, list) and x and isinstance(x[0], list):
        return [['n' if v == 'n' else Fraction(v) for v in r] for r in x]
    return x


def run_case(ctx, case):
    """replay of a recorded history on the real code (oracle only); returns [(signature-or-path, detail)]"""
    kind = case.get('kind', 'history')
    if kind == 'collection':
        return run_collection(case)
    if kind == 'time-series':
        return run_time_series(case)
    from femio import FEMAttribute, FEMAttributes
    rows0 = _restore(case['rows0'])
    a = FEMAttribute('x', ids=np.array(case['ids']), data=shape_rows(rows0, case['tail']), silent=True,
                     generate_id2index=case['with_index'])
    holder = {'attrs': FEMAttributes({'x': a}), 'name': 'x', 'tail': case['tail'], 'held': [], 'refs': []}
    found = []
    for step, op in enumerate(case['ops']):
        op = [op[0]] + [_restore(x) for x in op[1:]]
        before = observe(holder['attrs']['x'])
        before_held = [observe(c) for c in holder['held']]
        err = apply_real(holder, op)
        try:
            after = observe(holder['attrs']['x'])
            after_held = [observe(c) for c in holder['held']]
        except Exception as e:
            return found + [(f'views-disagree:{op[0]}:data', f'{type(e).__name__}: {e}')]
        res = step_oracles(holder, op, err, before, before_held, after, after_held, step == 0)
        found += [(sig, what) for sig, what, _ in res]
        if any(f for _, _, f in res):
            break
    return found


def run(ctx):
    for name, j in C.corpus_cases(PROP):
        ctx.count('corpus')
        bad = run_case(ctx, j)
        ctx.case(('corpus', name), nontrivial=True)
        for sig, detail in bad:
            ctx.fail(sig, f'corpus case {name}: {detail}', j, bad[:5])
    for h in range(ctx.n(250, 2500)):
        history(ctx, h)
    for k in range(ctx.n(120, 1200)):
        collection_stream(ctx, k)
    for k in range(ctx.n(25, 250)):
        time_series_stream(ctx, k)
    for k in range(ctx.n(80, 600)):
        elem_stream(ctx, k)
    for k in range(ctx.n(20, 200)):
        outside_stream(ctx, k)


def replay(ctx, obj):
    case = obj['input']
    if 'ops' not in case and case.get('kind') != 'time-series':
        return {'fails': False, 'note': 'element-collection case: re-run the check'}
    bad = run_case(ctx, case)
    return {'problems': bad[:5], 'fails': bool(bad)}
