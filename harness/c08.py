"""C08 - an attribute is one id-keyed table whichever way it is accessed (DESIGN.md section 4, C08).

Tie D: random histories of public updates on real FEMAttribute / FEMAttributes objects and on the model
(`Attr.step`, stateless `c08.step`); after every operation (ids, positional data, id-keyed frame,
id2index) are compared, for each `Cfg`; exactly the `Cfg.fixed` behaviour is required.
Oracle: all public read paths of the real object must agree with each other.
Second stream: mixed-type element collections (`_update_self`, `filter_with_ids`,
`generate_elemental_attribute`) against `Core.flatten` and brute-force definitions."""
import contextlib
import io
import math
from fractions import Fraction

import numpy as np

from . import common as C
from . import meshgen as mg

PROP = 'C08'
LEAN_MODULES = ['Femio.Props.C08']
THEOREMS = ['C08_inv_init', 'C08_inv', 'C08_reachable', 'C08_views_agree', 'C08_filter_with_ids', 'C08_update_spec',
            'C08_mixed_once_sorted',
            'C08_counterexample_loc_write', 'C08_counterexample_overwrite', 'C08_counterexample_update_index']
PARTIAL = ['time-series and ragged (object) attributes: read paths are exercised by the oracle only, not modelled '
           '(update raises NotImplementedError for time series)',
           'update(allow_overwrite=False) raises AttributeError on the installed pandas (DataFrame.append removed): modelled '
           'as the error it is, state unchanged (F5)']
RULE = ('seeded histories of 1..12 (thorough: ..30) public updates (data assignment, update with/without overwrite incl. NaN '
        'cells and new ids, write through .loc / .iloc slices, FEMAttributes.overwrite with and without ids) on attributes '
        'with unsorted / sparse / large ids, rank 1..3 data, with and without id2index; after every operation all read paths '
        'are dumped; a case = one operation applied to one state; non-trivial = the operation changed the state or raised; '
        'plus mixed-type element collections with interleaved ids')
ASSUMPTIONS = ['pandas combine_first semantics (union index sorted ascending unless the two indexes are identical; cell-wise '
               '"new unless NaN") are reproduced by the model and validated by this correspondence',
               'ids are pairwise distinct (the property\'s id sets)']

NAN = float('nan')


def canon(x):
    x = float(x)
    return 'n' if math.isnan(x) else Fraction(x)


def rows_of(arr, n):
    a = np.asarray(arr, dtype=float)
    a = a.reshape(n, -1) if n else a.reshape(0, -1)
    return [[canon(v) for v in r] for r in a]


def enc_val(v):
    return 'n' if v == 'n' else C.enc_rat(v)


def enc_rows(rows):
    return C.enc_list(rows, lambda r: C.enc_list(r, enc_val))


def observe(a):
    ids = [int(i) for i in a.ids]
    n = len(ids)
    data = rows_of(a.data, n)
    frame = rows_of(a.data_frame.values, n)
    idx = None
    if a.generate_id2index:
        idx = [(int(i), int(v)) for i, v in zip(a.id2index.index.values, a.id2index.values[:, 0])]
    return ids, data, frame, idx


def enc_state(st):
    ids, data, frame, idx = st
    s = f'{C.enc_list(ids)} {enc_rows(data)} {enc_rows(frame)} '
    s += '0' if idx is None else '1 ' + C.enc_list(idx, lambda p: f'{p[0]} {p[1]}')
    return s


def parse_state(t):
    def val():
        x = t.tok()
        return 'n' if x == 'n' else Fraction(x)
    ids = t.lst(t.nat)
    data = t.lst(lambda: t.lst(val))
    frame = t.lst(lambda: t.lst(val))
    idx = None
    if t.nat():
        idx = t.lst(lambda: (t.nat(), t.nat()))
    return ids, data, frame, idx


def oracle(a):
    """all public read paths of the real object agree; returns a list of (path, detail)"""
    bad = []
    ids = [int(i) for i in a.ids]
    n = len(ids)
    try:
        data = rows_of(a.data, n)
    except Exception as e:
        return [('data', f'{type(e).__name__}: {e}')]
    if len(data) != n:
        bad.append(('len', f'{n} ids vs {len(data)} rows'))
        return bad
    for k, i in enumerate(ids):
        try:
            r = rows_of(a.loc[i].data, 1)[0]
            if r != data[k]:
                bad.append(('loc', f'loc[{i}] = {r} but data[{k}] = {data[k]}'))
            r = rows_of(a.iloc[k].data, 1)[0]
            if r != data[k]:
                bad.append(('iloc', f'iloc[{k}] = {r} but data[{k}] = {data[k]}'))
            r = rows_of(a[i], 1)[0]
            if r != data[k]:
                bad.append(('getitem', f'[{i}] = {r} but data[{k}] = {data[k]}'))
            if a.generate_id2index:
                p = a.ids2indices(np.array([i]))
                if [int(x) for x in np.ravel(p)] != [k]:
                    bad.append(('ids2indices', f'ids2indices([{i}]) = {np.ravel(p).tolist()} but the id is stored at {k}'))
        except Exception as e:
            bad.append(('read-raises', f'id {i} at {k}: {type(e).__name__}: {e}'))
        if len(bad) > 3:
            break
    if n:
        sel = ids[::-1][: max(1, n // 2)]
        try:
            f = a.filter_with_ids(np.array(sel))
            if [int(i) for i in f.ids] != sel or rows_of(f.data, len(sel)) != [data[ids.index(i)] for i in sel]:
                bad.append(('filter_with_ids', f'filter_with_ids({sel}) does not return the rows stored for these ids'))
        except Exception as e:
            bad.append(('read-raises', f'filter_with_ids: {type(e).__name__}: {e}'))
    return bad


def shape_rows(rows, tail):
    a = np.array([[NAN if v == 'n' else float(v) for v in r] for r in rows], dtype=float)
    return a.reshape([len(rows)] + list(tail))


def apply_real(holder, op):
    """holder = {'attrs': FEMAttributes, 'name': str}; returns error kind"""
    from femio import FEMAttributes  # noqa
    a = holder['attrs'][holder['name']]
    tail = holder['tail']
    kind = op[0]
    try:
        with contextlib.redirect_stdout(io.StringIO()):
            if kind == 'setData':
                a.data = shape_rows(op[1], tail)
            elif kind == 'update':
                a.update(list(op[1]), shape_rows(op[2], tail), allow_overwrite=bool(op[3]))
            elif kind == 'locWrite':
                a.loc[list(op[1])].data = shape_rows(op[2], tail)
            elif kind == 'ilocWrite':
                a.iloc[list(op[1])].data = shape_rows(op[2], tail)
            elif kind == 'overwrite':
                holder['attrs'].overwrite(holder['name'], shape_rows(op[1], tail))
            elif kind == 'overwriteIds':
                holder['attrs'].overwrite(holder['name'], shape_rows(op[2], tail), ids=np.array(op[1]))
            elif kind == 'keepRef':
                # a caller reads the public data_frame and keeps (lazily shared, copy-on-write) pieces of it alive:
                # not an update - the attribute must behave exactly as before
                df = a.data_frame
                holder.setdefault('refs', []).append([df[0], df.iloc[:2], df.copy(deep=False)][op[1] % 3])
        return 'ok'
    except ValueError:
        return 'value_error'
    except (KeyError, IndexError):
        return 'key_error'
    except Exception as e:
        holder['last_exc'] = f'{type(e).__name__}: {e}'
        return 'other'


def enc_op(op):
    k = op[0]
    if k in ('setData', 'overwrite'):
        return f'{k} {enc_rows(op[1])}'
    if k == 'update':
        return f'update {C.enc_list(op[1])} {enc_rows(op[2])} {int(op[3])}'
    return f'{k} {C.enc_list(op[1])} {enc_rows(op[2])}'


def rand_val(r, allow_nan):
    u = r.random()
    if allow_nan and u < .2:
        return 'n'
    if u < .6:
        return Fraction(r.randint(-50, 50))
    return Fraction(r.randint(-400, 400), r.choice([2, 4, 8]))


def rand_rows(r, n, w, allow_nan=False):
    return [[rand_val(r, allow_nan) for _ in range(w)] for _ in range(n)]


def rand_op(r, ids, w):
    n = len(ids)
    if r.random() < .07:
        return ('keepRef', r.randrange(3))
    u = r.random()
    if u < .14:
        return ('setData', rand_rows(r, n if r.random() < .9 else n + 1, w))
    if u < .42:
        k = r.randint(1, max(1, n))
        old = r.sample(ids, min(k, n)) if r.random() < .8 else []
        new = []
        if r.random() < .5:
            new = []
            while len(new) < r.randint(1, 3):
                c = r.choice([r.randint(1, 60), max(ids) + r.randint(1, 9), max(1, min(ids) - r.randint(1, 9))])
                if c not in ids and c not in new:
                    new.append(c)
        sel = old + new
        r.shuffle(sel)
        if r.random() < .1:
            sel = list(ids)           # identical index: pandas does not sort the union
        if not sel:
            sel = [ids[0]]
        return ('update', sel, rand_rows(r, len(sel), w, allow_nan=True), r.random() < .9)
    if u < .65:
        sel = r.sample(ids, r.randint(1, n))
        if r.random() < .07:
            sel = sel + [max(ids) + 5]
        nrows = len(sel) if r.random() < .93 else len(sel) + 1
        return ('locWrite', sel, rand_rows(r, nrows, w))
    if u < .8:
        pos = r.sample(range(n), r.randint(1, n))
        return ('ilocWrite', pos, rand_rows(r, len(pos), w))
    if u < .93:
        return ('overwrite', rand_rows(r, n if r.random() < .9 else max(0, n - 1), w))
    m = r.randint(1, 6)
    nid, _ = mg.random_ids(r, m)
    return ('overwriteIds', nid, rand_rows(r, m, w))


def history(ctx, hid):
    from femio import FEMAttribute, FEMAttributes
    r = ctx.rng
    n = r.randint(1, 7)
    ids, style = mg.random_ids(r, n)
    order = r.choice(['asc', 'desc', 'shuf'])
    ids.sort(reverse=(order == 'desc'))
    if order == 'shuf':
        r.shuffle(ids)
    tail = r.choice([[], [1], [3], [2, 2], [3, 3]])
    w = int(np.prod(tail)) if tail else 1
    with_idx = r.random() < .6
    rows0 = rand_rows(r, n, w)
    a = FEMAttribute('x', ids=np.array(ids), data=shape_rows(rows0, tail), silent=True, generate_id2index=with_idx)
    holder = {'attrs': FEMAttributes({'x': a}), 'name': 'x', 'tail': tail}
    ctx.count(f'ids:{style}/{order}')
    ctx.count(f'rank:{len(tail) + 1}')
    ctx.count('id2index:' + ('yes' if with_idx else 'no'))
    ops = []
    model = {}
    cfgs = [(1, 1, 1), (0, 0, 0)]
    if ctx.driver is not None:
        t = C.Toks(ctx.driver.ask(f'c08.new {int(with_idx)} {C.enc_list(ids)} {enc_rows(rows0)}'))
        assert t.tok() == 'ok' and t.tok() == 'ok'
        st0 = parse_state(t)
        for c in cfgs:
            model[c] = st0
    for step in range(r.randint(1, ctx.n(12, 30))):
        a = holder['attrs'][holder['name']]
        cur_ids = [int(i) for i in a.ids]
        op = rand_op(r, cur_ids, w)
        before = observe(a)
        err = apply_real(holder, op)
        ops.append(op)
        a = holder['attrs'][holder['name']]
        case = {'ids': ids, 'rows0': rows0, 'tail': tail, 'with_index': with_idx, 'ops': ops[:]}
        try:
            after = observe(a)
        except Exception as e:
            ctx.case((hid, step), nontrivial=True)
            ctx.fail(f'views-disagree:{op[0]}:data', f'after {op[0]} ({err}) the attribute cannot be read any more: '
                     f'{type(e).__name__}: {e}', case, None)
            return
        ctx.case((hid, step), sample={'initial_ids': ids, 'tail': tail, 'op': op[0], 'result': err, 'n_ops_before': step},
                 nontrivial=(before != after) or err != 'ok')
        ctx.count('op:' + op[0] + ('' if err == 'ok' else '/' + err))
        # ---- oracle: read paths agree on the real object
        bad = oracle(a)
        if bad:
            path, detail = bad[0]
            ctx.fail(f'views-disagree:{op[0]}:{path}', f'after {op[0]} the read paths of the attribute disagree: {detail}',
                     case, {'problems': bad[:5]})
            return
        if err != 'ok' and before != after:
            ctx.fail(f'failed-op-mutates:{op[0]}', f'{op[0]} raised {err} but changed the attribute', case, None)
            return
        # ---- correspondence
        if op[0] == 'keepRef':
            if before != after:
                ctx.fail('read-mutates:data_frame', 'reading data_frame and keeping a reference changed the attribute', case, None)
                return
            continue
        if ctx.driver is not None:
            for c in cfgs:
                if model[c] is None:
                    continue
                rep = ctx.driver.ask(f'c08.step {c[0]} {c[1]} {c[2]} {enc_state(model[c])} {enc_op(op)}')
                t = C.Toks(rep)
                if t.tok() != 'ok':
                    raise RuntimeError('driver: ' + rep[:300])
                merr = t.tok()
                mst = parse_state(t)
                model[c] = mst
                if c == (1, 1, 1):
                    if (merr, mst) != (err, after):
                        ctx.disagree(f'state after {op[0]}', case, {'err': err, 'state': after, 'exc': holder.get('last_exc')},
                                     {'err': merr, 'state': mst})
                        return
                    if merr == 'ok' and op[0] == 'overwriteIds':
                        pass
        if op[0] == 'overwriteIds' and err == 'ok':
            with_idx = False


def elem_stream(ctx, k):
    """mixed-type element collections; an exception inside femio on these in-quantifier inputs is a failure"""
    try:
        _elem_stream(ctx, k)
    except (RuntimeError, AssertionError):
        raise
    except Exception as e:
        import traceback
        tb = traceback.extract_tb(e.__traceback__)
        where = next((f'{f.filename.split("/")[-1]}:{f.lineno}' for f in reversed(tb) if '/femio/' in f.filename), '?')
        ctx.case(('elem-raises', k), nontrivial=True)
        ctx.fail('element-collection:raises', f'a public read path of an element collection raised {type(e).__name__}: {e} (at {where})',
                 {'stream': 'elements', 'index': k, 'seed_note': 're-run with the same VERIF_SEED'}, None)


def _elem_stream(ctx, k):
    from femio import FEMAttribute, FEMElementalAttribute
    r = ctx.rng
    types = r.sample(['line', 'tri', 'quad', 'tet', 'tet2', 'pyr', 'prism', 'hex', 'hex2', 'hexprism', 'hexprism'], r.randint(1, 3))
    m = mg.gen_combinatorial(r, types=types, max_elems=ctx.n(8, 14))
    blocks = dict(m['blocks'])
    if r.random() < .3:
        # a ragged polyhedron block (long type name, rows of different lengths)
        used = {e for b in blocks.values() for e, _ in b}
        nid = [i for i, _ in m['nodes']]
        rows = []
        for _ in range(r.randint(1, 3)):
            e = max(used) + r.randint(1, 5)
            used.add(e)
            rows.append((e, r.sample(nid, min(len(nid), r.randint(4, 7)))))
        blocks['polyhedron'] = rows
        blocks = {t: blocks[t] for t in mg.ELEMENT_TYPES if t in blocks}
    def block_data(t, b):
        if t == 'polyhedron':
            a = np.empty(len(b), dtype=object)
            a[:] = [np.array(c) for _, c in b]
            return a
        return np.array([c for _, c in b])
    el = mg.quiet(lambda: FEMElementalAttribute('ELEMENT', {
        t: FEMAttribute(t, ids=np.array([e for e, _ in b]), data=block_data(t, b), silent=True)
        for t, b in blocks.items()}))
    owner = {e: (t, c) for t, b in blocks.items() for e, c in b}
    ids = [int(i) for i in el.ids]
    types = [str(t) for t in el.types]
    data = [[int(x) for x in d] for d in el.data]
    case = {'blocks': {t: [[e, c] for e, c in b] for t, b in blocks.items()}}
    mixed = len(blocks) > 1
    ctx.count('elements:' + ('mixed' if mixed else 'uniform'))
    ctx.case(('elem', k), sample={'types': list(blocks), 'ids': ids[:10]}, nontrivial=mixed)
    probs = []
    if sorted(ids) != sorted(owner):
        probs.append('not every element exactly once')
    if mixed and ids != sorted(ids):
        probs.append('ids not ascending')
    for p, i in enumerate(ids):
        if i in owner and (types[p], data[p]) != (owner[i][0], owner[i][1]):
            probs.append(f'type/connectivity at position {p} are not those of element {i}')
            break
        if int(el.id2index.loc[i].values[0]) != p:
            probs.append(f'id2index[{i}] != {p}')
            break
        if str(el.ids_types.loc[i].values[0]) != owner[i][0]:
            probs.append(f'ids_types[{i}] wrong')
            break
    if {t: [int(i) for i in v] for t, v in el.dict_type_ids.items()} != {t: [e for e, _ in b] for t, b in blocks.items()}:
        probs.append('dict_type_ids differs from the blocks')
    # filter_with_ids / generate_elemental_attribute by definition
    sel = r.sample(ids, r.randint(1, len(ids)))
    f = mg.quiet(el.filter_with_ids, np.array(sel))
    got = {t: ([int(i) for i in v.ids], [[int(x) for x in d] for d in v.data]) for t, v in f.items()}
    want = {}
    for i in sel:
        want.setdefault(owner[i][0], ([], []))
        want[owner[i][0]][0].append(i)
        want[owner[i][0]][1].append(owner[i][1])
    if got != want:
        probs.append(f'filter_with_ids({sel}) wrong')
    vals = {i: float(r.randint(-99, 99)) for i in ids}
    sel2 = r.sample(ids, r.randint(1, len(ids)))
    g = mg.quiet(el.generate_elemental_attribute, 'v', np.array(sel2), np.array([[vals[i]] for i in sel2]))
    for t, v in g.items():
        for i, d in zip(v.ids, v.data):
            if owner[int(i)][0] != t or float(np.ravel(d)[0]) != vals[int(i)]:
                probs.append(f'generate_elemental_attribute binds {d} to element {i} of type {t}')
                break
    if sorted(int(i) for v in g.values() for i in v.ids) != sorted(sel2):
        probs.append('generate_elemental_attribute drops or duplicates ids')
    if probs:
        ctx.fail('element-collection:' + probs[0].split(' ')[0], 'mixed element collection inconsistent: ' + '; '.join(probs[:3]),
                 case, {'ids': ids, 'types': types})
    if ctx.driver is not None:
        enc = C.enc_list(blocks.items(), lambda tb: f'{mg.ELEMENT_TYPES.index(tb[0])} ' + C.enc_list(
            tb[1], lambda ec: f'{ec[0]} {C.enc_list(ec[1])}'))
        t = C.Toks(ctx.driver.ask('c08.flatten ' + enc))
        assert t.tok() == 'ok'
        mflat = t.lst(lambda: (t.nat(), mg.ELEMENT_TYPES[t.nat()], t.lst(t.nat)))
        if mflat != list(zip(ids, types, data)):
            ctx.disagree('flatten', case, list(zip(ids, types, data))[:6], mflat[:6])


def run_case(ctx, case):
    """replay of a recorded history on the real code (oracle only)"""
    from femio import FEMAttribute, FEMAttributes
    rows0 = [['n' if v == 'n' else Fraction(v) for v in r] for r in case['rows0']]
    a = FEMAttribute('x', ids=np.array(case['ids']), data=shape_rows(rows0, case['tail']), silent=True,
                     generate_id2index=case['with_index'])
    holder = {'attrs': FEMAttributes({'x': a}), 'name': 'x', 'tail': case['tail']}
    for op in case['ops']:
        op = [op[0]] + [([['n' if v == 'n' else Fraction(v) for v in r] for r in x] if (isinstance(x, list) and x and isinstance(x[0], list)) else x)
                        for x in op[1:]]
        apply_real(holder, op)
    return oracle(holder['attrs']['x'])


def run(ctx):
    for name, j in C.corpus_cases(PROP):
        ctx.count('corpus')
        bad = run_case(ctx, j)
        ctx.case(('corpus', name), nontrivial=True)
        if bad:
            ctx.fail(f'views-disagree:{j["ops"][-1][0]}:{bad[0][0]}', f'corpus case {name}: {bad[0][1]}', j, bad[:5])
    for h in range(ctx.n(250, 2500)):
        history(ctx, h)
    for k in range(ctx.n(80, 600)):
        elem_stream(ctx, k)


def replay(ctx, obj):
    case = obj['input']
    if 'ops' not in case:
        return {'fails': False, 'note': 'element-collection case: re-run the check'}
    bad = run_case(ctx, case)
    return {'problems': bad[:5], 'fails': bool(bad)}
