"""C08 - an attribute is one id-keyed table whichever way it is accessed (DESIGN.md section 4, C08).

Tie D: random histories on real FEMAttribute / FEMAttributes objects and on the model (`Attr.hstep`, stateless
`c08.hstep`): public updates interleaved with references the caller retains (slices kept across later updates and
written through later, arrays returned by read paths, the data_frame); after every operation (ids, positional data,
id-keyed frame, id2index) of the attribute AND of every slice still held are compared; exactly the `Cfg.fixed`
behaviour is required (the upstream behaviours are `decide`d counterexamples, replayed from corpus/C08).
Oracle: all public read paths of the real object (and of every retained slice) agree with each other; a write through
a slice lands on the selected ids of the parent as it is NOW and nowhere else.
Collections: FEMAttributes of attributes stored in different id orders, every collection-level read path against the
attributes' own tables (`c08.cfilter`, `c08.csetattr`), also through FEMData.extract_with_element_indices.
Further streams: time-series read paths; mixed-type element collections (`_update_self`, `update({type: block})`, `filter_with_ids`,
`generate_elemental_attribute`, `nodes.ids2indices(elements)`) against `Core.flatten` and brute-force definitions; uses outside the
quantifier (counted only).
Round 4 (class F): dtype and memory layout are dimensions of EVERY stream - each array handed to femio (initial data, every update,
every collection member, time series, element ids and connectivity, read-path arguments) is drawn from all integer widths signed /
unsigned, float32, bool, float64 x C / Fortran / transposed view / moved axes / non-contiguous slices / read-only / negative stride;
only VALUES are compared, and the freshly constructed object is itself checked against the table handed over.
Round 5: the TABLE after every successful public update is checked BY ID against what the update describes (`public_update_oracle`,
`collection_op_oracle`: theorem C08_update_spec / C08_update_request_order stated on the real object) - read paths that all agree
with each other on a table whose rows sit under the wrong ids are a violation with a concrete input, not only a correspondence
break; requests that renew two or more EXISTING rows in storage / ascending / descending / reversed / shuffled order are a deliberate
generator style (histories, retained slices, collections via update_data, one-type element collections via update(ids, rows));
requests whose id array has a narrower dtype than the stored ids need are a deliberate style too (finding F20)."""
import contextlib
import io
import math
import os
from fractions import Fraction

import numpy as np

from . import common as C
from . import meshgen as mg

PROP = 'C08'
LEAN_MODULES = ['Femio.Props.C08']
THEOREMS = ['C08_inv_init', 'C08_inv', 'C08_reachable', 'C08_views_agree', 'C08_filter_with_ids', 'C08_update_spec',
            'C08_mixed_once_sorted',
            'C08_hist_inv', 'C08_hist_reachable', 'C08_keepRef_noop', 'C08_write_through_by_id', 'C08_held_write_by_id',
            'C08_collection_filter', 'C08_collection_set_attribute',
            'C08_unsigned_guard_vacuous', 'C08_signed_guard_sound', 'C08_counterexample_unsigned_shortcut',
            'C08_layout_C_roundtrip', 'C08_layout_A_symmetric', 'C08_counterexample_layout_A',
            'C08_counterexample_loc_write', 'C08_counterexample_overwrite', 'C08_counterexample_update_index',
            'C08_counterexample_iloc_scalar', 'C08_counterexample_slice_alias',
            'C08_update_request_order', 'C08_counterexample_mask_update']
PARTIAL = ['dtype and memory layout are dimensions of the correspondence and of the oracle, not of the model state (the model table holds '
           'exact values); Model/AttrLayout states the two shortcuts that make them observable (order="A" flattening, unsigned np.diff guard) '
           'and their decide-d counterexamples, the driver does not execute them',
           'time-series attributes: data assignment and every read path (ids, data, loc, iloc, filter_with_ids) are checked by the oracle '
           'only, not modelled; update raises NotImplementedError for time series and write-through of a time-series slice is not exercised',
           'ragged (object) attributes: read paths of polyhedron blocks are exercised by the element stream (oracle only), not modelled',
           'update(allow_overwrite=False) raises AttributeError on the installed pandas (DataFrame.append removed): modelled '
           'as the error it is, state unchanged (F5)',
           'slices of slices (a.loc[..].loc[..].data = v reaches the intermediate slice only) are neither modelled nor exercised',
           'row updates of one-type element collections (FEMElementalAttribute.update(ids, rows, allow_overwrite=True), el.data = rows) '
           'are checked by the oracle (block by id, flattened summary by definition) and their RESULT against Core.flatten; the operations '
           'themselves are modelled only on the underlying FEMAttribute (Attr.updateOverwrite / setData)',
           'the dtype of a request\'s id array is not a model dimension (model ids are naturals): finding F20 (narrow unsigned request dtype '
           'wraps stored ids) is stated by the oracle only; C08_update_spec / C08_update_request_order say what the table must be',
           'the upstream aliasing of slices (Cfg.sliceOwnsData = false) is modelled in simplified form (any retained reference severs '
           'the view); only the decide-d counterexample C08_counterexample_slice_alias and its corpus replay rely on it']
RULE = ('seeded histories of 1..12 (thorough: ..30) operations on one attribute with unsorted / sparse / large / "looks sorted" '
        '(midshuf, swap2) ids, rank 1..4 data (scalars, vectors, non-symmetric 2x2 / 3x3 / 2x3 / 2x2x2 tensors), with and without id2index; '
        'per history a data dtype (float64, float32, bool, every integer width signed / unsigned; values drawn exactly representable) and '
        'an ids dtype (default or any signed / unsigned width the ids fit in), per array handed over a memory layout (C, Fortran, '
        'transposed view, id axis moved to the front, every-second-row / leading-columns slices of larger buffers, read-only, negative '
        'stride) and the choice stored-dtype / float64; the freshly constructed attribute is checked against the table handed over; '
        'then public updates (data assignment, update with/without overwrite spelled as attribute.update or FEMAttributes.update_data, '
        'of which 40 % are DELIBERATE requests renewing two or more (every third: all) existing rows and nothing else, the ids named in '
        'storage order / ascending / descending / reversed storage order / shuffled / storage order with one adjacent transposition; '
        'every 40th history stores ids that need a wide dtype next to small ones and requests small ids as uint8 / uint16 / int8 / int16 '
        'arrays; after every successful setData / overwrite / overwrite(ids=) / update / update of a retained slice the table is compared '
        'BY ID with the table the update describes (requested id -> requested row whatever the request order, NaN cell keeps the stored '
        'cell, other ids keep their rows, no other id) independently of the model; collections: the same by-id statement after every '
        'update_data / overwrite / loc write / set_attribute_data / pop incl. "attributes not named keep their tables", 12 % deliberate '
        'renew-existing requests; one-type element collections: data assignment through the collection (el.data = rows) and '
        'update(ids, connectivity rows, allow_overwrite=True) in the same request orders, block compared by id and the flattened '
        'summary (ids, types, data, id2index, ids_types, dict_type_ids) re-checked after each; further: update with/without '
        'overwrite incl. NaN cells and new ids that re-sort the rows, write through .loc / .iloc slices spelled as list / array / Index / '
        'one key / boolean mask / positional slice, FEMAttributes.overwrite with and without ids) INTERLEAVED with references the caller '
        'retains: slices a.loc[..] / a.iloc[..] kept across later updates of the parent and written through later (.data =, .update), '
        'arrays returned by .data / .values / .ids / to_dict, the data_frame and pieces of it; after every operation the attribute and '
        'every slice still held are dumped through all read paths and compared with the model; a write through a slice is also checked '
        'by id against the snapshot taken before it (selected ids hold what the slice says, other ids keep their rows); a case = one '
        'operation applied to one state; non-trivial = the operation changed the state or raised; '
        'plus collections (FEMAttributes) of 2..4 attributes over the same ids in DIFFERENT orders / other id sets / other lengths, '
        'built by constructor, update_data, update, set_attribute_data, read after each of 0..3 collection-level updates through '
        'filter_with_ids, extract_dict, get_attribute_ids/data, get_data_length, are_same_lengths, to_dict/from_dict, to_meshio and '
        'FEMData.extract_with_element_indices (non-trivial = attributes stored in different id orders); time-series attributes '
        '(assignment, then every read path incl. single-key loc / iloc), same dtype / layout dimensions; element collections of 1..4 '
        'types (incl. ragged polyhedron blocks) whose ids are numbered randomly / consecutively type after type / that with one adjacent '
        'transposition / later type holding the smaller ids / round-robin / descending, ids per collection or per block in any signed / '
        'unsigned width, connectivity in any integer width and layout, dict insertion order permuted; checked as constructed, after a '
        'public update({type: block}) replacing a block or adding a type, and on the collections returned by filter_with_ids / '
        'generate_elemental_attribute (each again: every element once, ascending, type / connectivity / id2index / ids_types / '
        'dict_type_ids / blocks consistent), nodes.ids2indices(collection); a labelled stream of uses outside the quantifier (caller '
        'edits its own array after handing it over, ids assigned, an element block written behind the collection, pandas refusing a value '
        'the column dtype cannot hold) is recorded in the distribution and never reported')
ASSUMPTIONS = ['dtype and memory layout of an array are not part of the table it describes: generated values are exactly representable in '
               'the dtype they are handed over in (and in float32 / float64), all comparisons are by value through exact rationals; a write '
               'that pandas REFUSES with TypeError "Invalid value ... for dtype" (a value the column dtype cannot hold, e.g. a NaN kept by '
               'an old slice written into a parent re-assigned as bool / integers) ends the history and is counted outside the quantifier',
               'pandas combine_first semantics (union index sorted ascending unless the two indexes are identical; cell-wise '
               '"new unless NaN") are reproduced by the model and validated by this correspondence',
               'ids are pairwise distinct (the property\'s id sets), also within one selection',
               'what update(ids, rows, allow_overwrite=True) DESCRIBES is read off its docstring and the pandas rule it delegates to: the '
               'requested row under each requested id (a NaN cell of the request keeps the stored cell - the oracle accepts the stored '
               'value or NaN there, the model pins which), untouched rows under all other ids, no further ids; the storage ORDER afterwards '
               'is not asserted by the oracle (the model / correspondence pins it)',
               'an update request whose id array has a dtype that cannot hold every STORED id (uint8 / uint16 request on int64 ids) is inside '
               'the quantifier (class F: the dtype of an array is not part of the ids it names): open finding F20 '
               '(update:narrow-request-id-dtype-wraps-stored-ids), green both with the defect listed as known and with the candidate patch',
               'FEMAttributes.overwrite(name, data, ids=...) puts a NEW attribute object into the collection: slices of the old object '
               'are dropped from the history (model and harness)',
               'a slice is a snapshot (copy) of the selected rows that writes through to its parent by id; this is what the repaired '
               'code does and what the correspondence validates for every retained slice after every operation']

NAN = float('nan')


def canon(x):
    x = float(x)
    return 'n' if math.isnan(x) else Fraction(x)


def rows_of(arr, n):
    a = np.asarray(arr, dtype=float)
    a = a.reshape(n, -1) if n else a.reshape(0, -1)
    return [[canon(v) for v in r] for r in a]


def enc_val(v):
    return 'n' if v == 'n' else C.enc_rat(v)


def enc_rows(rows):
    return C.enc_list(rows, lambda r: C.enc_list(r, enc_val))


def observe(a):
    ids = [int(i) for i in a.ids]
    n = len(ids)
    data = rows_of(a.data, n)
    frame = rows_of(a.data_frame.values, n)
    idx = None
    if a.generate_id2index:
        idx = [(int(i), int(v)) for i, v in zip(a.id2index.index.values, a.id2index.values[:, 0])]
    return ids, data, frame, idx


def enc_state(st):
    ids, data, frame, idx = st
    s = f'{C.enc_list(ids)} {enc_rows(data)} {enc_rows(frame)} '
    s += '0' if idx is None else '1 ' + C.enc_list(idx, lambda p: f'{p[0]} {p[1]}')
    return s


def parse_state(t):
    def val():
        x = t.tok()
        return 'n' if x == 'n' else Fraction(x)
    ids = t.lst(t.nat)
    data = t.lst(lambda: t.lst(val))
    frame = t.lst(lambda: t.lst(val))
    idx = None
    if t.nat():
        idx = t.lst(lambda: (t.nat(), t.nat()))
    return ids, data, frame, idx


def det_ids(sel):
    """the ids of a read-path argument as an array whose dtype is chosen deterministically from the content (replayable):
    default int64, or a signed / unsigned width they fit in"""
    sel = [int(i) for i in sel]
    return ids_array(sel, (None, 'uint16', 'uint32', 'uint64', 'int32', 'uint8', None)[sum(sel) % 7] if sel else None)


def oracle(a):
    """all public read paths of the real object agree; returns a list of (path, detail)"""
    bad = []
    ids = [int(i) for i in a.ids]
    n = len(ids)
    try:
        data = rows_of(a.data, n)
    except Exception as e:
        return [('data', f'{type(e).__name__}: {e}')]
    if len(data) != n:
        bad.append(('len', f'{n} ids vs {len(data)} rows'))
        return bad
    for k, i in enumerate(ids):
        try:
            r = rows_of(a.loc[i].data, 1)[0]
            if r != data[k]:
                bad.append(('loc', f'loc[{i}] = {r} but data[{k}] = {data[k]}'))
            r = rows_of(a.iloc[k].data, 1)[0]
            if r != data[k]:
                bad.append(('iloc', f'iloc[{k}] = {r} but data[{k}] = {data[k]}'))
            r = rows_of(a[i], 1)[0]
            if r != data[k]:
                bad.append(('getitem', f'[{i}] = {r} but data[{k}] = {data[k]}'))
            if a.generate_id2index:
                p = a.ids2indices(det_ids([i]))
                if [int(x) for x in np.ravel(p)] != [k]:
                    bad.append(('ids2indices', f'ids2indices([{i}]) = {np.ravel(p).tolist()} but the id is stored at {k}'))
        except Exception as e:
            bad.append(('read-raises', f'id {i} at {k}: {type(e).__name__}: {e}'))
        if len(bad) > 3:
            break
    if n and a.generate_id2index and not bad:
        try:          # id -> position translation keeps the shape of what it is given (2-d connectivity, object rows)
            p2 = a.ids2indices(np.array([ids[::-1], ids]))
            po = a.ids2indices(np.array([np.array(ids[:1]), np.array(ids)], dtype=object))
            if np.asarray(p2).tolist() != [list(range(n))[::-1], list(range(n))] or [list(map(int, x)) for x in po] != [[0], list(range(n))]:
                bad.append(('ids2indices', 'ids2indices of a 2-d / ragged array of ids is not the array of their positions'))
        except Exception as e:
            bad.append(('read-raises', f'ids2indices (2-d / ragged): {type(e).__name__}: {e}'))
    if n:
        sel = ids[::-1][: max(1, n // 2)]
        try:
            f = a.filter_with_ids(det_ids(sel))
            if [int(i) for i in f.ids] != sel or rows_of(f.data, len(sel)) != [data[ids.index(i)] for i in sel]:
                bad.append(('filter_with_ids', f'filter_with_ids({sel}) does not return the rows stored for these ids'))
        except Exception as e:
            bad.append(('read-raises', f'filter_with_ids: {type(e).__name__}: {e}'))
    return bad


# ------------------------------------------------------------------------------------------------ dtype and memory layout
# The SAME table can reach femio as arrays of any dtype and any memory layout (components computed as (3, 3, n) and handed over as
# the transposed (n, 3, 3) view, np.asfortranarray, slices of larger buffers, read-only arrays coming out of np.load(mmap) /
# other libraries, ids in unsigned dtypes as binary readers deliver them).  None of that is part of the table: every stream
# below draws (dtype, layout) per array it hands over and compares VALUES only.
DTYPES = ('float64', 'float32', 'int8', 'uint8', 'int16', 'uint16', 'int32', 'uint32', 'int64', 'uint64', 'bool')
INT_DTYPES = ('int8', 'uint8', 'int16', 'uint16', 'int32', 'uint32', 'int64', 'uint64')
LAYOUTS = ('C', 'F', 'T', 'axes', 'strided', 'strided-last', 'readonly', 'F-readonly', 'reversed')
_POISON = {'b': True, 'i': 77, 'u': 77, 'f': -77.25}


def value_kind(dt):
    """which values a generator may draw so that they are exactly representable in dtype `dt`"""
    if dt in (None, 'float64', 'float32'):
        return 'float'
    return 'bool' if dt == 'bool' else 'uint' if dt.startswith('u') else 'int'


def lay(a, layout):
    """the same array VALUE (shape, dtype, every element) in another memory layout"""
    a = np.asarray(a)
    if a.dtype == object or layout in (None, 'C'):
        return a
    poison = _POISON.get(a.dtype.kind, 0)
    if layout == 'F':                      # Fortran-contiguous, owns its data
        out = np.asfortranarray(a)
    elif layout == 'T':                    # computed component-wise as (.., q, p, n), handed over as the transposed view
        out = np.ascontiguousarray(a.T).T
    elif layout == 'axes':                 # components first, (p, q, n) C-ordered, id axis moved to the front (a view that is
        out = np.moveaxis(np.ascontiguousarray(np.moveaxis(a, 0, -1)), -1, 0) if a.ndim > 1 else a[:]      # neither C nor F contiguous)
    elif layout == 'strided' or (layout == 'strided-last' and a.ndim < 2):          # every second row of a larger buffer
        big = np.full((2 * len(a) + 1,) + a.shape[1:], poison, dtype=a.dtype)
        big[1::2] = a
        out = big[1::2]
    elif layout == 'strided-last':         # the leading columns of a wider buffer
        big = np.full(a.shape[:-1] + (a.shape[-1] + 2,), poison, dtype=a.dtype)
        big[..., :a.shape[-1]] = a
        out = big[..., :a.shape[-1]]
    elif layout == 'readonly':
        out = np.array(a, order='C')
        out.setflags(write=False)
    elif layout == 'F-readonly':
        out = np.array(a, order='F')
        out.setflags(write=False)
    elif layout == 'reversed':             # negative stride along the id axis
        out = np.ascontiguousarray(a[::-1])[::-1]
    else:
        raise ValueError(layout)
    assert out.shape == a.shape and out.dtype == a.dtype and np.array_equal(out, a, equal_nan=(a.dtype.kind == 'f'))
    return out


def cast_rows(a, dt):
    """float64 array -> dtype dt when every value is exactly representable there, else unchanged (the caller passes float64)"""
    if dt in (None, 'float64') or np.isnan(a).any():
        return a
    info = None if dt in ('float32', 'bool') else np.iinfo(dt)
    if info is not None and a.size and (a.min() < info.min or a.max() > info.max):
        return a
    b = a.astype(dt)
    return b if np.array_equal(b.astype(float), a) else a


def shape_rows(rows, tail, dt=None, layout=None):
    a = np.array([[NAN if v == 'n' else float(v) for v in r] for r in rows], dtype=float)
    return lay(cast_rows(a.reshape([len(rows)] + list(tail)), dt), layout)


def rows_fit(rows, dt):
    """every non-NaN value of the rows is exactly representable in dtype dt"""
    vk = value_kind(dt)
    if vk == 'float':
        return True
    lo, hi = (0, 1) if vk == 'bool' else (np.iinfo(dt).min, np.iinfo(dt).max)
    return all(v == 'n' or (v.denominator == 1 and lo <= v <= hi) for r_ in rows for v in r_)


def fitting_id_dtypes(ids):
    lo, hi = (min(ids), max(ids)) if len(ids) else (0, 0)
    return [d for d in INT_DTYPES if np.iinfo(d).min <= lo and hi <= np.iinfo(d).max]


def rand_id_dtype(r, ids, p_default=.45):
    """None = whatever np.array(list of ints) gives (int64); otherwise any signed / unsigned width the ids fit in"""
    if r.random() < p_default:
        return None
    c = fitting_id_dtypes(ids)
    uns = [d for d in c if d.startswith('u')]
    return r.choice(uns if (uns and r.random() < .6) else c) if c else None


def ids_array(ids, idt=None, layout=None):
    a = np.array(ids, dtype=idt) if (idt and all(np.iinfo(idt).min <= i <= np.iinfo(idt).max for i in ids)) else np.array(ids)
    return lay(a, layout if layout in ('strided', 'readonly', 'reversed') else None)


def rand_layout(r, p_c=.3):
    return 'C' if r.random() < p_c else r.choice(LAYOUTS[1:])


def rand_dtype(r, p_f64=.4):
    return 'float64' if r.random() < p_f64 else r.choice(DTYPES[1:])


class Fmt:
    """per history: dtype of the data, dtype of the ids and a seed from which the (dtype, layout) of the array handed over by the
    k-th operation is derived - deterministic, so that a recorded history replays with the same arrays"""
    def __init__(self, d=None):
        d = d or {}
        self.dt, self.idt, self.seed = d.get('dt'), d.get('idt'), d.get('seed')
        self.lay0, self.idlay = d.get('lay0'), d.get('idlay')
        self.step = 0

    def to_json(self):
        return {'dt': self.dt, 'idt': self.idt, 'seed': self.seed, 'lay0': self.lay0, 'idlay': self.idlay}

    def next_op(self):
        """(dtype, layout, ids layout) for the arrays of the next operation"""
        self.step += 1
        if self.seed is None:
            return None, None, None
        import random
        fr = random.Random(self.seed * 100003 + self.step)
        dt = self.dt if (self.dt == 'bool' or fr.random() < .7) else 'float64'
        return dt, rand_layout(fr), fr.choice([None, None, 'strided', 'readonly', 'reversed'])


PUB =('setData', 'update', 'locWrite', 'ilocWrite', 'overwrite', 'overwriteIds')
N_REF_KINDS = 10


def make_key(form, sel, a, positional=False, idt=None):
    """the same selection spelled in the different ways a caller may spell it"""
    if form == 'scalar':
        return sel[0]
    if form == 'array':
        return np.array(sel) if positional else ids_array(sel, idt)
    if form == 'slice':          # contiguous positions (iloc only)
        return slice(sel[0], sel[-1] + 1)
    if form == 'mask':           # boolean mask over the stored rows (selection in stored order)
        return np.isin(np.arange(len(a.ids)) if positional else a.ids, sel)
    if form == 'index':
        import pandas as pd
        return pd.Index(sel)
    return list(sel)


def apply_real(holder, op):
    """holder = {'attrs': FEMAttributes, 'name': str, 'held': [slices kept by the caller], 'refs': [...], 'fmt': Fmt};
    returns error kind"""
    from femio import FEMAttributes  # noqa
    a = holder['attrs'][holder['name']]
    tail = holder['tail']
    held = holder.setdefault('held', [])
    kind = op[0]
    form = op[3] if kind in ('locWrite', 'ilocWrite') and len(op) > 3 else (op[2] if kind in ('take', 'takeI') and len(op) > 2 else 'list')
    fmt = holder.get('fmt') or Fmt()
    dt, layout, idlay = fmt.next_op()
    holder.pop('last_exc', None)
    idt = fmt.idt

    def arr(rows):          # the rows of this operation as the array the caller hands over
        return shape_rows(rows, tail, dt, layout)
    try:
        with contextlib.redirect_stdout(io.StringIO()):
            if kind == 'setData':
                if len(op) > 2 and op[2] == 'update_data':
                    a.update_data(arr(op[1]))
                else:
                    a.data = arr(op[1])
            elif kind == 'update':
                spell = op[4] if len(op) > 4 else 'list'
                ids_, vals = list(op[1]), arr(op[2])
                if spell == 'scalar' and len(ids_) == 1:          # update(id, value): one id, not wrapped in a list
                    ids_ = ids_[0]
                    if not tail:
                        vals = float(vals[0])
                elif spell == 'array':
                    ids_ = ids_array(ids_, idt, idlay)
                elif spell == 'tuple':
                    ids_ = tuple(ids_)
                elif spell == 'update_data-array':
                    ids_ = ids_array(ids_, idt, idlay)
                holder['last_req_idt'] = str(ids_.dtype) if isinstance(ids_, np.ndarray) else None
                if spell.startswith('update_data'):          # the collection-level spelling of the same public update
                    holder['attrs'].update_data(ids_, {holder['name']: vals}, allow_overwrite=bool(op[3]))
                else:
                    a.update(ids_, vals, allow_overwrite=bool(op[3]))
            elif kind == 'locWrite':
                a.loc[make_key(form, list(op[1]), a, idt=idt)].data = arr(op[2])
            elif kind == 'ilocWrite':
                a.iloc[make_key(form, list(op[1]), a, True)].data = arr(op[2])
            elif kind == 'overwrite':
                holder['attrs'].overwrite(holder['name'], arr(op[1]))
            elif kind == 'overwriteIds':
                holder['attrs'].overwrite(holder['name'], arr(op[2]), ids=ids_array(op[1], idt, idlay))
                del held[:]          # a NEW object sits in the collection: the slices held belong to the old one
            elif kind == 'take':
                held.append(a.loc[make_key(form, list(op[1]), a, idt=idt)])
            elif kind == 'takeI':
                held.append(a.iloc[make_key(form, list(op[1]), a, True)])
            elif kind == 'heldSet':
                held[op[1]].data = arr(op[2])
            elif kind == 'heldUpdate':
                held[op[1]].update(list(op[2]), arr(op[3]), allow_overwrite=True)
            elif kind == 'drop':
                del held[op[1]]
            elif kind == 'keepRef':
                # a caller reads a public accessor and keeps what it returned (lazily shared, copy-on-write pieces of the
                # frame, the array behind .data, a slice's array ...): not an update - the attribute must behave as before
                df = a.data_frame
                k = op[1] % N_REF_KINDS
                ref = [lambda: df[0], lambda: df.iloc[:2], lambda: df.copy(deep=False), lambda: a.data, lambda: a.values,
                       lambda: a.ids, lambda: a.iloc[[0]].data, lambda: a.to_dict(), lambda: df.values,
                       lambda: a.filter_with_ids(a.ids[:1]).data_frame][k]()
                holder.setdefault('refs', []).append(ref)
        if fmt.dt not in (None, 'float64') and kind in ('setData', 'overwrite', 'overwriteIds', 'update') and \
                not rows_fit(op[2] if kind in ('update', 'overwriteIds') else op[1], fmt.dt):
            fmt.dt = 'float64'          # the frame has been REPLACED by one holding values the old dtype cannot: a float table from now on
        return 'ok'
    except ValueError as e:
        holder['last_exc'] = f'{type(e).__name__}: {e}'
        return 'value_error'
    except (KeyError, IndexError) as e:
        holder['last_exc'] = f'{type(e).__name__}: {e}'
        return 'key_error'
    except Exception as e:
        holder['last_exc'] = f'{type(e).__name__}: {e}'
        return 'other'


def enc_op(op):
    k = op[0]
    if k in ('setData', 'overwrite'):
        return f'{k} {enc_rows(op[1])}'
    if k == 'update':
        return f'update {C.enc_list(op[1])} {enc_rows(op[2])} {int(op[3])}'
    return f'{k} {C.enc_list(op[1])} {enc_rows(op[2])}'


def enc_hop(op):
    k = op[0]
    if k in PUB:
        return 'pub ' + enc_op(op)
    if k == 'keepRef':
        return 'keepRef'
    if k == 'takeI' and len(op) > 2 and op[2] == 'scalar':
        return f'takeI1 {op[1][0]}'
    if k == 'takeI' and len(op) > 2 and op[2] in ('slice', 'mask'):          # keys pandas may serve as views of the parent
        return f'takeView {C.enc_list(op[1])}'
    if k in ('take', 'takeI'):
        return f'{k} {C.enc_list(op[1])}'
    if k == 'heldSet':
        return f'heldSet {op[1]} {enc_rows(op[2])}'
    if k == 'heldUpdate':
        return f'heldUpdate {op[1]} {C.enc_list(op[2])} {enc_rows(op[3])}'
    return f'drop {op[1]}'


def enc_hist(h):
    return (f'{enc_state(h[0])} {C.enc_list(h[1], enc_state)} {h[2]} '
            + C.enc_list(h[3], lambda v: '0' if v is None else '1 ' + C.enc_list(v)))


def parse_hist(t):
    cur = parse_state(t)
    held = t.lst(lambda: parse_state(t))
    refs = t.nat()
    vws = t.lst(lambda: t.lst(t.nat) if t.nat() else None)
    return cur, held, refs, vws


def rand_val(r, allow_nan, vk='float'):
    u = r.random()
    if allow_nan and u < .2:
        return 'n'
    if vk == 'bool':
        return Fraction(r.randint(0, 1))
    if vk == 'uint':
        return Fraction(r.randint(0, 100))
    if u < .6 or vk == 'int':
        return Fraction(r.randint(-50, 50))
    return Fraction(r.randint(-400, 400), r.choice([2, 4, 8]))


def rand_rows(r, n, w, allow_nan=False, vk='float'):
    return [[rand_val(r, allow_nan, vk) for _ in range(w)] for _ in range(n)]


def rand_sel(r, ids, loc=True, scalar_iloc=False):
    """a selection of stored ids (loc) / positions (iloc) and a way of spelling it"""
    n = len(ids)
    u = r.random()
    if loc:
        if u < .12:
            return [r.choice(ids)], 'scalar'
        if u < .24:
            k = r.randint(1, n)
            chosen = set(r.sample(ids, k))
            return [i for i in ids if i in chosen], 'mask'
        return r.sample(ids, r.randint(1, n)), r.choice(['list', 'list', 'array', 'index'])
    if scalar_iloc and u > .9:
        return [r.randrange(n)], 'scalar'
    if u < .2:
        i = r.randrange(n)
        j = r.randint(i, n - 1)
        return list(range(i, j + 1)), 'slice'
    if u < .3:
        chosen = set(r.sample(range(n), r.randint(1, n)))
        return [k for k in range(n) if k in chosen], 'mask'
    return r.sample(range(n), r.randint(1, n)), r.choice(['list', 'list', 'array'])


NARROW_REQ = 'update:narrow-request-id-dtype-wraps-stored-ids'
RENEW_STYLES = ('storage-order', 'ascending', 'descending', 'storage-reversed', 'shuffled', 'swap2')


def renew_request(r, ids, style=None):
    """a request that names k >= 2 (all, for every third request) of the stored ids and nothing else, in a chosen order"""
    n = len(ids)
    k = n if r.random() < .34 else r.randint(2, n)
    chosen = set(r.sample(ids, k))
    sub = [i for i in ids if i in chosen]          # storage order
    style = style or r.choice(RENEW_STYLES)
    if style == 'ascending':
        sel = sorted(sub)
    elif style == 'descending':
        sel = sorted(sub, reverse=True)
    elif style == 'storage-reversed':
        sel = sub[::-1]
    elif style == 'shuffled':
        sel = r.sample(sub, k)
    elif style == 'swap2':          # storage order with one adjacent transposition
        sel = list(sub)
        j = r.randrange(k - 1)
        sel[j], sel[j + 1] = sel[j + 1], sel[j]
    else:
        sel = sub
    return sel, style + (':all-rows' if k == n else '') + ('' if sel != sub else ':request=storage-order')


def rand_op(r, ids, w, held_ids=(), slicey=False, scalar_iloc=False, vk='float'):
    """one operation of the history alphabet; `held_ids` = the ids of the slices the caller still holds"""
    n = len(ids)
    if r.random() < .07:
        return ('keepRef', r.randrange(N_REF_KINDS))
    if slicey or held_ids:
        v = r.random()
        if held_ids and v < .22:
            k = r.randrange(len(held_ids))
            m = len(held_ids[k])
            return ('heldSet', k, rand_rows(r, m if r.random() < .95 else m + 1, w, allow_nan=r.random() < .3, vk=vk))
        if held_ids and v < .30:
            k = r.randrange(len(held_ids))
            sel = r.sample(held_ids[k], r.randint(1, len(held_ids[k])))
            if len(held_ids[k]) >= 2 and r.random() < .5:
                sel, _ = renew_request(r, held_ids[k])
            return ('heldUpdate', k, sel, rand_rows(r, len(sel), w, allow_nan=True, vk=vk))
        if held_ids and v < .33:
            return ('drop', r.randrange(len(held_ids)))
        if len(held_ids) < 3 and v < (.62 if not held_ids else .45):
            if r.random() < .65:
                sel, form = rand_sel(r, ids, True)
                if r.random() < .04:
                    sel, form = sel + [max(ids) + 3], 'list'
                return ('take', sel, form)
            pos, form = rand_sel(r, ids, False, scalar_iloc)
            return ('takeI', pos, form)
    u = r.random()
    vk_in = vk
    if vk != 'float' and r.random() < .15:
        # operations that REPLACE the frame (data assignment, overwrite, update = combine_first) may hand over values the stored
        # dtype cannot hold (fractions into an integer / bool attribute): the table simply changes dtype.  Writes INTO the existing
        # frame (through slices) keep to values the stored dtype holds (pandas refuses others: outside the quantifier)
        vk = 'float'
    if u < .14:
        return ('setData', rand_rows(r, n if r.random() < .9 else n + 1, w, vk=vk), r.choice(['data', 'data', 'update_data']))
    if n >= 2 and (u < .42 or (held_ids and u < .6)) and r.random() < .4:
        # deliberate structure (never left to luck): two or more EXISTING rows renewed in one request, the request naming the ids
        # in storage order / ascending / descending / reversed storage order / shuffled - on tables stored in any id order
        sel, style = renew_request(r, ids)
        return ('update', sel, rand_rows(r, len(sel), w, allow_nan=r.random() < .25, vk=vk), True,
                r.choice(['list', 'list', 'array', 'tuple', 'update_data', 'update_data-array']), style)
    if u < .42 or (held_ids and u < .6):
        k = r.randint(1, max(1, n))
        old = r.sample(ids, min(k, n)) if r.random() < .8 else []
        new = []
        if r.random() < (.7 if held_ids else .5):
            new = []
            while len(new) < r.randint(1, 3):
                c = r.choice([r.randint(1, 60), max(ids) + r.randint(1, 9), max(1, min(ids) - r.randint(1, 9))])
                if c not in ids and c not in new:
                    new.append(c)
        sel = old + new
        r.shuffle(sel)
        if r.random() < .1:
            sel = list(ids)           # identical index: pandas does not sort the union
        if not sel:
            sel = [ids[0]]
        if r.random() < .15:
            sel = sel[:1]
        return ('update', sel, rand_rows(r, len(sel), w, vk=vk), r.random() < .9, 'scalar') if len(sel) == 1 and r.random() < .7 else \
            ('update', sel, rand_rows(r, len(sel), w, allow_nan=True, vk=vk), r.random() < .9, r.choice(['list', 'list', 'array', 'tuple']))
    if u < .65:
        sel, form = rand_sel(r, ids, True)
        if r.random() < .07:
            sel, form = sel + [max(ids) + 5], 'list'
        nrows = len(sel) if r.random() < .93 else len(sel) + 1
        # NaN cells in an assignment through a slice are VALUES (the cell becomes NaN in every view), unlike the NaN cells of an
        # update request (round 6, seeded C08-12: a write-through by DataFrame.update never overwrites with NaN)
        return ('locWrite', sel, rand_rows(r, nrows, w, allow_nan=r.random() < .3, vk=vk_in), form)
    if u < .8:
        pos, form = rand_sel(r, ids, False, scalar_iloc)
        return ('ilocWrite', pos, rand_rows(r, len(pos), w, allow_nan=r.random() < .3, vk=vk_in), form)
    if u < .93:
        return ('overwrite', rand_rows(r, n if r.random() < .9 else max(0, n - 1), w, vk=vk))
    m = r.randint(1, 6)
    nid, _ = mg.random_ids(r, m)
    return ('overwriteIds', nid, rand_rows(r, m, w, vk=vk))


def table_of(st):
    """id -> row of an observed state (positional view)"""
    return dict(zip(st[0], [tuple(x) for x in st[1]]))


def _show(row):
    return [str(v) for v in row]


def renewed_table(tb, req_ids, req_rows):
    """the table that update(req_ids, req_rows, allow_overwrite=True) DESCRIBES, by id (theorem C08_update_spec stated on the
    real object): id -> list of admissible values per cell.  A requested id holds the requested row - whatever the order in which
    the request names the ids; a NaN cell of the request leaves the stored cell (pandas combine_first; NaN for a new id); ids that
    are not requested keep their rows; no other id appears"""
    want = {i: [(v,) for v in row] for i, row in tb.items()}
    for i, row in zip(req_ids, req_rows):
        old = tb.get(i)
        want[i] = [((v,) if v != 'n' else (old[c], 'n') if old is not None and c < len(old) else ('n',)) for c, v in enumerate(row)]
    return want


def table_mismatch(want, got_ids, got_rows, requested=()):
    """first difference between the table `want` (id -> admissible values per cell) and the positional view (ids[k], data[k])"""
    if sorted(got_ids) != sorted(want):
        return 'ids', f'the attribute lists the ids {got_ids} but the table described holds {sorted(want)}'
    for i, row in zip(got_ids, got_rows):
        w_ = want[i]
        if len(row) != len(w_) or any(v not in adm for v, adm in zip(row, w_)):
            return (('requested-id', f'the row passed for id {i} is {[str(a[0]) for a in w_]} but (ids[k], data[k]) and lookup by id '
                     f'give id {i} -> {_show(row)}') if i in requested else
                    ('other-id', f'id {i} was not named in the request but its row changed from {[str(a[0]) for a in w_]} to {_show(row)}'))
    return None


def public_update_oracle(op, before, after, before_held, after_held):
    """the TABLE after a successful public update is the one the update describes (by id) - independent of the model; the read
    paths agreeing with each other (oracle) is not enough: they can all agree on a table whose rows sit under the wrong ids"""
    kind = op[0]
    tb = table_of(before)
    if kind in ('setData', 'overwrite'):          # positional assignment: ids[k] keeps its place, data[k] = v[k]
        want = {i: [(v,) for v in row] for i, row in zip(before[0], op[1])}
        bad = ('ids-changed', f'ids {before[0]} -> {after[0]}') if after[0] != before[0] else table_mismatch(want, after[0], after[1], before[0])
    elif kind == 'overwriteIds':
        want = {i: [(v,) for v in row] for i, row in zip(op[1], op[2])}
        bad = ('ids', f'ids {after[0]} but {list(op[1])} were handed over') if after[0] != list(op[1]) else \
            table_mismatch(want, after[0], after[1], op[1])
    elif kind == 'update' and op[3]:
        bad = table_mismatch(renewed_table(tb, op[1], op[2]), after[0], after[1], set(op[1]))
    elif kind == 'heldUpdate':          # the same statement for the slice (itself an attribute) the caller updates
        st0, st1 = before_held[op[1]], after_held[op[1]]
        bad = table_mismatch(renewed_table(table_of(st0), op[2], op[3]), st1[0], st1[1], set(op[2]))
    else:
        return []
    if bad is None:
        return []
    return [(f'update-spec:{kind}:{bad[0]}', f'after {kind}' + (f' of the ids {list(op[1])} (request order; stored order {before[0]})'
             if kind == 'update' else f' of the ids {list(op[2])} of a retained slice (stored order {before_held[op[1]][0]})'
             if kind == 'heldUpdate' else '') + f' every read path agrees, but on a table that is not the one the update describes: {bad[1]}', True)]


def narrow_request(holder, op, before):
    """the dtype of the id array of an update request that holds the REQUESTED ids but not every id the attribute stores (ids read
    from a binary file as uint8 / uint16, a small group of a large mesh), else None"""
    dt = holder.get('last_req_idt')
    if op[0] != 'update' or not op[3] or not dt or dt[0] not in 'ui':
        return None
    info = np.iinfo(dt)
    return dt if any(not info.min <= i <= info.max for i in before[0]) else None


def check_scalar_slices(a):
    """a slice selected with ONE key is an attribute over that one id: (ids, data) of `a.loc[i]` / `a.iloc[k]` must be
    (ids[k], data[k]) - the positional and the id-keyed description of the same row"""
    ids = [int(i) for i in a.ids]
    n = len(ids)
    data = rows_of(a.data, n)
    bad = []
    for k, i in enumerate(ids):
        for path, c in (('loc', a.loc[i]), ('iloc', a.iloc[k])):
            got = ([int(x) for x in c.ids], rows_of(c.data, 1))
            if got != ([i], [data[k]]):
                bad.append((f'{path}-scalar', f'{path}[{i if path == "loc" else k}] is the slice (ids, data) = {got[0], [[str(v) for v in x] for x in got[1]]} '
                            f'but position {k} holds id {i} with {[str(v) for v in data[k]]}'))
                break
    return bad


def step_oracles(holder, op, err, before, before_held, after, after_held, first):
    """the property stated on the real objects after one operation of a history (independent of the model);
    returns [(signature, what, fatal)]"""
    a = holder['attrs'][holder['name']]
    out = []
    nr = narrow_request(holder, op, before)
    if nr is not None:
        info = np.iinfo(nr)
        lost = [i for i in before[0] if not info.min <= i <= info.max and i not in after[0]]
        if err != 'ok' or lost:
            return [(NARROW_REQ, f'update(ids as a {nr} array {list(op[1])}, ..., allow_overwrite=True) on an attribute storing the ids '
                     f'{before[0]}: ' + (f'raised {holder.get("last_exc", err)}' if err != 'ok' else f'afterwards the attribute lists the ids '
                     f'{after[0]} - the stored id {lost[0]} (which the dtype of the REQUEST cannot hold) is gone, its row now sits under the id '
                     f'{lost[0] % (int(info.max) + 1)}'), True)]
    bad = oracle(a)
    if bad:
        return [(f'views-disagree:{op[0]}:{bad[0][0]}', f'after {op[0]} the read paths of the attribute disagree: {bad[0][1]}', True)]
    touched = ([len(holder['held']) - 1] if op[0] in ('take', 'takeI') and err == 'ok' else
               [op[1]] if op[0] in ('heldSet', 'heldUpdate') and op[1] < len(holder['held']) else [])
    for k in touched:          # a slice is itself an attribute
        bad = oracle(holder['held'][k])
        if bad:
            return [(f'views-disagree:{op[0]}:slice:{bad[0][0]}', f'after {op[0]} the read paths of the slice (itself an attribute) '
                     f'disagree: {bad[0][1]}', True)]
    for k, st in enumerate(after_held):          # every slice the caller still holds: positional rows = id-keyed rows
        if k not in touched and st[1] != st[2]:
            j = next(j for j in range(len(st[0])) if st[1][j] != st[2][j])
            return [('retained-slice:views-disagree', f'after {op[0]} on the attribute, a slice taken earlier and still held (ids {st[0]}) '
                     f'says data[{j}] = {[str(v) for v in st[1][j]]} but loc[{st[0][j]}] = {[str(v) for v in st[2][j]]}: its positional view '
                     'follows later writes to the parent, its id-keyed view does not', True)]
    if err != 'ok' and (before != after or before_held != after_held):
        return [(f'failed-op-mutates:{op[0]}', f'{op[0]} raised {err} but changed the attribute', True)]
    if op[0] == 'keepRef' and (before != after or before_held != after_held):
        return [('read-mutates:keep-reference', 'reading a public accessor and keeping what it returned changed the attribute', True)]
    # ---- the table after a public update is the one the update describes, by id
    if err == 'ok':
        bad = public_update_oracle(op, before, after, before_held, after_held)
        if bad:
            return bad
    # ---- what a slice / a write through a slice is, by id
    if err == 'ok' and op[0] in ('take', 'takeI'):
        want_ids = list(op[1]) if op[0] == 'take' else [before[0][k] for k in op[1]]
        tb = table_of(before)
        got = after_held[-1]
        if got[0] != want_ids or [tuple(x) for x in got[1]] != [tb[i] for i in want_ids]:
            return [(f'slice-differs:{op[0]}', f'the slice {op[0]}({op[1]}, spelled as {op[2]}) does not hold the selected ids with '
                     f'the rows the attribute stores for them: slice ids {got[0]}', True)]
    if err == 'ok' and op[0] in ('locWrite', 'ilocWrite', 'heldSet', 'heldUpdate'):
        if op[0] in ('heldSet', 'heldUpdate'):
            child = table_of(after_held[op[1]])            # what the caller's slice says after the write
        else:
            sel = list(op[1]) if op[0] == 'locWrite' else [before[0][k] for k in op[1]]
            child = dict(zip(sel, [tuple(x) for x in op[2]]))
        tb, ta = table_of(before), table_of(after)
        probs = []
        if after[0] != before[0]:
            probs.append(('ids-changed', f'ids {before[0]} -> {after[0]}'))
        for i, row in child.items():
            if ta.get(i) != row:
                probs.append(('selected-id', f'the slice says id {i} -> {[str(v) for v in row]} but the attribute says id {i} -> '
                              f'{[str(v) for v in ta.get(i, ())]}'))
                break
        for i in tb:
            if i not in child and ta.get(i) != tb[i]:
                probs.append(('other-id', f'id {i} was not selected but its row changed from {[str(v) for v in tb[i]]} to '
                              f'{[str(v) for v in ta.get(i, ())]}'))
                break
        if probs:
            return [(f'write-through:{op[0]}:{probs[0][0]}', f'after writing through an id-selected slice ({op[0]}) the attribute and '
                     f'the slice describe different tables: ' + '; '.join(q[1] for q in probs), True)]
    # ---- single-key slices (a read path) describe the same row by id and by position
    if first or before[0] != after[0]:
        bad = check_scalar_slices(a)
        if bad:
            out.append((f'slice-ids:{bad[0][0]}', f'after {op[0]}: {bad[0][1]}', False))
    return out


def construct_oracle(a, ids, rows0):
    """the freshly constructed attribute IS the table handed over: (ids[k], data[k]) = (ids[k], rows0[k]) and every read path agrees"""
    got_ids = [int(i) for i in a.ids]
    if got_ids != list(ids):
        return [('ids', f'ids {got_ids} but {list(ids)} were handed over')]
    data = rows_of(a.data, len(ids))
    if data != rows0:
        k = next(k for k in range(len(ids)) if data[k] != rows0[k])
        return [('data', f'data[{k}] = {[str(v) for v in data[k]]} but the row handed over for id {ids[k]} is {[str(v) for v in rows0[k]]}')]
    return oracle(a)


def history(ctx, hid):
    from femio import FEMAttribute, FEMAttributes
    r = ctx.rng
    n = r.randint(1, 7)
    ids, style = mg.random_ids(r, n)
    if r.random() < .06:          # ids beyond 2^31 / 2^32 (uint32 / 64-bit dtypes only)
        off = r.choice([2**31, 3 * 10**9, 2**32, 2**40])
        ids, style = [i + off for i in ids], style + '+beyond-2^31'
    ids, order = mg.order_ids(r, list(ids), {i: i for i in ids}, r.choice(['asc', 'desc', 'shuf', 'shuf', 'midshuf', 'swap2']))
    narrow = None
    if hid % 40 == 7:
        # deliberate structure: the attribute stores a few small ids and some that need a wide dtype; requests name small ids only and
        # hand them over as arrays of a narrow (signed / unsigned) dtype
        narrow = r.choice(['uint8', 'uint8', 'uint16', 'uint16', 'int8', 'int16'])
        hi = int(np.iinfo(narrow).max)
        small = r.sample(range(1, min(hi, 250)), r.randint(1, 4))
        big = [hi + 1 + x for x in r.sample(range(0, 4 * hi), r.randint(1, 3))]
        ids = small + big
        r.shuffle(ids)
        n, style, order = len(ids), f'narrow-request:{narrow}', 'shuf'
    tail = r.choice([[], [1], [3], [2, 2], [3, 3], [2, 3], [2, 2, 2]])
    w = int(np.prod(tail)) if tail else 1
    with_idx = r.random() < .6
    slicey = r.random() < .55          # histories in which the caller keeps slices and writes through them later
    # dtype / memory layout of everything the caller hands over (the table is the same table whatever they are)
    fmt = Fmt({'dt': rand_dtype(r), 'idt': rand_id_dtype(r, ids), 'seed': r.randrange(10**6), 'lay0': rand_layout(r),
               'idlay': r.choice([None, None, 'strided', 'readonly', 'reversed'])})
    if narrow:
        fmt.idt = narrow
    vk = value_kind(fmt.dt)
    rows0 = rand_rows(r, n, w, vk=vk)
    a = FEMAttribute('x', ids=ids_array(ids, fmt.idt, fmt.idlay), data=shape_rows(rows0, tail, fmt.dt, fmt.lay0), silent=True,
                     generate_id2index=with_idx)
    holder = {'attrs': FEMAttributes({'x': a}), 'name': 'x', 'tail': tail, 'held': [], 'refs': [], 'fmt': fmt}
    fmt_json = fmt.to_json()
    ctx.count(f'data-dtype:{fmt.dt}')
    ctx.count(f'ids-dtype:{fmt.idt or "default"}')
    ctx.count(f'layout:initial:{fmt.lay0}' + (':rank>=3' if len(tail) >= 2 else ''))
    moved = []             # per held slice: did the parent's ids / order change since the slice was taken
    scalar_iloc = not check_scalar_slices(a)      # write through `a.iloc[k]` (one int) only where that slice carries the id
    ctx.count(f'ids:{style}/{order}')
    ctx.count(f'rank:{len(tail) + 1}')
    ctx.count('id2index:' + ('yes' if with_idx else 'no'))
    ctx.count('history:' + ('retained-slices' if slicey else 'plain'))
    ops = []
    model = None
    if ctx.driver is not None:
        t = C.Toks(ctx.driver.ask(f'c08.new {int(with_idx)} {C.enc_list(ids)} {enc_rows(rows0)}'))
        assert t.tok() == 'ok' and t.tok() == 'ok'
        model = (parse_state(t), [], 0, [])
    # ---- the attribute as constructed: the table handed over, through every read path
    case0 = {'ids': ids, 'rows0': rows0, 'tail': tail, 'with_index': with_idx, 'ops': [], 'fmt': fmt_json}
    ctx.case((hid, 'construct'), nontrivial=(fmt.lay0 != 'C' or fmt.dt != 'float64' or fmt.idt is not None))
    bad = construct_oracle(a, ids, rows0)
    if bad:
        ctx.fail(f'views-disagree:construct:{bad[0][0]}', f'a freshly constructed attribute (data dtype {fmt.dt}, layout {fmt.lay0}, '
                 f'ids dtype {fmt.idt}) does not describe the table handed over: {bad[0][1]}', case0, None)
        return
    if model is not None and observe(a) != model[0]:
        ctx.disagree('state after construction', case0, observe(a), model[0])
        return
    for step in range(r.randint(1, ctx.n(12, 30))):
        a = holder['attrs'][holder['name']]
        cur_ids = [int(i) for i in a.ids]
        held_ids = [[int(i) for i in c.ids] for c in holder['held']]
        op = rand_op(r, cur_ids, w, held_ids, slicey, scalar_iloc, vk)
        if narrow and step in (0, 2):
            # a request naming small ids only (stored ones and / or new ones), handed over as an array of the narrow dtype
            hi = int(np.iinfo(narrow).max)
            fits = [i for i in cur_ids if i <= hi]
            sel = r.sample(fits, r.randint(0 if step else min(1, len(fits)), len(fits)))
            sel += [c for c in r.sample(range(1, hi + 1), 2) if c not in cur_ids][: r.randint(0 if sel else 1, 2)]
            if sel:
                r.shuffle(sel)
                op = ('update', sel, rand_rows(r, len(sel), w, vk=vk), True, r.choice(['array', 'update_data-array']), 'narrow-request-dtype')
        before = observe(a)
        before_held = [observe(c) for c in holder['held']]
        err = apply_real(holder, op)
        ops.append(op)
        a = holder['attrs'][holder['name']]
        case = {'ids': ids, 'rows0': rows0, 'tail': tail, 'with_index': with_idx, 'ops': ops[:], 'fmt': fmt_json}
        if err == 'other' and 'Invalid value' in holder.get('last_exc', '') and 'for dtype' in holder.get('last_exc', ''):
            # pandas refuses to store a value the column's dtype cannot hold (e.g. a NaN kept by an old slice written into a parent
            # that was re-assigned as integers meanwhile): a refusal, not a statement about the table - outside the quantifier
            ctx.count(f'outside-quantifier:dtype-refusal:{op[0]}')
            if os.environ.get('C08_DEBUG'):
                print('DTYPE-REFUSAL', fmt_json, tail, ops[-3:], holder.get('last_exc'))
            return
        try:
            after = observe(a)
            after_held = [observe(c) for c in holder['held']]
        except Exception as e:
            ctx.case((hid, step), nontrivial=True)
            ctx.fail(NARROW_REQ if narrow_request(holder, op, before) else f'views-disagree:{op[0]}:data',
                     f'after {op[0]} ({err}) the attribute cannot be read any more: {type(e).__name__}: {e}', case, None)
            return
        ctx.case((hid, step), sample={'initial_ids': ids, 'tail': tail, 'op': op[0], 'result': err, 'n_ops_before': step},
                 nontrivial=(before != after) or before_held != after_held or err != 'ok')
        ctx.count('op:' + op[0] + ('' if err == 'ok' else '/' + err))
        if op[0] in ('take', 'takeI', 'locWrite', 'ilocWrite') and err == 'ok':
            ctx.count('key-form:' + (op[3] if op[0].endswith('Write') else op[2]))
        if op[0] == 'update' and len(op) > 5:
            ctx.count('update:renew-existing-rows:' + op[5])
        if op[0] == 'update' and err == 'ok' and op[3]:
            stored = [i for i in before[0] if i in set(op[1])]
            ctx.count('update:request-order:' + ('one-existing-row-or-none' if len(stored) < 2 else
                                                 'existing-rows-in-storage-order' if stored == [i for i in op[1] if i in set(stored)] else
                                                 'existing-rows-NOT-in-storage-order')
                      + (':via-update_data' if len(op) > 4 and str(op[4]).startswith('update_data') else ''))
        if op[0] in ('heldSet', 'heldUpdate') and err == 'ok':
            ctx.count('write-through:retained-slice' + (':parent-rows-moved-since' if moved[op[1]] else ''))
        # ---- oracle
        fatal = False
        for sig, what, f in step_oracles(holder, op, err, before, before_held, after, after_held, step == 0):
            ctx.fail(sig, what, case, None)
            fatal = fatal or f
        if fatal:
            return
        if value_kind(fmt.dt) != vk:          # the table now holds values the original dtype could not (see apply_real)
            vk = value_kind(fmt.dt)
            ctx.count(f'dtype-change:to-float:{op[0]}')
        if err == 'ok':
            if op[0] in ('take', 'takeI'):
                moved.append(False)
            elif op[0] == 'drop':
                del moved[op[1]]
            elif op[0] == 'overwriteIds':
                del moved[:]
            elif before[0] != after[0]:
                moved[:] = [True] * len(moved)
        # ---- correspondence
        if ctx.driver is not None and model is not None:
            rep = ctx.driver.ask(f'c08.hstep 1 1 1 1 1 {enc_hist(model)} {enc_hop(op)}')
            t = C.Toks(rep)
            if t.tok() != 'ok':
                raise RuntimeError('driver: ' + rep[:300])
            merr = t.tok()
            model = parse_hist(t)
            if merr == 'ok' and err != 'ok':          # the model's refusals are the legitimate ones (wrong length, unknown id, F5)
                ctx.fail(f'update-raises:{op[0]}', f'{op[0]} raised {holder.get("last_exc", err)} on a legal input (data dtype {fmt.dt}, '
                         f'ids dtype {fmt.idt}, array handed over as {fmt.dt}/float64 in a non-default memory layout)', case, None)
                return
            if (merr, model[0], model[1]) != (err, after, after_held):
                ctx.disagree(f'state after {op[0]}', case, {'err': err, 'state': after, 'held': after_held, 'exc': holder.get('last_exc')},
                             {'err': merr, 'state': model[0], 'held': model[1]})
                return
        if op[0] == 'overwriteIds' and err == 'ok':
            with_idx = False


# ------------------------------------------------------------------------------------------------ collections
def _attr_data(sp):
    return shape_rows(_restore(sp['rows']), sp['tail'], sp.get('dt'), sp.get('lay'))


def _attr_ids(sp):
    return ids_array(sp['ids'], sp.get('idt'), sp.get('idlay'))


def _attr_from(spec):
    from femio import FEMAttribute
    return FEMAttribute(spec['name'], ids=_attr_ids(spec), data=_attr_data(spec), silent=True,
                        generate_id2index=spec.get('with_index', False))


def build_collection(spec):
    """a FEMAttributes whose attributes arrive the ways they do in practice: constructor, update_data (a field computed later,
    ids in the order of whoever computed it), update, set_attribute_data; every array in the dtype / memory layout the spec names"""
    from femio import FEMAttributes
    first = spec['attrs'][0]
    with contextlib.redirect_stdout(io.StringIO()):
        if first['route'] == 'list':
            coll = FEMAttributes([_attr_from(first)])
        elif first['route'] == 'arrays':
            coll = FEMAttributes(names=[first['name']], ids=_attr_ids(first), list_arrays=[_attr_data(first)])
        else:
            coll = FEMAttributes({first['name']: _attr_from(first)})
        for sp in spec['attrs'][1:]:
            data = _attr_data(sp)
            if sp['route'] == 'update_data':
                coll.update_data(_attr_ids(sp), {sp['name']: data})
            elif sp['route'] == 'update':
                coll.update({sp['name']: _attr_from(sp)})
            elif sp['route'] == 'set_attribute_data':
                coll.set_attribute_data(sp['name'], data)
            else:
                coll[sp['name']] = _attr_from(sp)
    return coll


def apply_collection_op(coll, tails, op, dts=None, layout=None):
    """dts = {attribute name: dtype its arrays are handed over in} (updated like tails), layout = memory layout of this op's arrays"""
    kind = op[0]
    dts = dts if dts is not None else {}

    def arr(nm, rows, tail):
        return shape_rows(_restore(rows), tail, dts.get(nm), layout)
    try:
        with contextlib.redirect_stdout(io.StringIO()):
            if kind == 'update_data':
                coll.update_data(list(op[1]), {nm: arr(nm, rows, tails[nm]) for nm, rows in op[2].items()}, allow_overwrite=True)
            elif kind == 'overwrite':
                coll.overwrite(op[1], arr(op[1], op[2], tails[op[1]]))
            elif kind == 'overwriteIds':
                coll.overwrite(op[1], arr(op[1], op[3], tails[op[1]]), ids=np.array(op[2]))
            elif kind == 'locWrite':
                coll[op[1]].loc[list(op[2])].data = arr(op[1], op[3], tails[op[1]])
            elif kind == 'set_attribute_data':
                coll.set_attribute_data(op[1], shape_rows(_restore(op[2]), op[3], 'float64', layout), allow_overwrite=bool(op[4]))
                tails[op[1]] = op[3]
                dts[op[1]] = 'float64'
            elif kind == 'pop':
                coll.pop(op[1])
                tails.pop(op[1], None)
        return 'ok'
    except ValueError:
        return 'value_error'
    except (KeyError, IndexError):
        return 'key_error'


def collection_op_oracle(before, op, err, coll):
    """the tables after one collection-level public update are the ones the update describes, by id (the collection's read paths
    agreeing with the attributes' own tables - collection_reads - says nothing about WHICH table an attribute now holds);
    before = {name: observed state}; returns [(signature, detail)]"""
    if err != 'ok':
        return []
    kind = op[0]
    after = {nm: observe(coll[nm]) for nm in coll.keys()}
    changed = {}          # name -> (table described: id -> admissible values per cell, ids in order or None, requested ids)
    if kind == 'update_data':
        for nm, rows in op[2].items():
            rows = _restore(rows)
            if nm in before:
                changed[nm] = (renewed_table(table_of(before[nm]), op[1], rows), None, set(op[1]))
            else:
                changed[nm] = ({i: [(v,) for v in row] for i, row in zip(op[1], rows)}, list(op[1]), set(op[1]))
    elif kind == 'overwrite':
        changed[op[1]] = ({i: [(v,) for v in row] for i, row in zip(before[op[1]][0], _restore(op[2]))}, before[op[1]][0], set(before[op[1]][0]))
    elif kind == 'overwriteIds':
        changed[op[1]] = ({i: [(v,) for v in row] for i, row in zip(op[2], _restore(op[3]))}, list(op[2]), set(op[2]))
    elif kind == 'locWrite':
        tb = {i: [(v,) for v in row] for i, row in table_of(before[op[1]]).items()}
        tb.update({i: [(v,) for v in row] for i, row in zip(op[2], _restore(op[3]))})
        changed[op[1]] = (tb, before[op[1]][0], set(op[2]))
    elif kind == 'set_attribute_data':
        first = before[next(iter(before))][0]
        changed[op[1]] = ({i: [(v,) for v in row] for i, row in zip(first, _restore(op[2]))}, list(first), set(first))
    elif kind == 'pop':
        if op[1] in after:
            return [('collection:update-spec:pop', f'pop({op[1]!r}) left the attribute in the collection')]
        before = {nm: st for nm, st in before.items() if nm != op[1]}
    if sorted(after) != sorted(set(before) | set(changed)):
        return [(f'collection:update-spec:{kind}:names', f'after {kind} the collection holds {sorted(after)}, expected {sorted(set(before) | set(changed))}')]
    for nm, st in after.items():
        if nm in changed:
            want, order, req = changed[nm]
            bad = table_mismatch(want, st[0], st[1], req)
            if bad is None and order is not None and st[0] != order:
                bad = ('ids', f'ids {st[0]} but the update describes them in the order {order}')
            if bad is None and st[1] != st[2]:
                bad = ('frame', 'the id-keyed frame differs from the positional data')
            if bad:
                return [(f'collection:update-spec:{kind}:{bad[0]}', f'after {kind}' + (f' of the ids {list(op[1])} (request order; attribute '
                         f'{nm!r} stores {before[nm][0]})' if kind == 'update_data' and nm in before else '') + f' attribute {nm!r} is not the '
                         f'table the update describes: {bad[1]}')]
        elif st[:3] != before[nm][:3]:
            return [(f'collection:update-spec:{kind}:other-attribute', f'{kind} does not name attribute {nm!r} but its table changed')]
    return []


def collection_reads(coll, sel, model_ask=None):
    """every collection-level read path against the attributes' own id-keyed tables; returns [(signature, detail)] and
    the observed states"""
    from femio import FEMAttributes
    names = list(coll.keys())
    states, tables = {}, {}
    for nm in names:
        bad = oracle(coll[nm])
        if bad:
            return [(f'collection:attribute:{bad[0][0]}', f'attribute {nm}: {bad[0][1]}')], None
        states[nm] = observe(coll[nm])
        tables[nm] = table_of(states[nm])
    out = []
    lens = [len(states[nm][0]) for nm in names]
    same = len(set(lens)) == 1
    # get_data_length / are_same_lengths
    if bool(coll.are_same_lengths()) != same:
        out.append(('collection:are_same_lengths', f'are_same_lengths() = {coll.are_same_lengths()} for lengths {lens}'))
    try:
        gl = int(coll.get_data_length())
        if not same or gl != lens[0]:
            out.append(('collection:get_data_length', f'get_data_length() = {gl} for lengths {lens}'))
    except Exception as e:          # which error is raised for unequal lengths is not the property's business
        if same:
            out.append(('collection:get_data_length', f'get_data_length() raised {type(e).__name__} for equal lengths {lens}'))
    # get_attribute_ids / get_attribute_data, one name and a list of names
    for nm in names:
        if [int(i) for i in coll.get_attribute_ids(nm)] != states[nm][0] or \
                rows_of(coll.get_attribute_data(nm), len(states[nm][0])) != states[nm][1]:
            out.append(('collection:get_attribute', f'get_attribute_ids/data({nm!r}) differ from the attribute'))
    gi, gd = coll.get_attribute_ids(tuple(names)), coll.get_attribute_data(tuple(names))
    if [[int(i) for i in x] for x in gi] != [states[nm][0] for nm in names] or \
            [rows_of(d, len(states[nm][0])) for d, nm in zip(gd, names)] != [states[nm][1] for nm in names]:
        out.append(('collection:get_attribute', 'get_attribute_ids/data(list of names) differ from the attributes'))
    # to_dict and back; to_meshio
    d = coll.to_dict()
    if sorted(d) != sorted(f'{nm}/{x}' for nm in names for x in ('ids', 'data')) or any(
            [int(i) for i in d[f'{nm}/ids']] != states[nm][0] or rows_of(d[f'{nm}/data'], len(states[nm][0])) != states[nm][1] for nm in names):
        out.append(('collection:to_dict', 'to_dict() differs from the attributes'))
    else:
        with contextlib.redirect_stdout(io.StringIO()):
            back = FEMAttributes.from_dict(d)
        if sorted(back.keys()) != sorted(names) or any(table_of(observe(back[nm])) != tables[nm] for nm in names):
            out.append(('collection:from_dict', 'from_dict(to_dict()) is a different collection of tables'))
    mio = coll.to_meshio()
    for nm in names:
        if np.asarray(coll[nm].data).ndim < 3 and (nm not in mio or rows_of(mio[nm], len(states[nm][0])) != states[nm][1]):
            out.append(('collection:to_meshio', f'to_meshio()[{nm!r}] differs from the attribute'))
    # filter_with_ids / extract_dict: by id, on every attribute's OWN index
    if sel:
        want = {nm: [tables[nm].get(i) for i in sel] for nm in names}
        defined = all(None not in w for w in want.values())
        got = None
        try:
            f = coll.filter_with_ids(det_ids(sel))
            got = {nm: ([int(i) for i in f[nm].ids], [tuple(x) for x in rows_of(f[nm].data, len(sel))]) for nm in f.keys()}
            ex = coll.extract_dict(list(sel))
            gex = {nm: [tuple(x) for x in rows_of(v, len(sel))] for nm, v in ex.items()}
        except (KeyError, IndexError) as e:
            if defined:
                out.append(('collection:filter_with_ids:raises', f'filter_with_ids({sel}) raised {type(e).__name__}: {e} although every '
                            'attribute stores every selected id'))
        if defined and got is not None:
            for nm in names:
                if nm not in got or got[nm][0] != list(sel) or got[nm][1] != want[nm]:
                    i = next((i for i, g, w_ in zip(sel, got.get(nm, ([], []))[1], want[nm]) if g != w_), sel[0])
                    out.append(('collection:filter_with_ids', f'filter_with_ids({sel})[{nm!r}] pairs id {i} with a row that lookup by id / '
                                f'(ids[k], data[k]) of the same attribute do not give (ids of {nm!r}: {states[nm][0]}, ids of the first '
                                f'attribute: {states[names[0]][0]})'))
                    break
                if gex.get(nm) != want[nm]:
                    out.append(('collection:extract_dict', f'extract_dict({sel})[{nm!r}] differs from lookup by id'))
                    break
        if model_ask is not None:
            t = C.Toks(model_ask('c08.cfilter ' + C.enc_list([states[nm] for nm in names], enc_state) + ' ' + C.enc_list(sel)))
            assert t.tok() == 'ok'
            mrows = None
            if t.nat():
                mrows = t.lst(lambda: [tuple(x) for x in t.lst(lambda: t.lst(lambda: (lambda x: 'n' if x == 'n' else Fraction(x))(t.tok())))])
            mlen = t.nat() if t.nat() else None
            impl = None if got is None else [got[nm][1] for nm in names]
            if mrows != impl or mlen != (lens[0] if same else None):
                out.append(('MODEL', (impl, mrows, mlen)))
    return out, states


def femdata_extract_check(coll, fd):
    """FEMData.extract_with_element_indices filters nodal_data by node id: rows must be those the attributes hold for the ids"""
    from femio import FEMData, FEMAttribute
    names = list(coll.keys())
    tables = {nm: table_of(observe(coll[nm])) for nm in names}
    nodes = FEMAttribute('NODE', ids=np.array(fd['node_ids']), data=np.array(fd['coords'], dtype=float), silent=True)
    elements = FEMAttribute('ELEMENT', ids=np.array(fd['elem_ids']), data=np.array(fd['conn']), silent=True)
    with contextlib.redirect_stdout(io.StringIO()):
        data = FEMData(nodes=nodes, elements=mg.quiet(lambda: __import__('femio').FEMElementalAttribute('ELEMENT', {fd['etype']: elements})),
                       nodal_data=coll)
        sub = data.extract_with_element_indices(np.array(fd['indices']))
    used = sorted({n for k in fd['indices'] for n in fd['conn'][k]})
    coords = dict(zip(fd['node_ids'], [tuple(Fraction(x) for x in c) for c in fd['coords']]))
    out = []
    if [int(i) for i in sub.nodes.ids] != used or [tuple(x) for x in rows_of(sub.nodes.data, len(used))] != [coords[i] for i in used]:
        out.append(('collection:extract_with_element_indices:nodes', 'extracted nodes are not (id, coordinates) of the nodes used'))
    for nm in names:
        f = sub.nodal_data[nm]
        if [int(i) for i in f.ids] != used or [tuple(x) for x in rows_of(f.data, len(used))] != [tables[nm][i] for i in used]:
            out.append(('collection:extract_with_element_indices:nodal_data', f'nodal_data[{nm!r}] of the extracted part pairs node ids '
                        f'{[int(i) for i in f.ids]} with rows that the attribute does not hold for them'))
            break
    return out


def gen_collection(r):
    n = r.randint(2, 7)
    base, style = mg.random_ids(r, n)
    base, order = mg.order_ids(r, list(base), {i: i for i in base})
    attrs = []
    m = r.randint(2, 4)
    rel_of = []
    for j in range(m):
        tail = r.choice([[], [1], [2], [3], [2, 2], [3, 3], [2, 3], [2, 2, 2]])
        w = int(np.prod(tail)) if tail else 1
        ids = list(base)
        dt = rand_dtype(r, .5)
        rel = 'first'
        route = r.choice(['dict', 'list', 'arrays'])
        if j:
            rel = r.choice(['same-order', 'permuted', 'permuted', 'permuted', 'permuted', 'other-set', 'other-length'])
            route = r.choice(['dict', 'update_data', 'update_data', 'update'])
            if rel == 'same-order' and r.random() < .5 and all(len(x['ids']) == len(base) for x in attrs):
                route = 'set_attribute_data'
            if rel == 'permuted':
                ids, _ = mg.order_ids(r, ids, {i: i for i in ids}, r.choice(['asc', 'desc', 'shuf', 'shuf', 'midshuf', 'swap2']))
                if ids == base:
                    ids = ids[::-1]
            elif rel == 'other-set':
                ids = r.sample(ids, len(ids))
                for _ in range(r.randint(1, 2)):
                    c = max(base) + r.randint(1, 20)
                    if c not in ids:
                        ids[r.randrange(len(ids))] = c
            elif rel == 'other-length':
                if r.random() < .5 and len(ids) > 1:
                    ids = r.sample(ids, r.randint(1, len(ids) - 1))
                else:
                    ids = r.sample(ids, len(ids)) + [max(base) + r.randint(1, 9)]
        rel_of.append(rel)
        attrs.append({'name': 'TQUVW'[j] if j < 5 else f'A{j}', 'ids': ids, 'rows': rand_rows(r, len(ids), w, vk=value_kind(dt)), 'tail': tail,
                      'with_index': (r.random() < .4 and route not in ('update_data', 'set_attribute_data', 'arrays')), 'route': route,
                      'dt': dt, 'lay': rand_layout(r), 'idt': rand_id_dtype(r, ids, .5),
                      'idlay': r.choice([None, None, 'strided', 'readonly', 'reversed'])})
    return {'kind': 'collection', 'attrs': attrs, 'ops': [], 'oplay': [], 'reads': []}, style, order, rel_of


def rand_collection_op(r, coll, tails, dts):
    names = list(coll.keys())
    ids_of = {nm: [int(i) for i in coll[nm].ids] for nm in names}
    allids = sorted({i for v in ids_of.values() for i in v})
    u = r.random()
    nm = r.choice(names)
    w = lambda t: int(np.prod(t)) if t else 1
    vk = lambda x: value_kind(dts.get(x))
    if u < .12 and len(ids_of[nm]) >= 2:
        # deliberate: two or more rows that EXIST in the attribute renewed in one request, in a chosen order (attributes of one
        # collection are stored in different id orders: storage order for one is a permuted request for another)
        sel, _ = renew_request(r, ids_of[nm])
        which = [nm] + [x for x in names if x != nm and r.random() < .5 and set(sel) <= set(ids_of[x])][:1]
        return ['update_data', sel, {x: rand_rows(r, len(sel), w(tails[x]), allow_nan=r.random() < .3, vk=vk(x)) for x in which}]
    if u < .3:
        sel = r.sample(allids, r.randint(1, len(allids)))
        if r.random() < .4:
            sel.append(r.choice([max(allids) + r.randint(1, 5), max(1, min(allids) - 1)]))
            sel = list(dict.fromkeys(sel))
        r.shuffle(sel)
        which = r.sample(names, r.randint(1, min(2, len(names))))
        return ['update_data', sel, {x: rand_rows(r, len(sel), w(tails[x]), allow_nan=True, vk=vk(x)) for x in which}]
    if u < .45:
        return ['overwrite', nm, rand_rows(r, len(ids_of[nm]), w(tails[nm]), vk=vk(nm))]
    if u < .55:
        ids = r.sample(ids_of[nm], len(ids_of[nm]))
        return ['overwriteIds', nm, ids, rand_rows(r, len(ids), w(tails[nm]), vk=vk(nm))]
    if u < .7:
        sel = r.sample(ids_of[nm], r.randint(1, len(ids_of[nm])))
        return ['locWrite', nm, sel, rand_rows(r, len(sel), w(tails[nm]), vk=vk(nm))]
    if u < .9:
        key = r.choice(names + ['Z', 'Y'])
        tail = r.choice([[], [2], [3]])
        n0 = len(ids_of[names[0]])
        return ['set_attribute_data', key, rand_rows(r, n0 if r.random() < .9 else n0 + 1, w(tail)), tail, r.random() < .8]
    if len(names) > 2:
        return ['pop', nm]
    return ['overwrite', nm, rand_rows(r, len(ids_of[nm]), w(tails[nm]), vk=vk(nm))]


def pick_sel(r, coll):
    names = list(coll.keys())
    common = set(int(i) for i in coll[names[0]].ids)
    for nm in names[1:]:
        common &= set(int(i) for i in coll[nm].ids)
    common = sorted(common)
    if not common:
        return []
    sel = r.sample(common, r.randint(1, len(common)))
    if r.random() < .05:          # an id that one of the attributes may not store: KeyError expected, model says so too
        sel.append(int(max(int(i) for nm in names for i in coll[nm].ids)))
        sel = list(dict.fromkeys(sel))
    return sel


def collection_stream(ctx, k):
    r = ctx.rng
    spec, style, order, rels = gen_collection(r)
    ctx.count(f'collection:ids:{style}/{order}')
    for rel in rels[1:]:
        ctx.count('collection:attribute-vs-first:' + rel)
    n_ops = r.choice([0, 1, 1, 2, 3])
    try:
        coll = build_collection(spec)
        tails = {sp['name']: sp['tail'] for sp in spec['attrs']}
        dts = {sp['name']: sp['dt'] for sp in spec['attrs']}
        for sp in spec['attrs']:
            ctx.count(f'collection:data-dtype:{sp["dt"]}')
            ctx.count(f'collection:layout:{sp["lay"]}' + (':rank>=3' if len(sp['tail']) >= 2 else ''))
            ctx.count(f'collection:ids-dtype:{sp["idt"] or "default"}')
        ask = ctx.driver.ask if ctx.driver is not None else None
        for sig, detail in collection_construct(coll, spec):
            ctx.case(('coll', k, 'construct'), nontrivial=True)
            ctx.fail(sig, detail, {**spec, 'ops': [], 'oplay': [], 'reads': []}, None)
            return
        for stage in range(n_ops + 1):
            if stage:
                op = rand_collection_op(r, coll, tails, dts)
                names = list(coll.keys())
                all_states = [observe(coll[nm]) for nm in names]
                layout = rand_layout(r)
                spec['ops'].append(op)
                spec['oplay'].append(layout)
                err = apply_collection_op(coll, tails, op, dts, layout)
                ctx.count('collection:op:' + op[0] + ('' if err == 'ok' else '/' + err))
                if op[0] == 'update_data' and err == 'ok':
                    for nm in op[2]:
                        if nm in names:
                            stored = [i for i in all_states[names.index(nm)][0] if i in set(op[1])]
                            ctx.count('collection:update_data:' + ('one-existing-row-or-none' if len(stored) < 2 else
                                      'existing-rows-in-storage-order' if stored == [i for i in op[1] if i in set(stored)] else
                                      'existing-rows-NOT-in-storage-order'))
                bad = collection_op_oracle(dict(zip(names, all_states)), op, err, coll)
                if bad:
                    ctx.case(('coll', k, stage, 'op'), nontrivial=True)
                    spec['reads'].append([])
                    ctx.fail(bad[0][0], bad[0][1], {**spec, 'ops': list(spec['ops']), 'oplay': list(spec['oplay']), 'reads': list(spec['reads'])}, None)
                    return
                if op[0] == 'set_attribute_data' and ask is not None:
                    t = C.Toks(ask('c08.csetattr ' + C.enc_list(all_states, enc_state) + ' ' + enc_rows(op[2])))
                    assert t.tok() == 'ok'
                    merr = t.tok()
                    mst = parse_state(t)
                    exists = op[1] in names and not op[4]
                    if exists:
                        merr = 'value_error'
                    if merr != err or (err == 'ok' and (mst[0], mst[1]) != observe(coll[op[1]])[:2]):
                        ctx.disagree('set_attribute_data', dict(spec), {'err': err}, {'err': merr, 'state': mst})
                        return
            sel = pick_sel(r, coll)
            spec['reads'].append(sel)
            probs, states = collection_reads(coll, sel, ask)
            names = list(coll.keys())
            orders = {tuple(states[nm][0]) for nm in names} if states else set()
            ctx.case(('coll', k, stage), sample={'attributes': {nm: states[nm][0] for nm in names} if states else None, 'filter': sel,
                                                  'ops': [o[0] for o in spec['ops']]}, nontrivial=len(orders) > 1)
            ctx.count('collection:read:' + ('attributes-in-different-id-orders' if len(orders) > 1 else 'one-id-order'))
            for sig, detail in probs:
                if sig == 'MODEL':
                    ctx.disagree('collection filter', dict(spec), detail[0], detail[1:])
                else:
                    ctx.fail(sig, detail, {**spec, 'ops': list(spec['ops']), 'oplay': list(spec['oplay']), 'reads': list(spec['reads'])}, None)
            if probs:
                return
        # the same collection as nodal_data of a FEMData: extraction of a part filters it by node id
        names = list(coll.keys())
        node_ids = [int(i) for i in coll[names[0]].ids]
        if r.random() < .5 and len(node_ids) >= 2 and all(sorted(int(i) for i in coll[nm].ids) == sorted(node_ids) for nm in names):
            et, arity = r.choice([('line', 2), ('tri', 3), ('tet', 4)])
            if len(node_ids) >= arity:
                ne = r.randint(1, 4)
                eids, _ = mg.random_ids(r, ne)
                r.shuffle(eids)
                nid = r.sample(node_ids, len(node_ids))
                fd = {'etype': et, 'node_ids': nid, 'coords': [[r.randint(-9, 9) for _ in range(3)] for _ in nid], 'elem_ids': eids,
                      'conn': [r.sample(node_ids, arity) for _ in range(ne)], 'indices': r.sample(range(ne), r.randint(1, ne))}
                spec['femdata'] = fd
                ctx.count('collection:extract_with_element_indices')
                ctx.case(('coll-femdata', k), nontrivial=True)
                for sig, detail in femdata_extract_check(coll, fd):
                    ctx.fail(sig, detail, {**spec, 'ops': list(spec['ops']), 'oplay': list(spec['oplay']), 'reads': list(spec['reads'])}, None)
    except (RuntimeError, AssertionError):
        raise
    except Exception as e:
        import traceback
        tb = traceback.extract_tb(e.__traceback__)
        where = next((f'{f.filename.split("/")[-1]}:{f.lineno}' for f in reversed(tb) if '/femio/' in f.filename), None)
        if where is None:
            raise
        ctx.case(('coll-raises', k), nontrivial=True)
        ctx.fail('collection:raises', f'a public path of a collection of attributes raised {type(e).__name__}: {e} (at {where})',
                 {**spec, 'ops': list(spec['ops']), 'oplay': list(spec['oplay']), 'reads': list(spec['reads'])}, None)


def collection_construct(coll, spec):
    """every attribute of the freshly built collection is the table (ids, rows) handed over for it"""
    for sp in spec['attrs']:
        if sp['name'] not in coll:
            return [('collection:construct', f'attribute {sp["name"]!r} is missing')]
        a = coll[sp['name']]
        ids = [int(i) for i in a.ids]
        if ids != list(sp['ids']) or rows_of(a.data, len(ids)) != _restore(sp['rows']):
            return [('collection:construct', f'attribute {sp["name"]!r} (data dtype {sp.get("dt")}, layout {sp.get("lay")}, ids dtype '
                     f'{sp.get("idt")}, route {sp["route"]}) does not hold (ids[k], data[k]) = the ids and rows handed over')]
    return []


def run_collection(case):
    coll = build_collection(case)
    bad = collection_construct(coll, case)
    if bad:
        return bad
    tails = {sp['name']: sp['tail'] for sp in case['attrs']}
    dts = {sp['name']: sp.get('dt') for sp in case['attrs']}
    oplay = list(case.get('oplay', [])) + [None] * len(case['ops'])
    found = []
    for stage, sel in enumerate(case['reads']):
        if stage:
            before = {nm: observe(coll[nm]) for nm in coll.keys()}
            err = apply_collection_op(coll, tails, case['ops'][stage - 1], dts, oplay[stage - 1])
            found += collection_op_oracle(before, case['ops'][stage - 1], err, coll)
            if found:
                break
        probs, _ = collection_reads(coll, list(sel))
        found += [p for p in probs if p[0] != 'MODEL']
    if len(case['ops']) >= len(case['reads']) and case['ops']:
        for j in range(max(0, len(case['reads']) - 1), len(case['ops'])):
            apply_collection_op(coll, tails, case['ops'][j], dts, oplay[j])
    if 'femdata' in case and not found:
        found += femdata_extract_check(coll, case['femdata'])
    return found


# ------------------------------------------------------------------------------------------------ time series
def time_series_stream(ctx, k):
    r = ctx.rng
    n, T = r.randint(1, 5), r.randint(1, 3)
    ids, style = mg.random_ids(r, n)
    ids, order = mg.order_ids(r, list(ids), {i: i for i in ids})
    tail = r.choice([[1], [2], [3]])
    dt = rand_dtype(r, .5)
    vk = value_kind(dt)
    case = {'kind': 'time-series', 'ids': ids, 'steps': [rand_rows(r, n, tail[0], vk=vk) for _ in range(T)], 'tail': tail,
            'assign': [rand_rows(r, n, tail[0], vk=vk) for _ in range(T)] if r.random() < .5 else None,
            'sel': r.sample(ids, r.randint(1, n)), 'dt': dt, 'lay': [rand_layout(r), rand_layout(r)], 'idt': rand_id_dtype(r, ids, .5),
            'idlay': r.choice([None, None, 'strided', 'readonly', 'reversed'])}
    ctx.count(f'time-series:ids:{order}')
    ctx.count(f'time-series:data-dtype:{dt}')
    ctx.count(f'time-series:layout:{case["lay"][0]}')
    ctx.case(('ts', k), sample={'ids': ids, 'steps': T}, nontrivial=True)
    for sig, detail in run_time_series(case):
        ctx.fail(sig, detail, case, None)


def run_time_series(case):
    """time-series attributes (data[t, k] belongs to ids[k]): assignment of data, then every read path"""
    from femio import FEMAttribute
    ids, tail = list(case['ids']), case['tail']
    n = len(ids)
    lays = case.get('lay') or [None, None]
    arr = lambda steps, layout: lay(cast_rows(np.stack([shape_rows(_restore(st), tail) for st in steps]), case.get('dt')), layout)
    out = []
    try:
        a = FEMAttribute('t', ids=ids_array(ids, case.get('idt'), case.get('idlay')), data=arr(case['steps'], lays[0]), silent=True,
                         time_series=True)
        cur = case['steps']
        if case.get('assign'):
            a.data = arr(case['assign'], lays[1])
            cur = case['assign']
        want = [[tuple(x) for x in _restore(st)] for st in cur]          # want[t][k]
        T = len(want)
        got = [[tuple(x) for x in rows_of(a.data[t], n)] for t in range(T)]
        if [int(i) for i in a.ids] != ids or got != want or len(a) != n:
            out.append(('time-series:data', 'ids / data differ from what was assigned'))
        for kk, i in enumerate(ids):
            for path, c in (('loc', a.loc[[i]]), ('iloc', a.iloc[[kk]]), ('loc-scalar', a.loc[i]), ('iloc-scalar', a.iloc[kk])):
                if [int(x) for x in c.ids] != [i] or [tuple(rows_of(c.data[t], 1)[0]) for t in range(T)] != [want[t][kk] for t in range(T)]:
                    out.append((f'time-series:{path}', f'{path} of id {i} (position {kk}) differs from (ids[{kk}], data[:, {kk}])'))
        sel = list(case['sel'])
        pos = [ids.index(i) for i in sel]
        c = a.loc[sel]
        if [int(i) for i in c.ids] != sel or [[tuple(x) for x in rows_of(c.data[t], len(sel))] for t in range(T)] != \
                [[want[t][p] for p in pos] for t in range(T)]:
            out.append(('time-series:loc', f'loc[{sel}] differs from the rows stored for these ids'))
    except Exception as e:
        out.append(('time-series:raises', f'{type(e).__name__}: {e}'))
        return out
    try:
        f = a.filter_with_ids(det_ids(sel))
        fd = np.asarray(f.data, dtype=float)
        if [int(i) for i in f.ids] != sel or fd.shape[:2] != (T, len(sel)) or \
                [[tuple(x) for x in rows_of(fd[t], len(sel))] for t in range(T)] != [[want[t][p] for p in pos] for t in range(T)]:
            out.append(('time-series:filter_with_ids', f'filter_with_ids({sel}) does not return, for every step, the rows stored for these ids'))
    except Exception as e:
        out.append(('time-series:filter_with_ids', f'filter_with_ids({sel}) on a time-series attribute raised {type(e).__name__}: {e}'))
    return out


# ------------------------------------------------------------------------------------------------ size boundaries
def large_stream(ctx, k):
    """class G: a few large-but-cheap inputs - an attribute / a mixed element collection with more than 2^16 rows (positions beyond
    65535, pandas' large-index code paths), checked vectorised"""
    r = ctx.rng
    n = r.choice([65537, 65536 + r.randint(2, 3000), 70001])
    what = ['attribute', 'elements'][k % 2]
    ids_hi = 3 * n + 10
    case = {'kind': 'large', 'what': what, 'n': n, 'seed': r.randrange(10**6), 'dt': rand_dtype(r, .4), 'lay': rand_layout(r),
            'idt': r.choice([None, None, 'uint32', 'int32', 'uint64', 'int64']), 'tail': r.choice([[], [3], [2, 2]]),
            'with_index': True}
    ctx.count(f'large:{what}')
    ctx.case(('large', k), sample={'what': what, 'n': n, 'dtype': case['dt'], 'ids_dtype': case['idt'], 'layout': case['lay']}, nontrivial=True)
    try:
        bad = run_large(case)
    except Exception as e:
        import traceback
        tb = traceback.extract_tb(e.__traceback__)
        where = next((f'{f.filename.split("/")[-1]}:{f.lineno}' for f in reversed(tb) if '/femio/' in f.filename), None)
        if where is None:
            raise
        bad = [(f'large:{what}:raises', f'{type(e).__name__}: {e} (at {where})')]
    for sig, detail in bad:
        ctx.fail(sig, f'{what} with {n} rows: {detail}', case, None)


def run_large(case):
    from femio import FEMAttribute, FEMElementalAttribute
    rs = np.random.RandomState(case['seed'])
    n, tail = case['n'], list(case['tail'])
    w = int(np.prod(tail)) if tail else 1
    ids = rs.permutation(np.arange(1, 3 * n + 10))[:n].astype(np.int64)          # sparse, unsorted, distinct
    probe = np.unique(np.concatenate([[0, 1, 65534, 65535, 65536, n - 2, n - 1], rs.randint(0, n, 12)]))
    out = []
    if case['what'] == 'attribute':
        vk = value_kind(case['dt'])
        vals = (rs.randint(0, 2, (n, w)) if vk == 'bool' else rs.randint(0, 100, (n, w)) if vk == 'uint' else rs.randint(-50, 50, (n, w))).astype(float)
        a = FEMAttribute('x', ids=ids_array(ids.tolist(), case['idt']), data=lay(cast_rows(vals.reshape([n] + tail), case['dt']), case['lay']),
                         silent=True, generate_id2index=True)

        def views(table_ids, table, when):
            m = len(table_ids)
            if not np.array_equal(np.asarray(a.ids, dtype=np.int64), table_ids):
                return [('large:attribute:ids', f'{when}: ids differ from the table')]
            if not np.array_equal(np.asarray(a.data, dtype=float).reshape(m, -1), table):
                return [('large:attribute:data', f'{when}: data differs from the table')]
            if not np.array_equal(np.asarray(a.data_frame.values, dtype=float).reshape(m, -1), table):
                return [('large:attribute:frame', f'{when}: the id-keyed frame differs from the positional data')]
            if not np.array_equal(np.asarray(a.ids2indices(table_ids[::-1])), np.arange(m)[::-1]):
                return [('large:attribute:ids2indices', f'{when}: ids2indices(ids reversed) is not the reversed range of positions')]
            sel = rs.permutation(m)[: m // 2]
            sel[:3] = [m - 1, min(65536, m - 1), 0]
            f = a.filter_with_ids(table_ids[sel])
            if not np.array_equal(np.asarray(f.ids, dtype=np.int64), table_ids[sel]) or \
                    not np.array_equal(np.asarray(f.data, dtype=float).reshape(len(sel), -1), table[sel]):
                return [('large:attribute:filter_with_ids', f'{when}: filter_with_ids of {len(sel)} ids does not return their rows')]
            for kk in probe[probe < m]:
                i = int(table_ids[kk])
                for path, got in (('loc', a.loc[i].data), ('iloc', a.iloc[int(kk)].data), ('getitem', a[i])):
                    if not np.array_equal(np.asarray(got, dtype=float).ravel(), table[kk]):
                        return [(f'large:attribute:{path}', f'{when}: {path} of id {i} (position {kk}) is not data[{kk}]')]
            return []
        out += views(ids, vals, 'as constructed')
        if not out:          # write through an id-selected slice reaching beyond position 65535
            sel = np.unique(np.concatenate([probe, rs.randint(0, n, 500)]))
            rs.shuffle(sel)
            new = vals.copy()
            new[sel] = (new[sel] + 1) % 2 if vk == 'bool' else new[sel] + 1
            a.loc[ids[sel].tolist()].data = lay(cast_rows(new[sel].reshape([len(sel)] + tail), case['dt']), case['lay'])
            out += views(ids, new, 'after a write through loc[...] of 500 ids')
            vals = new
        if not out:          # update that adds ids: the union is sorted ascending
            add = np.array([3 * n + 20, 3 * n + 11, int(ids[0])], dtype=np.int64)
            rows = np.array([[1.] * w, [0.] * w, [1.] * w])
            a.update(add.tolist(), lay(cast_rows(rows.reshape([3] + tail), case['dt']), case['lay']), allow_overwrite=True)
            table = dict(zip(ids.tolist(), vals))
            table.update(zip(add.tolist(), rows))
            tid = np.array(sorted(table), dtype=np.int64)
            out += views(tid, np.array([table[i] for i in tid.tolist()]), 'after update() adding two ids')
        return out
    # ---- a mixed element collection: tri + quad numbered round-robin
    nn = 50
    is_tri = (np.arange(n) % 2 == 0)
    order = rs.permutation(n)
    eid = ids          # element ids: sparse, unsorted
    tri_rows = rs.randint(1, nn, (int(is_tri.sum()), 3))
    quad_rows = rs.randint(1, nn, (n - int(is_tri.sum()), 4))
    sort_all = np.sort(eid)
    tri_ids, quad_ids = sort_all[is_tri][rs.permutation(int(is_tri.sum()))], sort_all[~is_tri][rs.permutation(n - int(is_tri.sum()))]
    el = mg.quiet(lambda: FEMElementalAttribute('ELEMENT', {
        'quad': FEMAttribute('quad', ids=ids_array(quad_ids.tolist(), case['idt']), data=lay(quad_rows, case['lay']), silent=True),
        'tri': FEMAttribute('tri', ids=ids_array(tri_ids.tolist(), case['idt']), data=lay(tri_rows, case['lay']), silent=True)}))
    got_ids = np.asarray(el.ids, dtype=np.int64)
    if not np.array_equal(got_ids, sort_all):
        return [('large:elements:ids', 'the flattened ids are not every element id once in ascending order')]
    if not np.array_equal(np.asarray(el.types), np.where(is_tri, 'tri', 'quad')):
        return [('large:elements:types', 'types[k] is not the type of the block that owns ids[k]')]
    if not np.array_equal(el.id2index.loc[sort_all[::-1]].values[:, 0], np.arange(n)[::-1]) or \
            not np.array_equal(el.ids_types.loc[sort_all].values[:, 0], np.where(is_tri, 'tri', 'quad')):
        return [('large:elements:id2index', 'id2index / ids_types are not consistent with the flattened order')]
    owner = {int(i): list(map(int, c)) for i, c in zip(tri_ids, tri_rows)}
    owner.update({int(i): list(map(int, c)) for i, c in zip(quad_ids, quad_rows)})
    for kk in probe:
        if [int(x) for x in el.data[kk]] != owner[int(sort_all[kk])]:
            return [('large:elements:data', f'data[{kk}] is not the connectivity of element {int(sort_all[kk])}')]
    sel = np.concatenate([sort_all[probe], sort_all[rs.randint(0, n, 150)]])
    sel = sel[np.sort(np.unique(sel, return_index=True)[1])]
    f = mg.quiet(el.filter_with_ids, sel)
    want = {'tri': [(int(i), owner[int(i)]) for i in sel if len(owner[int(i)]) == 3], 'quad': [(int(i), owner[int(i)]) for i in sel if len(owner[int(i)]) == 4]}
    return [('large:elements:filter_with_ids', p) for p in check_flat(f, {t: b for t, b in want.items() if b}, 'filter_with_ids')]


# ------------------------------------------------------------------------------------------------ outside the quantifier
def outside_stream(ctx, k):
    """uses that are NOT public update operations in the sense of the property (recorded, never reported through fail):
    editing the caller's own array after handing it over, assigning ids, writing an element block behind the collection"""
    from femio import FEMAttribute, FEMElementalAttribute
    r = ctx.rng
    n = r.randint(2, 5)
    ids, _ = mg.random_ids(r, n)
    r.shuffle(ids)
    kind = ['caller-array-edited-after-hand-over', 'ids-assigned', 'element-block-written-behind-collection'][k % 3]
    try:
        if kind == 'caller-array-edited-after-hand-over':
            arr = shape_rows(rand_rows(r, n, 1), [1])
            a = FEMAttribute('x', ids=np.array(ids), data=arr, silent=True, generate_id2index=True)
            arr[0, 0] += 1.
            agree = not oracle(a)
        elif kind == 'ids-assigned':
            a = FEMAttribute('x', ids=np.array(ids), data=shape_rows(rand_rows(r, n, 1), [1]), silent=True, generate_id2index=True)
            a.ids = np.array([i + 1000 for i in ids])
            agree = not oracle(a)
        else:
            el = mg.quiet(lambda: FEMElementalAttribute('ELEMENT', {
                'tri': FEMAttribute('tri', ids=np.array(ids), data=np.array([[1, 2, 3]] * n), silent=True),
                'line': FEMAttribute('line', ids=np.array([max(ids) + 1]), data=np.array([[1, 2]]), silent=True)}))
            el['tri'].data = np.array([[4, 5, 6]] * n)
            p = int(el.id2index.loc[ids[0]].values[0])
            agree = [int(x) for x in el.data[p]] == [4, 5, 6]
    except Exception:
        agree = False
    ctx.case(('outside', k), nontrivial=False)
    ctx.count(f'outside-quantifier:{kind}:' + ('views-agree' if agree else 'views-disagree'))


RAGGED_POLYGON = 'filter_with_ids:ragged-polygon'
EID_LAYOUTS = ('random', 'random', 'blockwise', 'blockwise-swap', 'later-type-smaller', 'round-robin', 'descending')


def assign_eids(r, blocks, layout):
    """the same elements and the same id SET, numbered so that ids and types interleave in a given pattern: `blockwise` (numbered
    consecutively type after type - the concatenation in type order IS ascending), `blockwise-swap` (that, with one adjacent
    transposition: looks sorted), `later-type-smaller` (every block ascending, later types hold the smaller ids), `round-robin`
    (tri 1, quad 2, tri 3, ...), `descending`; `random` keeps the shuffled numbering of the generator"""
    if layout == 'random':
        return blocks
    types = list(blocks)
    all_ids = sorted(e for b in blocks.values() for e, _ in b)
    sizes = {t: len(blocks[t]) for t in types}
    new = {t: [] for t in types}
    if layout in ('blockwise', 'blockwise-swap', 'descending'):
        seq = all_ids[::-1] if layout == 'descending' else list(all_ids)
        if layout == 'blockwise-swap' and len(seq) > 1:
            j = r.randrange(len(seq) - 1)
            seq[j], seq[j + 1] = seq[j + 1], seq[j]
        it = iter(seq)
        for t in types:
            new[t] = [next(it) for _ in range(sizes[t])]
    elif layout == 'later-type-smaller':
        it = iter(all_ids)
        for t in reversed(types):
            new[t] = [next(it) for _ in range(sizes[t])]
    else:          # round-robin
        j = 0
        for e in all_ids:
            while len(new[types[j % len(types)]]) >= sizes[types[j % len(types)]]:
                j += 1
            new[types[j % len(types)]].append(e)
            j += 1
    return {t: [(e, c) for e, (_, c) in zip(new[t], blocks[t])] for t in types}


def _block_attr(t, rows, spec):
    """one element block as the FEMAttribute a caller / reader would hand over: ids and connectivity in the spec's dtypes / layouts"""
    from femio import FEMAttribute
    ids = ids_array([e for e, _ in rows], (spec.get('idt') or {}).get(t), (spec.get('idlay') or {}).get(t))
    if t == 'polyhedron' or (t == 'polygon' and len({len(c) for _, c in rows}) > 1):
        data = np.empty(len(rows), dtype=object)          # ragged rows
        data[:] = [np.array(c) for _, c in rows]
    else:
        data = np.array([c for _, c in rows])
        cdt = spec.get('cdt')
        if cdt and data.size and np.iinfo(cdt).min <= data.min() and data.max() <= np.iinfo(cdt).max:
            data = data.astype(cdt)
        data = lay(data, (spec.get('lay') or {}).get(t))
    return FEMAttribute(t, ids=ids, data=data, silent=True)


def check_flat(el, blocks, what):
    """a (mixed) element collection against the blocks it was built from, by definition: every element exactly once, ascending id
    order when mixed, type / connectivity / id2index / ids_types / dict_type_ids / the blocks themselves mutually consistent"""
    owner = {e: (t, list(c)) for t, b in blocks.items() for e, c in b}
    ids = [int(i) for i in el.ids]
    types = [str(t) for t in el.types]
    data = [[int(x) for x in d] for d in el.data]
    probs = []
    if sorted(ids) != sorted(owner) or len(types) != len(ids) or len(data) != len(ids):
        return [f'{what}: not every element exactly once: ids {ids[:12]} for elements {sorted(owner)[:12]}']
    if len(blocks) > 1 and ids != sorted(ids):
        probs.append(f'{what}: ids not ascending: {ids[:12]}')
    for p, i in enumerate(ids):
        if (types[p], data[p]) != (owner[i][0], owner[i][1]):
            probs.append(f'{what}: type/connectivity at position {p} are not those of element {i}')
            break
        if int(el.id2index.loc[i].values[0]) != p:
            probs.append(f'{what}: id2index[{i}] = {int(el.id2index.loc[i].values[0])} but the element is listed at {p}')
            break
        if str(el.ids_types.loc[i].values[0]) != owner[i][0]:
            probs.append(f'{what}: ids_types[{i}] wrong')
            break
    if {t: [int(i) for i in v] for t, v in el.dict_type_ids.items()} != {t: [e for e, _ in b] for t, b in blocks.items()}:
        probs.append(f'{what}: dict_type_ids differs from the blocks')
    for t, b in blocks.items():
        if t not in el or [int(i) for i in el[t].ids] != [e for e, _ in b] or [[int(x) for x in d] for d in el[t].data] != [list(c) for _, c in b]:
            probs.append(f'{what}: block {t} differs from what was handed over')
            break
        if t not in ('polyhedron', 'polygon') and len(b):
            e, c = b[-1]
            if [int(x) for x in np.ravel(el[t].loc[e].data)] != list(c):
                probs.append(f'{what}: block {t}.loc[{e}] is not the connectivity of element {e}')
                break
    return probs


def elem_signature(prob):
    """stable class name of an element-collection failure"""
    if prob.startswith(RAGGED_POLYGON):
        return 'element-collection:' + RAGGED_POLYGON
    return 'element-collection:' + (prob.split(': ', 1)[-1] if ': ' in prob else prob).split(' ')[0]


def run_elements(spec):
    """mixed-type element collections by definition; returns (problems, [(blocks, (ids, types, data)) per stage for the model])"""
    from femio import FEMElementalAttribute
    blocks = {t: [(int(e), [int(x) for x in c]) for e, c in b] for t, b in spec['blocks'].items()}
    order = spec.get('insertion') or list(blocks)
    el = mg.quiet(lambda: FEMElementalAttribute('ELEMENT', {t: _block_attr(t, blocks[t], spec) for t in order}))
    stages = []

    def flat():
        return [int(i) for i in el.ids], [str(t) for t in el.types], [[int(x) for x in d] for d in el.data]
    probs = check_flat(el, blocks, 'as constructed')
    stages.append((blocks, flat()))
    upd = spec.get('update')
    if upd and not probs:          # public update: a block replaced / a type added
        blocks = dict(blocks)
        blocks[upd['type']] = [(int(e), [int(x) for x in c]) for e, c in upd['rows']]
        blocks = {t: blocks[t] for t in mg.ELEMENT_TYPES if t in blocks}
        mg.quiet(el.update, {upd['type']: _block_attr(upd['type'], blocks[upd['type']], spec)})
        probs += check_flat(el, blocks, f'after update of block {upd["type"]}')
        stages.append((blocks, flat()))
    asg = spec.get('assign_rows')
    if asg and not probs and len(blocks) == 1:
        # public update "assigning data" on a one-type collection: el.data = rows (positional, the ids keep their places)
        t = next(iter(blocks))
        blocks = {t: [(e, [int(x) for x in c]) for (e, _), c in zip(blocks[t], asg['rows'])]}
        def assign():
            el.data = lay(np.array(asg['rows']), asg.get('lay'))
        mg.quiet(assign)
        probs += check_flat(el, blocks, f'after assigning data to the one-type collection ({t})')
        stages.append((blocks, flat()))
    upr = spec.get('update_rows')
    if upr and not probs and len(blocks) == 1:
        # public update of ROWS of a one-type collection: update(ids, connectivity rows, allow_overwrite=True) - existing elements
        # renewed (in any request order) and / or new ones added; by id the block is the requested rows over the old ones
        t = next(iter(blocks))
        table = {e: list(c) for e, c in blocks[t]}
        table.update({int(e): [int(x) for x in c] for e, c in zip(upr['ids'], upr['rows'])})
        mg.quiet(lambda: el.update(ids_array(upr['ids'], (spec.get('idt') or {}).get(t)) if upr.get('as_array') else list(upr['ids']),
                                   lay(np.array(upr['rows']), upr.get('lay')), allow_overwrite=True))
        got = [int(i) for i in el[t].ids]
        if sorted(got) != sorted(table):
            probs.append(f'after update(ids, rows) of block {t}: the block lists the ids {got[:12]}, the update describes {sorted(table)[:12]}')
        else:          # storage order is the implementation's; everything else follows from the table
            blocks = {t: [(e, table[e]) for e in got]}
            probs += check_flat(el, blocks, f'after update({list(upr["ids"])}, rows) of block {t} (stored before as {[e for e, _ in stages[-1][0][t]]})')
            stages.append((blocks, flat()))
    if probs:
        return probs, stages
    owner = {e: (t, c) for t, b in blocks.items() for e, c in b}
    # id -> position translation of the node attribute applied to the whole collection (one array of positions per type)
    if spec.get('nodes'):
        from femio import FEMAttribute
        nids = [int(i) for i in spec['nodes']]
        nodes = FEMAttribute('NODE', ids=ids_array(nids, spec.get('cdt')), data=np.arange(3. * len(nids)).reshape(-1, 3), silent=True,
                             generate_id2index=True)
        pos = {i: k for k, i in enumerate(nids)}
        got = nodes.ids2indices(el)
        wantp = [[[pos[x] for x in c] for _, c in blocks[t]] for t in mg.ELEMENT_TYPES if t in blocks]
        if len(got) != len(wantp) or any([[int(x) for x in row] for row in g_] != w_ for g_, w_ in zip(got, wantp)):
            probs.append('ids2indices(element collection): not, per type in ELEMENT_TYPES order, the positions of the connectivity node ids')
    # filter_with_ids: again a consistent collection, holding exactly the selected elements, per type in the order asked for
    sel = [int(i) for i in spec['sel']]
    try:
        f = mg.quiet(el.filter_with_ids, det_ids(sel))
    except ValueError as e:
        if len({len(owner[i][1]) for i in sel if owner[i][0] == 'polygon'}) > 1 and 'same shape' in str(e):
            return [RAGGED_POLYGON + f': filter_with_ids({sel}) raised ValueError: {e} - the selected polygons have '
                    f'{sorted({len(owner[i][1]) for i in sel if owner[i][0] == "polygon"})} nodes (a ragged block, as to_surface / the '
                    'polyhedron readers produce); the same selection of a ragged polyhedron block works'], stages
        raise
    want = {}
    for i in sel:
        want.setdefault(owner[i][0], []).append((i, owner[i][1]))
    want = {t: want[t] for t in mg.ELEMENT_TYPES if t in want}
    probs += check_flat(f, want, f'filter_with_ids({sel})')
    # generate_elemental_attribute: values bound to elements by id
    vals = {int(i): float(v) for i, v in spec['vals']}
    sel2 = [int(i) for i in spec['sel2']]
    g = mg.quiet(el.generate_elemental_attribute, 'v', det_ids(sel2), lay(cast_rows(np.array([[vals[i]] for i in sel2]), spec.get('vdt')),
                                                                          spec.get('vlay')))
    for t, v in g.items():
        for i, d in zip(v.ids, v.data):
            if owner[int(i)][0] != t or float(np.ravel(d)[0]) != vals[int(i)]:
                probs.append(f'generate_elemental_attribute binds {d} to element {i} of type {t}')
                break
    if sorted(int(i) for v in g.values() for i in v.ids) != sorted(sel2):
        probs.append('generate_elemental_attribute drops or duplicates ids')
    elif [float(np.ravel(d)[0]) for d in g.data] != [vals[int(i)] for i in g.ids] or (len(g.keys()) > 1 and [int(i) for i in g.ids] != sorted(sel2)):
        probs.append('generate_elemental_attribute: the flattened (ids[k], data[k]) of the result is not the table handed over, in ascending id order')
    return probs, stages


def elem_stream(ctx, k):
    """mixed-type element collections; an exception inside femio on these in-quantifier inputs is a failure"""
    spec = gen_elements(ctx, k)
    try:
        probs, stages = run_elements(spec)
    except (RuntimeError, AssertionError):
        raise
    except Exception as e:
        import traceback
        tb = traceback.extract_tb(e.__traceback__)
        where = next((f'{f.filename.split("/")[-1]}:{f.lineno}' for f in reversed(tb) if '/femio/' in f.filename), None)
        if where is None:
            raise
        ctx.case(('elem-raises', k), nontrivial=True)
        ctx.fail('element-collection:raises', f'a public path of an element collection raised {type(e).__name__}: {e} (at {where})', spec, None)
        return
    if probs:
        ctx.fail(elem_signature(probs[0]), 'element collection inconsistent: ' + '; '.join(probs[:3]), spec,
                 {'ids': stages[-1][1][0], 'types': stages[-1][1][1]} if stages else None)
    if ctx.driver is not None:
        for blocks, (ids, types, data) in stages:
            enc = C.enc_list(blocks.items(), lambda tb: f'{mg.ELEMENT_TYPES.index(tb[0])} ' + C.enc_list(
                tb[1], lambda ec: f'{ec[0]} {C.enc_list(ec[1])}'))
            t = C.Toks(ctx.driver.ask('c08.flatten ' + enc))
            assert t.tok() == 'ok'
            mflat = t.lst(lambda: (t.nat(), mg.ELEMENT_TYPES[t.nat()], t.lst(t.nat)))
            if mflat != list(zip(ids, types, data)):
                ctx.disagree('flatten', spec, list(zip(ids, types, data))[:6], mflat[:6])
                break


def gen_elements(ctx, k):
    r = ctx.rng
    types = r.sample(['line', 'tri', 'quad', 'tet', 'tet2', 'pyr', 'prism', 'hex', 'hex2', 'hexprism', 'hexprism',
                      'line2', 'spring', 'tri2', 'quad2'], r.randint(1, 3))          # every fixed-arity type femio names
    m = mg.gen_combinatorial(r, types=types, max_elems=ctx.n(8, 14))
    blocks = dict(m['blocks'])
    nid = [i for i, _ in m['nodes']]
    if r.random() < .25:
        # a polygon block: rows of ONE length (a 2-d array) or of different lengths (ragged, as to_surface of polyhedra gives)
        used = {e for b in blocks.values() for e, _ in b}
        rows = []
        ragged = r.random() < .6
        k0 = r.randint(5, min(len(nid), 7)) if len(nid) >= 5 else len(nid)
        for _ in range(r.randint(1, 3)):
            e = max(used) + r.randint(1, 5)
            used.add(e)
            rows.append((e, r.sample(nid, min(len(nid), r.randint(3, 7)) if ragged else k0)))
        blocks['polygon'] = rows
        blocks = {t: blocks[t] for t in mg.ELEMENT_TYPES if t in blocks}
    if r.random() < .3:
        # a ragged polyhedron block (long type name, rows of different lengths)
        used = {e for b in blocks.values() for e, _ in b}
        rows = []
        for _ in range(r.randint(1, 3)):
            e = max(used) + r.randint(1, 5)
            used.add(e)
            rows.append((e, r.sample(nid, min(len(nid), r.randint(4, 7)))))
        blocks['polyhedron'] = rows
        blocks = {t: blocks[t] for t in mg.ELEMENT_TYPES if t in blocks}
    eid_layout = r.choice(EID_LAYOUTS)
    blocks = assign_eids(r, blocks, eid_layout)
    if r.random() < .1:          # ids beyond 2^31 / 2^32 (uint32 / 64-bit only)
        off = r.choice([2**31, 3 * 10**9, 2**32, 2**40])
        blocks = {t: [(e + off, c) for e, c in b] for t, b in blocks.items()}
        ctx.count('elements:ids-beyond-2^31')
    all_ids = [e for b in blocks.values() for e, _ in b]
    # dtype of the element ids (one for the collection, sometimes one per block), of the connectivity, memory layouts
    one = rand_id_dtype(r, all_ids + [max(all_ids) + 40], .35)
    idt = {t: (rand_id_dtype(r, all_ids + [max(all_ids) + 40], .35) if r.random() < .2 else one) for t in blocks}
    cdt = r.choice([None] + fitting_id_dtypes(nid)) if r.random() < .5 else None
    spec = {'kind': 'elements', 'blocks': {t: [[e, list(c)] for e, c in b] for t, b in blocks.items()},
            'idt': idt, 'cdt': cdt, 'lay': {t: rand_layout(r, .4) for t in blocks},
            'idlay': {t: r.choice([None, None, 'strided', 'readonly', 'reversed']) for t in blocks},
            'insertion': r.sample(list(blocks), len(blocks)), 'update': None, 'nodes': nid}
    # a public update of the collection: replace one block (other ids / other number of elements) or add a type
    if r.random() < .5:
        others = [t for t in ['line', 'tri', 'quad', 'tet', 'pyr', 'prism', 'hex'] if t not in blocks and mg.ARITY[t] <= len(nid)]
        t = r.choice(others) if (others and r.random() < .4) else r.choice([x for x in blocks if x not in ('polyhedron', 'polygon')] or list(blocks))
        if t not in ('polyhedron', 'polygon'):
            keep = {e for tt, b in blocks.items() if tt != t for e, _ in b}
            pool = [e for e in set(all_ids) | {max(all_ids) + j for j in range(1, 40)} | {max(1, min(all_ids) - j) for j in range(1, 6)}
                    if e not in keep]
            new_ids = r.sample(sorted(pool), r.randint(1, min(len(pool), 5)))
            spec['update'] = {'type': t, 'rows': [[e, r.sample(nid, mg.ARITY[t])] for e in new_ids]}
            spec['idt'].setdefault(t, one)
    final = {t: [e for e, _ in b] for t, b in spec['blocks'].items()}
    if spec['update']:
        final[spec['update']['type']] = [e for e, _ in spec['update']['rows']]
    if len(final) == 1 and next(iter(final)) not in ('polyhedron', 'polygon') and r.random() < .6:
        # rows of a one-type collection renewed / added by id: update(ids, rows, allow_overwrite=True)
        t = next(iter(final))
        cur = final[t]
        if len(cur) >= 2 and r.random() < .7:
            sel, ustyle = renew_request(r, cur)
        else:
            sel, ustyle = r.sample(cur, r.randint(1, len(cur))), 'shuffled'
        if r.random() < .4:
            sel = sel + [max(cur) + r.randint(1, 30)]
            r.shuffle(sel)
            ustyle += '+new-id'
        if r.random() < .5:
            spec['assign_rows'] = {'rows': [r.sample(nid, mg.ARITY[t]) for _ in cur], 'lay': rand_layout(r, .5)}
            ctx.count('elements:data-assigned')
        spec['update_rows'] = {'ids': sel, 'rows': [r.sample(nid, mg.ARITY[t]) for _ in sel], 'as_array': r.random() < .5, 'lay': rand_layout(r, .5)}
        final[t] = sorted(set(cur) | set(sel))
        ctx.count('elements:update(ids,rows):' + ustyle.split(':')[0])
    ids = sorted(e for v in final.values() for e in v)
    spec['sel'] = r.sample(ids, r.randint(1, len(ids)))
    spec['sel2'] = r.sample(ids, r.randint(1, len(ids)))
    vdt = rand_dtype(r, .5)
    spec['vdt'], spec['vlay'] = vdt, rand_layout(r)
    vk = value_kind(vdt)
    spec['vals'] = [[i, float(rand_val(r, False, vk))] for i in ids]
    n_types = len(final)
    concat = [e for t in mg.ELEMENT_TYPES if t in spec['blocks'] for e, _ in spec['blocks'][t]]
    ctx.count('elements:' + ('mixed' if len(spec['blocks']) > 1 else 'uniform') + ('' if not spec['update'] else '+update'))
    ctx.count(f'elements:id-layout:{eid_layout}')
    for t in spec['blocks']:
        ctx.count(f'elements:type:{t}' + (':ragged' if t in ('polygon', 'polyhedron') and len({len(c) for _, c in spec["blocks"][t]}) > 1 else ''))
    ctx.count('elements:ids-dtype:' + '/'.join(sorted({str(v or 'default') for v in idt.values()})))
    if len(spec['blocks']) > 1:
        ctx.count('elements:mixed:concatenation-' + ('ascending' if concat == sorted(concat) else 'not-ascending')
                  + (':unsigned-ids' if any(v and v.startswith('u') for v in idt.values()) else ''))
    ctx.case(('elem', k), sample={'types': list(spec['blocks']), 'ids': concat[:10], 'ids_dtype': idt, 'update': bool(spec['update'])},
             nontrivial=n_types > 1 or len(spec['blocks']) > 1)
    return spec


def _restore(x):
    """JSON form of an operation argument -> the generator's form (rows of exact rationals)"""
    if isinstance(x, list) and x and isinstance(x[0], list):
        return [['n' if v == 'n' else Fraction(v) for v in r] for r in x]
    return x


def run_case(ctx, case):
    """replay of a recorded history on the real code (oracle only); returns [(signature-or-path, detail)]"""
    kind = case.get('kind', 'history')
    if kind == 'collection':
        return run_collection(case)
    if kind == 'time-series':
        return run_time_series(case)
    if kind == 'elements':
        try:
            return [(elem_signature(p), p) for p in run_elements(case)[0]]
        except Exception as e:
            return [('element-collection:raises', f'{type(e).__name__}: {e}')]
    if kind == 'large':
        return run_large(case)
    from femio import FEMAttribute, FEMAttributes
    rows0 = _restore(case['rows0'])
    fmt = Fmt(case.get('fmt'))
    a = FEMAttribute('x', ids=ids_array(case['ids'], fmt.idt, fmt.idlay), data=shape_rows(rows0, case['tail'], fmt.dt, fmt.lay0),
                     silent=True, generate_id2index=case['with_index'])
    holder = {'attrs': FEMAttributes({'x': a}), 'name': 'x', 'tail': case['tail'], 'held': [], 'refs': [], 'fmt': fmt}
    bad = construct_oracle(a, list(case['ids']), rows0)
    if bad:
        return [(f'views-disagree:construct:{bad[0][0]}', bad[0][1])]
    found = []
    for step, op in enumerate(case['ops']):
        op = [op[0]] + [_restore(x) for x in op[1:]]
        before = observe(holder['attrs']['x'])
        before_held = [observe(c) for c in holder['held']]
        err = apply_real(holder, op)
        try:
            after = observe(holder['attrs']['x'])
            after_held = [observe(c) for c in holder['held']]
        except Exception as e:
            return found + [(NARROW_REQ if narrow_request(holder, op, before) else f'views-disagree:{op[0]}:data', f'{type(e).__name__}: {e}')]
        res = step_oracles(holder, op, err, before, before_held, after, after_held, step == 0)
        found += [(sig, what) for sig, what, _ in res]
        if any(f for _, _, f in res):
            break
    return found


def run(ctx):
    for name, j in C.corpus_cases(PROP):
        ctx.count('corpus')
        bad = run_case(ctx, j)
        ctx.case(('corpus', name), nontrivial=True)
        for sig, detail in bad:
            ctx.fail(sig, f'corpus case {name}: {detail}', j, bad[:5])
    import time
    t0 = time.time()
    marks = []
    for h in range(ctx.n(250, 2500)):
        history(ctx, h)
    marks.append(('histories', time.time() - t0))
    for k in range(ctx.n(120, 1200)):
        collection_stream(ctx, k)
    marks.append(('collections', time.time() - t0))
    for k in range(ctx.n(25, 250)):
        time_series_stream(ctx, k)
    marks.append(('time-series', time.time() - t0))
    for k in range(ctx.n(80, 600)):
        elem_stream(ctx, k)
    marks.append(('elements', time.time() - t0))
    for k in range(ctx.n(2, 8)):
        large_stream(ctx, k)
    marks.append(('large', time.time() - t0))
    for k in range(ctx.n(20, 200)):
        outside_stream(ctx, k)
    if os.environ.get('C08_DEBUG'):
        print('C08 stream times (cumulative s):', ', '.join(f'{a} {b:.1f}' for a, b in marks))


def replay(ctx, obj):
    case = obj['input']
    if 'ops' not in case and case.get('kind') not in ('time-series', 'elements', 'large'):
        return {'fails': False, 'note': 'element-collection case recorded by an older version: re-run the check'}
    bad = run_case(ctx, case)
    return {'problems': bad[:5], 'fails': bool(bad)}
