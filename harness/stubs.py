"""Stand-ins for third-party writers that are not installed in this sandbox (`stl`, `tvtk`).

Only used by C07: they let femio's own STL / VTU / VTP writer code run up to the point where the
third-party library is asked to write a file, and then create that file.  What they do *not*
reproduce is the third-party file encoding (named in the evidence as "stubbed")."""
import sys
import types
from unittest import mock

import numpy as np


def install():
    """returns the list of module names that were stubbed"""
    stubbed = []
    try:
        import stl  # noqa: F401
    except Exception:
        stl = types.ModuleType('stl')
        base = types.ModuleType('stl.base')
        base.BaseMesh = np.dtype([('normals', 'f4', (3,)), ('vectors', 'f4', (3, 3)), ('attr', 'u2', (1,))])
        meshm = types.ModuleType('stl.mesh')

        class Mesh:
            def __init__(self, data, remove_empty_areas=False):
                self.data = data
                self.vectors = None

            def save(self, file_name):
                with open(file_name, 'wb') as f:
                    f.write(b'stub-stl %d facets\n' % len(self.data))
        meshm.Mesh = Mesh
        stl.base, stl.mesh = base, meshm
        sys.modules['stl'], sys.modules['stl.base'], sys.modules['stl.mesh'] = stl, base, meshm
        stubbed.append('stl')
    try:
        from tvtk.api import tvtk  # noqa: F401
    except Exception:
        tv = types.ModuleType('tvtk')
        api = types.ModuleType('tvtk.api')

        class _Writer:
            def __init__(self, file_name=None):
                self.file_name = file_name
                self.data_mode = None

            def set_input_data(self, d):
                self.d = d

            def write(self):
                with open(self.file_name, 'w') as f:
                    f.write('<VTKFile stub="1" type="Int64">\n</VTKFile>\n')

        t = mock.MagicMock()
        t.XMLUnstructuredGridWriter = _Writer
        t.XMLPolyDataWriter = _Writer
        api.tvtk = t
        tv.api = api
        sys.modules['tvtk'], sys.modules['tvtk.api'] = tv, api
        stubbed.append('tvtk')
    return stubbed
