"""C14 - nodal <-> elemental conversion preserves constants, bounds, totals (DESIGN.md section 4, C14).

Tie P/D: `convert_nodal2elemental(calc_average=True)` and `convert_elemental2nodal` (mode mean with weight None /
         explicit / False, mode effective) of real femio vs the exact rational evaluation of `Model/Convert.lean`
         (`c14.n2e`, `c14.e2n`) on meshes with arbitrary ids / storage order and fields of every width.
Oracle : the laws of the property on the returned arrays only (independent of the model): mean of own nodes, affine
         field reproduced at the vertex centroid, constants, range, weights (recovered with indicator fields)
         non-negative / row sums 1 / proportional to element size, effective: column sums 1, equal shares, totals.
Stream `n2e-history` ("convert, overwrite the named field, convert again on the same object"; inside the quantifier,
         reported through `fail`): a nodal field registered under a name is converted BY NAME, overwritten through the
         public API (nodal_data.overwrite with / without ids, set_attribute_data(allow_overwrite=True)) and converted by
         name again on the same object; the second result must be the mean of the NEW values (oracle) and equal the
         model's exact-rational evaluation on the new values (tie).
Stream `e2n-sequence` (inside the quantifier, reported through `fail`): several conversions on ONE object REUSING the same argument
         objects (incidence= in every sparse format x dtype, or the object's own cached matrix; weight= array; data arrays), on graded
         meshes with clearly unequal element sizes.  Each call: the clauses (incl. the weights themselves, recovered with indicator
         fields: weight ratio = size ratio, equal shares), equality with the same call on fresh arguments / a fresh object, the model
         history `e2nHistory` (c14.hist).  Every argument of every call (all streams) is snapshotted before and compared bit-exactly
         after the call: the model conversion is a function and returns its arguments unchanged (C14_call_returns_arguments,
         C14_history_fresh); C14_inplace_counterexample shows what goes wrong otherwise (weights ~ size^2 on the second call).
Stream `dtype-layout` (round 4, seeded C14-7; inside the quantifier "every field", reported through `fail`): every field dtype
         (int8 .. uint64, bool, float32, float64) x memory layout (C / Fortran / strided / reversed / read-only / transposed view) for
         both conversions, expectation = the exact rational mean of the VALUES.
"""
from fractions import Fraction as F

import numpy as np
import scipy.sparse as sp

from . import common as C
from . import meshgen as G
from . import c11 as K

PROP = 'C14'
LEAN_MODULES = ['Femio.Props.C14']
THEOREMS = ['C14_mean_of_nodes', 'C14_mean_of_nodes_unknown_id', 'C14_affine_at_centroid', 'C14_mean_row_stochastic',
            'C14_incidence_of_mesh', 'C14_constants', 'C14_bounds', 'C14_weights_prop_size', 'C14_effective_colsum', 'C14_effective_total',
            'C14_call_returns_arguments', 'C14_history_fresh', 'C14_history_value', 'C14_inplace_counterexample']
PARTIAL = ['order1_only=True / an explicit incidence= matrix: modelled for weight=False (e2nMean / e2nEffective over Femio.C13.incidenceOpt true, rows = order1Nodes; the C14 theorems are stated for an arbitrary Boolean incidence relation and cover it); with metric weights it is exercised by the oracle only',
           'convert_nodal2elemental without calc_average (plain gather / ravel) is covered by the gather lemma only',
           'histories (C14_history_fresh / C14_history_value): the model call returns its argument objects unchanged BY DEFINITION; that '
           'femio does the same is not proved but tied on every call (bit-exact snapshot of every argument before / after) and on every '
           'sequence (the arguments returned by e2nHistory vs the live objects); the history model covers elemental -> nodal calls sharing '
           'the incidence object - the stored `metric` and the lru-cached incidence matrix of the object are covered by the comparison '
           'with fresh objects only']
RULE = ('seeded meshes (tri, quad, tri+quad, tet, tet2, hex, prism, pyr, hex+prism+pyr; affine / jittered; voids; unreferenced '
        'nodes; ids dense / sparse / large / huge / prefix-like; storage ascending / descending / shuffled; type blocks '
        'shuffled) x field widths 1-6 (and 1-D) with dyadic / integer / constant / affine / indicator values x '
        '{nodal->elemental, elemental->nodal mean with implicit / explicit / False weights, effective}; plus histories on one '
        'object: named nodal field converted by name, overwritten through the public API, converted by name again; a case is one '
        '(mesh, conversion, weights, field) evaluation; non-trivial when the mesh has at least two elements sharing a node; '
        'integer-valued nodal fields are handed over as int64 arrays every other round; tet2: order1_only=True and the same '
        'conversion through an explicit incidence= matrix (first-order incidence, another node set than the connectivity); '
        'stream `absolute-scale`: the same generator meshes scaled exactly by 2^-13 / 2^-10 / 2^10 (0.1 mm / 1 mm cells in metres, km '
        'cells) x all e2n conversions (explicit weights scaled by s^d; every 4th mesh with incidence= the mesh\'s own incidence '
        'matrix) + n2e of an affine field; stream `repeated-nodes`: hex / quad meshes with a random subset of elements collapsed by '
        'repeating node ids (wedge, pyramid, triangle) x {effective, mean with False / explicit / implicit weights}; '
        'stream `e2n-sequence`: generator meshes GRADED by a projective map (element sizes differ by factors up to ~40) x the '
        'documented incidence= argument {absent, the object\'s cached matrix, own copy in csr / csc / coo x bool / int64 / float64} x '
        'sequences of 2-5 conversions on ONE object REUSING the same incidence / weight (float64 or int64) / data objects: every ordered '
        'pair of {mean implicit, mean explicit, mean False, effective} as the first two calls, random tail, nodal->elemental in between; '
        'indicator fields recover the weight matrix itself (non-negative, support, row sums, weight ratio = size ratio; effective: equal '
        'shares, column sums); every call is also compared with the same call on freshly built arguments and a freshly built object and '
        'with the model history (c14.hist); every argument object of every call of every stream is snapshotted before and compared '
        'bit-exactly after the call; '
        'stream `dtype-layout` (round 4): every field dtype {int8 .. int64, uint8 .. uint64, bool, float32, float64} x mesh kind (all 88 '
        'pairs per quick run) x memory layout {C, Fortran, every-second-row/column slice, negative strides, read-only, transposed view} x '
        'shapes (n, 1) / (n, k) (elemental -> nodal also (n,)): nodal -> elemental (array argument, 30 % registered as a nodal variable and '
        'converted by name) and two of the four elemental -> nodal conversions; integer values mostly near the ends of the dtype\'s range '
        '(the sum over one element does not fit the dtype), Boolean masks mostly set; expectation = the exact rational mean / weighted '
        'mean / share of the VALUES; '
        'distinct = distinct (mesh, conversion, weights, field) content')
ASSUMPTIONS = [
    'elements have positive metric and every node used by the laws touches an element (the row of an unreferenced node is an '
    'empty sparse row = 0 in femio and 0 * (1/0) = 0 in the model; compared, but no law is asserted for it)',
    'convert_nodal2elemental on a mesh mixing element types of different arity raises ValueError with numpy >= 1.24 '
    '(ragged array): counted in the "unsupported" stream, not a failure',
    'calculate_element_metrics has no branch for pyr (NotImplementedError): implicit weights on meshes with pyramids are '
    'counted in the "unsupported" stream',
    'absolute scale: the laws are homogeneous of degree 0 in the element sizes, femio has no absolute threshold in either '
    'conversion, so they are asserted unchanged on meshes scaled by 2^-13 .. 2^10 (tolerance relative to the field values only)',
    'elements with repeated node ids (stream `repeated-nodes`): "its nodes" are the DISTINCT nodes of the element (femio\'s '
    'incidence matrix is Boolean: a node listed twice is incident once) - effective: each distinct node receives value / '
    '#distinct nodes and the grand total is conserved; mean: the element enters a node\'s average once with its size. '
    'Collapsed hexes / quads have positive metric; treated as inside the quantifier ("every mesh with positive elements ... '
    'hex"), counted separately; nodal -> elemental is not run on them ("mean of its own nodes" is ambiguous with a repeated node)',
    'float arithmetic: results agree with the exact rational value within 1e-9 * max|x| (2e-5 * max|x| when the implicit '
    'weights come from the float32 centroid kernels)',
    'histories: the statement is read for every call, not only for the first call on a fresh object - re-using the same incidence= / '
    'weight= / data objects for several conversions on one object is the documented purpose of the incidence= argument and inside the '
    'quantifier; a call whose result differs by more than twice the tolerance from the same call with equal fresh arguments violates '
    'the clause in one of the two calls and is reported (`...:depends-on-earlier-calls`).  A modified argument alone is reported as a '
    'broken correspondence (the model returns its arguments unchanged); the clause it breaks is reported on the next call of the '
    'sequence (the sequence is extended by three calls when the modification happens in its last call)',
    '"every field": the container dtype is not part of the statement - the values of an int8 / uint16 / bool / float32 array are '
    'numbers and the result must be the mean (weighted mean, share) of those numbers within 1e-9 * max|x| (float32 input: 2e-6 * max|x|, '
    'femio returns float32 then); calibrated on the unchanged tree: integer / Boolean input -> float64 mean, every layout the same '
    'values; the dtype of the RESULT is not judged.  1-D nodal input (n,) is rejected by convert_nodal2elemental for every dtype '
    '(IndexError: it indexes [rows, :]) and is not generated; float16 is not generated',
    'incidence= is given as a scipy.sparse MATRIX (csr / csc / coo; bool / int64 / float64) holding the Boolean incidence (stored value 1); '
    'float32 matrices, sparse arrays (csr_array) and dense arrays are not used',
]
TRUSTED = ['C14: for shell meshes the implicit weights (areas, irrational) are taken from the real calculate_element_metrics and '
           'passed to the model as explicit weights; their correctness is C11\'s tie']

TOL = 1e-9


# ------------------------------------------------------------------------------------------ helpers

def flat_elems(m):
    """(eid, type, conn) in femio's flattened order: one block -> storage order; several -> ascending id"""
    rows = [(e, t, c) for t, b in m['blocks'].items() for e, c in b]
    if len(m['blocks']) > 1:
        rows.sort(key=lambda r: r[0])
    return rows


def gen_mesh(rng, kind):
    if kind.startswith('shell:'):
        return K.gen_shell(rng, kind[6:])
    if kind == 'tet2':
        return G.promote_tet2(rng, G.gen_geometric(rng, kind='tet', max_cells=2))
    if kind == 'mixed-nopyr':
        for _ in range(20):
            m = G.gen_geometric(rng, kind='mixed', max_cells=2)
            if 'pyr' not in m['blocks'] and len(m['blocks']) > 1:
                return m
        return m
    return G.gen_geometric(rng, kind=kind, max_cells=2)


def gen_field(rng, n, width, style, pos=None):
    """rows of exact Fractions"""
    if style == 'const':
        c = [F(rng.randint(-40, 40), 8) for _ in range(width)]
        return [list(c) for _ in range(n)]
    if style == 'int':
        return [[F(rng.randint(-1000, 1000)) for _ in range(width)] for _ in range(n)]
    if style == 'affine' and pos is not None:
        a = [[F(rng.randint(-16, 16), 4) for _ in range(3)] for _ in range(width)]
        b = [F(rng.randint(-16, 16), 2) for _ in range(width)]
        return [[sum(a[w][k] * p[k] for k in range(3)) + b[w] for w in range(width)] for p in pos], (a, b)
    return [[F(rng.randint(-2 ** 20, 2 ** 20), 2 ** rng.randint(0, 12)) for _ in range(width)] for _ in range(n)]


# round 4 (class F, seeded C14-7): DTYPE AND MEMORY LAYOUT of every field handed to the two conversions.  The property speaks of
# "every field": the values of an integer / Boolean / single-precision array are numbers like any other, and "the mean of its own
# nodes' values" is the mean of those NUMBERS (exact rationals here), whatever the container - not a sum that wraps around in the
# container's dtype, not a logical OR of flags.  Calibrated on the unchanged tree: integer and Boolean input gives the float64
# mean, float32 input a float32 result (tolerance 2e-6 of the field scale), every layout the same values.
DTYPES = ['int8', 'int16', 'int32', 'int64', 'uint8', 'uint16', 'uint32', 'uint64', 'bool', 'float32', 'float64']
LAYOUTS = ['C', 'F', 'strided', 'reversed', 'readonly', 'transposed']
RTOL32 = 2e-6


def layout_of(base, layout):
    """the same values in another memory layout"""
    if layout == 'C':
        return np.ascontiguousarray(base)
    if layout == 'F':
        return np.asfortranarray(base)
    if layout == 'strided':         # every second row / column of a larger array: not contiguous in any order
        big = np.zeros(tuple(2 * k for k in base.shape), dtype=base.dtype)
        x = big[tuple(slice(None, None, 2) for _ in base.shape)]
        x[...] = base
        return x
    if layout == 'reversed':        # negative strides
        return base[::-1].copy()[::-1]
    if layout == 'readonly':
        x = base.copy()
        x.setflags(write=False)
        return x
    if layout == 'transposed':      # a transposed view of a C-ordered (width, n) array
        return np.ascontiguousarray(base.T).T
    raise ValueError(layout)


def as_array(rows, one_d=False, int_dtype=False, form=None):
    if form is not None:
        dt, layout = form
        d = np.dtype(dt)
        if d.kind in 'iub':
            assert all(F(v).denominator == 1 for r in rows for v in r)
            a = np.array([[int(v) for v in r] for r in rows], dtype=d)
            assert all(int(x) == int(v) for ra, r in zip(a, rows) for x, v in zip(ra, r)), 'value not representable in ' + dt
        else:
            a = np.array([[float(v) for v in r] for r in rows], dtype=d)
            assert all(F(float(x)) == F(v) for ra, r in zip(a, rows) for x, v in zip(ra, r)), 'value not representable in ' + dt
        a = layout_of(a, layout)
        return a[:, 0] if one_d else a
    if int_dtype:          # integer-valued field handed over as an int64 array (what np.arange / counting produces)
        assert all(F(v).denominator == 1 for r in rows for v in r)
        a = np.array([[int(v) for v in r] for r in rows], dtype=np.int64)
    else:
        a = np.array([[float(v) for v in r] for r in rows], dtype=float)
    return a[:, 0] if one_d else a


def gen_field_dtype(rng, n, width, dt):
    """rows of exact Fractions representable in dtype `dt`; integers mostly NEAR THE ENDS of the dtype's range (the sum of the
    3 .. 10 values of one element does not fit the dtype), Boolean masks mostly set"""
    d = np.dtype(dt)
    if d.kind == 'b':
        p = rng.choice([.3, .7, .9, 1.0])
        return [[F(int(rng.random() < p)) for _ in range(width)] for _ in range(n)], 'mask'
    if d.kind in 'iu':
        lo, hi = int(np.iinfo(d).min), int(np.iinfo(d).max)
        style = rng.choice(['high', 'high', 'full', 'small'] + (['low', 'low'] if lo < 0 else ['high', 'top']))
        a, b = {'high': (hi // 2, hi), 'top': (hi - 3, hi), 'low': (lo, lo // 2), 'full': (lo, hi), 'small': (0, 7)}[style]
        return [[F(rng.randint(a, b)) for _ in range(width)] for _ in range(n)], style
    if dt == 'float32':
        return [[F(rng.randint(-2 ** 20, 2 ** 20), 2 ** rng.randint(0, 3)) for _ in range(width)] for _ in range(n)], 'dyadic24'
    return gen_field(rng, n, width, 'dyadic'), 'dyadic'


def enc_cols(rows, width):
    cols = [[r[w] for r in rows] for w in range(width)]
    return C.enc_list(cols, lambda c: C.enc_list(c, C.enc_rat))


def field_json(rows):
    return [[str(v) for v in r] for r in rows]


def field_from_json(j):
    return [[F(v) for v in r] for r in j]


def true_metrics(m):
    """element id -> metric, from one uniform single-type FEMData per block (no mixed-mesh assembly involved)"""
    out = {}
    for t, b in m['blocks'].items():
        sub = dict(m)
        sub['blocks'] = {t: b}
        fd = K.to_fem(sub)
        try:
            v = G.quiet(fd.calculate_element_metrics, raise_negative_metric=False)
        except NotImplementedError:
            return None
        for (e, _), x in zip(b, np.asarray(v, float).ravel()):
            out[e] = float(x)
    return out



# ------------------------------------------------------------------------------------------ caller-supplied arguments
# Python passes the data arrays, the `weight=` array and the `incidence=` matrix BY REFERENCE.  The model conversion is a
# function: it returns a value and leaves its arguments alone (Model/Convert.lean `e2nCall` / `C14_history_fresh`).  Every
# argument handed to femio is therefore snapshotted before the call and compared bit-exactly afterwards; a difference is a
# broken correspondence (`argument modified`).  What the property says about it is observed on the NEXT call that uses the
# same object (stream `e2n-sequence`), where the modified argument breaks a clause.

ARG_EVENTS = []      # (where, argument, 'value' | 'representation', detail): filled by Watch.check, drained by run()


def _canon_sparse(a):
    """(row, col, data) of the matrix VALUE: duplicates summed, explicit zeros dropped, sorted by (row, col)"""
    c = sp.coo_matrix(a, copy=True)
    c.sum_duplicates()
    c.eliminate_zeros()
    o = np.lexsort((c.col, c.row))
    return c.row[o].astype(np.int64), c.col[o].astype(np.int64), np.asarray(c.data)[o]


def snap_arg(a):
    """bit-exact snapshot of one argument object (numpy array or scipy sparse matrix)"""
    if sp.issparse(a):
        if a.format in ('csr', 'csc', 'bsr'):
            parts = (a.data, a.indices, a.indptr)
        elif a.format == 'coo':
            parts = (a.data, a.row, a.col)
        else:
            parts = ()
        return {'kind': 'sparse', 'meta': (a.format, str(a.dtype), tuple(a.shape)),
                'raw': tuple((str(np.asarray(p_).dtype), np.asarray(p_).tobytes()) for p_ in parts), 'canon': _canon_sparse(a)}
    a = np.asarray(a)
    return {'kind': 'array', 'meta': (str(a.dtype), tuple(a.shape)), 'raw': a.tobytes(), 'copy': a.copy()}


def diff_arg(s0, s1):
    """None | ('value' | 'representation', detail)"""
    if s0['meta'] != s1['meta']:
        return 'value', {'before': list(map(str, s0['meta'])), 'after': list(map(str, s1['meta']))}
    if s0['kind'] == 'array':
        if s0['raw'] == s1['raw']:
            return None
        a, b = s0['copy'].ravel(), s1['copy'].ravel()
        bad = [k for k in range(len(a)) if a[k:k + 1].tobytes() != b[k:k + 1].tobytes()]
        return 'value', {'entries_changed': len(bad), 'first': {'flat_index': bad[0], 'before': a[bad[0]].item(), 'after': b[bad[0]].item()}}
    (r0, c0, d0), (r1, c1, d1) = s0['canon'], s1['canon']
    if len(r0) != len(r1) or not (np.array_equal(r0, r1) and np.array_equal(c0, c1)):
        return 'value', {'stored_entries_before': len(r0), 'stored_entries_after': len(r1), 'pattern_changed': True}
    if d0.tobytes() != d1.tobytes():
        bad = [k for k in range(len(d0)) if d0[k:k + 1].tobytes() != d1[k:k + 1].tobytes()]
        return 'value', {'entries_changed': len(bad), 'first': {'row': int(r0[bad[0]]), 'col': int(c0[bad[0]]),
                                                                'before': d0[bad[0]].item(), 'after': d1[bad[0]].item()}}
    if s0['raw'] != s1['raw']:
        return 'representation', {}
    return None


class Watch:
    """snapshot of the argument objects of a call (or of a sequence of calls); check() compares the live objects with it"""

    def __init__(self, where, **args):
        self.where = where
        self.args = {k: v for k, v in args.items() if isinstance(v, np.ndarray) or sp.issparse(v)}
        self.snaps = {k: snap_arg(v) for k, v in self.args.items()}

    def check(self, when=''):
        out = []
        for k, v in self.args.items():
            now = snap_arg(v)
            d = diff_arg(self.snaps[k], now)
            if d is not None:
                desc = k + ('' if not sp.issparse(v) and not self.snaps[k]['kind'] == 'sparse'
                            else f"[{self.snaps[k]['meta'][0]}:{self.snaps[k]['meta'][1]}]")
                ev = (self.where, desc, d[0], dict(d[1], when=when))
                ARG_EVENTS.append(ev)
                out.append(ev)
                self.snaps[k] = now          # report every modification once
        return out


def drain_arg_events(ctx, case):
    """arguments modified by a call: a broken correspondence (the model op returns its arguments unchanged)"""
    evs = list(ARG_EVENTS)
    del ARG_EVENTS[:]
    for where, arg, kind, detail in evs:
        ctx.count(f'argument-{"modified" if kind == "value" else "representation-changed"}:{where}:{arg}')
        if kind == 'value':
            ctx.disagree(f'{where}: the call modified its caller-supplied argument `{arg}` (model: the conversion is a function, '
                         'its arguments are returned unchanged)', case, detail, 'unchanged')
    return evs


# ------------------------------------------------------------------------------------------ nodal -> elemental

def check_n2e(m, rows, affine=None, one_d=False, int_dtype=False, form=None, by_name=False, rtol=None):
    """oracle on the real API; returns (failures, real result or None, error).  form = (dtype, layout) of the array handed
    over (None: float64 / int64, C order); by_name: the array is registered as a nodal variable and converted by its name"""
    tolr = TOL if rtol is None else rtol
    fd = K.to_fem(m)
    width = len(rows[0])
    x = as_array(rows, one_d, int_dtype, form)
    w_ = Watch('convert_nodal2elemental', data=x)
    arg = x
    if by_name:
        G.quiet(fd.nodal_data.update_data, np.array([i for i, _ in m['nodes']]), {'T': x})
        arg = 'T'
    try:
        r = G.quiet(fd.convert_nodal2elemental, arg, calc_average=True)
    except ValueError as e:
        return [], None, 'value_error:' + str(e)[:60]
    finally:
        w_.check()
    r = np.asarray(r, float).reshape(len(fd.elements.ids), -1)
    val = {i: rows[k] for k, (i, _) in enumerate(m['nodes'])}
    pos = dict(m['nodes'])
    sc = max([1.0] + [abs(float(v)) for row in rows for v in row])
    fails = []
    ids = [int(i) for i in fd.elements.ids]
    conn = {e: c for e, _, c in flat_elems(m)}
    for k, e in enumerate(ids):
        c = conn[e]
        want = [sum(val[n][w] for n in c) / len(c) for w in range(width)]
        if not all(abs(float(a) - b) <= tolr * sc for a, b in zip(want, r[k])):
            fails.append(('n2e:mean-of-own-nodes', f'element {e}: value is not the mean of its own nodes\' values',
                          {'element': e, 'expected': [float(a) for a in want], 'got': r[k].tolist()}))
            break
        if affine is not None:
            a, b = affine
            g = [sum(pos[n][j] for n in c) / len(c) for j in range(3)]
            atc = [sum(a[w][j] * g[j] for j in range(3)) + b[w] for w in range(width)]
            if not all(abs(float(u) - v) <= tolr * sc for u, v in zip(atc, r[k])):
                fails.append(('n2e:affine-at-centroid', f'element {e}: affine field not reproduced at the vertex centroid',
                              {'element': e, 'expected': [float(u) for u in atc], 'got': r[k].tolist()}))
                break
    if not fails and not one_d:
        fails += n2e_option_combinations(fd, m, arg, rows, ids, affine, tolr)
    return fails, dict(zip(ids, r.tolist())), None


def n2e_option_combinations(fd, m, arg, rows, ids, affine, tolr):
    """the other keyword combinations of convert_nodal2elemental on the same object and argument (round 6, seeded C14-11):
    calc_average=True together with ravel=True is still the per-element mean of the element's own nodes, component by component
    (constants, bounds and affine fields at the vertex centroid are statements about THAT array); without calc_average the result
    is the gather of the own nodes' rows in connectivity order, `ravel=True` flattening each element's block"""
    fails = []
    width = len(rows[0])
    try:
        r2 = np.asarray(G.quiet(fd.convert_nodal2elemental, arg, calc_average=True, ravel=True), float)
    except Exception as e:  # noqa
        return [('n2e:raises:calc_average+ravel', f'convert_nodal2elemental(calc_average=True, ravel=True) raised {type(e).__name__}: {e}'[:200],
                 {'exception': type(e).__name__})]
    if r2.ndim != 2:
        r2 = r2.reshape(len(r2), -1) if r2.ndim > 2 else r2.reshape(-1, 1)
    fails += n2e_laws(m, ids, r2, rows, affine, 'calc_average=True, ravel=True', tol=tolr)
    conn = {e: c for e, _, c in flat_elems(m)}
    if not fails and len({len(c) for c in conn.values()}) == 1:
        val = {i: [float(v) for v in rows[k]] for k, (i, _) in enumerate(m['nodes'])}
        sc = max([1.0] + [abs(float(v)) for row in rows for v in row])
        for rav in (False, True):
            try:
                g = np.asarray(G.quiet(fd.convert_nodal2elemental, arg, ravel=rav), float)
            except Exception as e:  # noqa
                fails.append((f'n2e:raises:gather:ravel={rav}', f'convert_nodal2elemental(ravel={rav}) raised {type(e).__name__}: {e}'[:200],
                              {'exception': type(e).__name__}))
                continue
            npe = len(next(iter(conn.values())))
            want_shape = (len(ids), npe * width) if rav else (len(ids), npe, width)
            if g.shape != want_shape:
                fails.append(('n2e:gather:shape', f'convert_nodal2elemental(ravel={rav}): shape {g.shape}, expected {want_shape}',
                              {'shape': list(g.shape), 'ravel': rav}))
                continue
            g = g.reshape(len(ids), npe, width)
            for k, e in enumerate(ids):
                want = np.array([val[n] for n in conn[e]])
                if not np.all(np.abs(g[k] - want) <= tolr * sc):
                    fails.append(('n2e:gather:own-nodes-in-order', f'convert_nodal2elemental(ravel={rav}): element {e} does not hold the rows of '
                                  'its own nodes in connectivity order', {'element': e, 'expected': want.tolist(), 'got': g[k].tolist(), 'ravel': rav}))
                    break
    return fails


def tie_n2e(ctx, m, rows, real, case, rtol=None):
    width = len(rows[0])
    tolr = TOL if rtol is None else rtol
    rep = ctx.driver.ask(f'c14.n2e {G.enc_mesh(m)} {enc_cols(rows, width)}')
    t = C.Toks(rep)
    if t.tok() != 'ok':
        raise RuntimeError('driver: ' + rep[:200])
    sc = max([1.0] + [abs(float(v)) for row in rows for v in row])
    order = []
    for _ in range(t.nat()):
        e = t.nat()
        vals = t.lst(lambda: t.rat() if t.nat() == 1 else None)
        order.append(e)
        got = real.get(e)
        if got is None or any(v is None for v in vals) or not all(abs(float(a) - b) <= tolr * sc for a, b in zip(vals, got)):
            ctx.disagree('convert_nodal2elemental', case, got, [None if v is None else float(v) for v in vals])
            return
    if order != list(real):
        ctx.disagree('convert_nodal2elemental: element order', case, list(real)[:10], order[:10])


HOW_OVERWRITE = ['overwrite', 'overwrite', 'overwrite-with-ids', 'set_attribute_data']


def n2e_laws(m, ids, r, rows, affine, when, tol=None):
    """mean of own nodes / affine at the vertex centroid for the result rows `r` (element ids `ids`) of field `rows`"""
    width = len(rows[0])
    val = {i: rows[k] for k, (i, _) in enumerate(m['nodes'])}
    pos = dict(m['nodes'])
    sc = max([1.0] + [abs(float(v)) for row in rows for v in row])
    conn = {e: c for e, _, c in flat_elems(m)}
    TOL_ = TOL if tol is None else tol
    fails = []
    if len(r) != len(ids) or r.shape[1] != width:
        return [('n2e:shape', f'{when}: result has shape {r.shape} for {len(ids)} elements and a field of width {width}',
                 {'shape': list(r.shape)})]
    for k, e in enumerate(ids):
        c = conn[e]
        want = [sum(val[n][w] for n in c) / len(c) for w in range(width)]
        if not all(abs(float(a) - b) <= TOL_ * sc for a, b in zip(want, r[k])):
            fails.append(('n2e:mean-of-own-nodes', f'element {e}: value is not the mean of its own nodes\' (current) values ({when})',
                          {'element': e, 'expected': [float(a) for a in want], 'got': r[k].tolist(), 'when': when}))
            break
        if affine is not None:
            a, b = affine
            g = [sum(pos[n][j] for n in c) / len(c) for j in range(3)]
            atc = [sum(a[w][j] * g[j] for j in range(3)) + b[w] for w in range(width)]
            if not all(abs(float(u) - v) <= TOL_ * sc for u, v in zip(atc, r[k])):
                fails.append(('n2e:affine-at-centroid', f'element {e}: affine field not reproduced at the vertex centroid ({when})',
                              {'element': e, 'expected': [float(u) for u in atc], 'got': r[k].tolist(), 'when': when}))
                break
    return fails


def check_n2e_history(m, rows1, rows2, how, affine2=None, name='T'):
    """history on ONE object: register the nodal field `name` (rows1), convert it by name, overwrite it through the public
    API (rows2), convert it by name again with the same flags.  Returns (failures, real first result, real second result,
    error); results as {element id: row}"""
    fd = K.to_fem(m)
    x1, x2 = as_array(rows1), as_array(rows2)
    nids = np.array([i for i, _ in m['nodes']])
    G.quiet(fd.nodal_data.update_data, nids, {name: x1})
    w_ = Watch('convert_nodal2elemental(by name)', registered_data=x1)
    try:
        r1 = G.quiet(fd.convert_nodal2elemental, name, calc_average=True)
    except ValueError as e:
        return [], None, None, 'value_error:' + str(e)[:60]
    w_.check('after the first conversion by name')
    r1 = np.array(r1, dtype=float).reshape(len(fd.elements.ids), -1)       # copy: taken before the overwrite
    if how == 'overwrite':
        G.quiet(fd.nodal_data.overwrite, name, x2)
    elif how == 'overwrite-with-ids':
        G.quiet(fd.nodal_data.overwrite, name, x2, ids=nids)
    elif how == 'set_attribute_data':
        G.quiet(fd.nodal_data.set_attribute_data, name, x2, allow_overwrite=True)
    else:
        raise ValueError(how)
    w_ = Watch('convert_nodal2elemental(by name)', new_data=x2)        # (snapshot taken AFTER the overwrite: only the conversion is watched)
    r2 = G.quiet(fd.convert_nodal2elemental, name, calc_average=True)
    r2 = np.array(r2, dtype=float).reshape(len(fd.elements.ids), -1)
    w_.check('after the conversion by name that follows the overwrite')
    ids = [int(i) for i in fd.elements.ids]
    fails = n2e_laws(m, ids, r1, rows1, None, 'first conversion of the named field')
    fails += n2e_laws(m, ids, r2, rows2, affine2, f'conversion by name after the named field was overwritten [{how}]')
    return fails, dict(zip(ids, r1.tolist())), dict(zip(ids, r2.tolist())), None


# ------------------------------------------------------------------------------------------ elemental -> nodal

def run_e2n(m, rows, mode, wkind, weights, one_d=False, incidence=None, form=None):
    fd = K.to_fem(m)
    x = as_array(rows, one_d, form=form)
    kw = {}
    if incidence == 'explicit-full':      # the documented `incidence=` parameter, given the mesh's own incidence matrix
        type(fd).calculate_incidence_matrix.cache_clear()
        kw['incidence'] = G.quiet(fd.calculate_incidence_matrix)
    if wkind == 'false':
        kw['weight'] = False
    elif wkind == 'explicit':
        kw['weight'] = np.array([[float(w)] for w in weights], dtype=float)
    w_ = Watch('convert_elemental2nodal', data=x, weight=kw.get('weight'), incidence=kw.get('incidence'))
    try:
        with np.errstate(all='ignore'):
            r = G.quiet(fd.convert_elemental2nodal, x, mode=mode, **kw)
    finally:
        w_.check(f'mode={mode} weight={wkind}')
    return np.asarray(r, float).reshape(len(m['nodes']), -1)


def check_e2n(m, rows, mode, wkind, weights, one_d=False, incidence=None, cols=None, form=None, rtol=None):
    """oracle on the real API: the laws of the property"""
    try:
        r = run_e2n(m, rows, mode, wkind, weights, one_d, incidence, form)
    except NotImplementedError as e:
        return [], None, 'not_implemented:' + str(e)[:40]
    return e2n_laws(m, rows, mode, wkind, weights, r, cols=cols, rtol=rtol), r, None


def e2n_laws(m, rows, mode, wkind, weights, r, sizes=None, cols=None, metric_weights=False, rtol=None):
    """the clauses of the property for ONE result array `r` (n_nodes x width) of the elemental field `rows`.
    sizes: element id -> size for the implicit weights (default: true_metrics(m), which calls femio);
    cols: if the field consists of indicator columns (column c = indicator of the element at flattened position cols[c]) the
    result IS the weight matrix restricted to these columns and the clauses are also checked weight by weight;
    metric_weights: the explicit weights are element metrics computed by femio (float32 kernels for hex / prism / pyr)"""
    fl = flat_elems(m)
    ne, nn = len(fl), len(m['nodes'])
    width = len(rows[0])
    # incidence from the definition
    touch = {i: [] for i, _ in m['nodes']}
    for j, (e, t, c) in enumerate(fl):
        for n in dict.fromkeys(c):
            touch[n].append(j)
    node_ids = [i for i, _ in m['nodes']]
    sc = max([1.0] + [abs(float(v)) for row in rows for v in row])
    implicit32 = (wkind == 'implicit' or (metric_weights and wkind == 'explicit')) and any(t in ('hex', 'prism', 'pyr') for t in m['blocks'])
    tol = (2e-5 if implicit32 else TOL if rtol is None else rtol) * sc
    fails = []
    xs = [[float(v) for v in row] for row in rows]
    if r.shape != (nn, width):
        return [('e2n:shape', f'result has shape {tuple(r.shape)} for {nn} nodes and a field of width {width}', {'shape': list(r.shape)})]
    if mode == 'mean':
        # sizes the weights must be proportional to
        if wkind == 'false':
            size = [1.0] * ne
        elif wkind == 'explicit':
            size = [float(w) for w in weights]
        else:
            tm = sizes if sizes is not None else true_metrics(m)
            size = [tm[e] for e, _, _ in fl]
        if cols is not None:
            fails += mean_weight_laws(node_ids, touch, size, r, cols, tol, wkind)
            if fails:
                return fails
        for k, i in enumerate(node_ids):
            js = touch[i]
            if not js:
                continue
            for w in range(width):
                vals = [xs[j][w] for j in js]
                if not (min(vals) - tol <= r[k, w] <= max(vals) + tol):
                    fails.append(('e2n-mean:bounds', f'node {i}: result outside the range of the elements touching it',
                                  {'node': i, 'column': w, 'got': float(r[k, w]), 'range': [min(vals), max(vals)]}))
                    return fails
                den = sum(size[j] for j in js)
                want = sum(size[j] * xs[j][w] for j in js) / den
                if not abs(r[k, w] - want) <= tol:
                    sig = 'e2n-mean:weights-prop-size'
                    if wkind == 'implicit' and len(m['blocks']) > 1:
                        sig = 'mixed-binding:e2n-implicit-weight'
                    fails.append((sig, f'node {i}: result is not the size-weighted mean of the touching elements '
                                  f'(weights {wkind})', {'node': i, 'column': w, 'got': float(r[k, w]), 'expected': want}))
                    return fails
    else:
        tot_in = [sum(xs[j][w] for j in range(ne)) for w in range(width)]
        tot_out = r.sum(axis=0)
        if not all(abs(a - b) <= tol * max(1, ne) for a, b in zip(tot_in, tot_out)):
            fails.append(('e2n-effective:total', 'grand total not conserved', {'in': tot_in, 'out': tot_out.tolist()}))
            return fails
        if cols is not None:
            fails += effective_weight_laws(node_ids, touch, r, cols, tol)
            if fails:
                return fails
        share = [1.0 / len(dict.fromkeys(c)) for _, _, c in fl]
        for k, i in enumerate(node_ids):
            for w in range(width):
                want = sum(share[j] * xs[j][w] for j in touch[i])
                if not abs(r[k, w] - want) <= tol:
                    fails.append(('e2n-effective:equal-shares', f'node {i}: does not receive an equal share of each of its elements',
                                  {'node': i, 'column': w, 'got': float(r[k, w]), 'expected': want}))
                    return fails
    return fails


def mean_weight_laws(node_ids, touch, size, W, cols, tol, wkind):
    """'mean' clauses stated on the weights themselves; W[k, c] = weight of the element at position cols[c] at node k
    (recovered with indicator fields): non-negative, zero for elements not touching the node, summing to one, and
    weight_j : weight_j' = size_j : size_j' for any two touching elements"""
    col_of = {j: c for c, j in enumerate(cols)}
    for k, i in enumerate(node_ids):
        js = touch[i]
        if not js:
            continue
        for c, j in enumerate(cols):
            if W[k, c] < -tol:
                return [('e2n-mean:negative-weight', f'node {i}: negative weight for the element at position {j}',
                         {'node': i, 'element_position': j, 'weight': float(W[k, c])})]
            if j not in js and abs(W[k, c]) > tol:
                return [('e2n-mean:weight-on-non-touching-element', f'node {i}: non-zero weight for an element that does not touch it',
                         {'node': i, 'element_position': j, 'weight': float(W[k, c])})]
        got = [j for j in js if j in col_of]
        if len(got) == len(js):
            tot = sum(W[k, col_of[j]] for j in js)
            if not abs(tot - 1) <= tol * len(js):
                return [('e2n-mean:weights-do-not-sum-to-one', f'node {i}: the weights of the touching elements sum to {tot!r}',
                         {'node': i, 'sum': float(tot)})]
        for a, b in zip(got, got[1:]):
            wa, wb = W[k, col_of[a]], W[k, col_of[b]]
            if not abs(wa * size[b] - wb * size[a]) <= tol * (abs(size[a]) + abs(size[b])):
                return [('e2n-mean:weight-ratio-not-size-ratio',
                         f'node {i}: the weights of two touching elements are not in the ratio of their sizes (weights {wkind})',
                         {'node': i, 'element_positions': [a, b], 'weights': [float(wa), float(wb)], 'sizes': [size[a], size[b]],
                          'weight_ratio': float(wa / wb) if wb else None, 'size_ratio': size[a] / size[b] if size[b] else None})]
    return []


def effective_weight_laws(node_ids, touch, W, cols, tol):
    """'effective' clauses on the weights: every node of an element receives the same share, the shares of one element sum
    to one, other nodes receive nothing"""
    for c, j in enumerate(cols):
        own = [k for k, i in enumerate(node_ids) if j in touch[i]]
        tot = float(W[:, c].sum())
        if not abs(tot - 1) <= tol * max(1, len(node_ids)):
            return [('e2n-effective:shares-do-not-sum-to-one', f'the shares of the element at position {j} sum to {tot!r}',
                     {'element_position': j, 'sum': tot})]
        for k, i in enumerate(node_ids):
            if k not in own and abs(W[k, c]) > tol:
                return [('e2n-effective:share-to-foreign-node', f'node {i} receives a share of an element it does not belong to',
                         {'node': i, 'element_position': j, 'share': float(W[k, c])})]
        sh = [float(W[k, c]) for k in own]
        if sh and max(sh) - min(sh) > tol:
            return [('e2n-effective:unequal-shares', f'the nodes of the element at position {j} do not receive equal shares',
                     {'element_position': j, 'shares': sh})]
    return []


def tie_e2n(ctx, m, rows, mode, wkind, weights, real, case):
    width = len(rows[0])
    wk = {'false': 0, 'explicit': 1, 'implicit': 2}[wkind]
    ws = C.enc_list(weights if wkind == 'explicit' else [], C.enc_rat)
    rep = ctx.driver.ask(f'c14.e2n {mode} {wk} {G.enc_mesh(m)} {ws} {enc_cols(rows, width)}')
    if rep == 'ok nometric':
        ctx.count('model:nometric')
        return
    t = C.Toks(rep)
    if t.tok() != 'ok':
        raise RuntimeError('driver: ' + rep[:200])
    sc = max([1.0] + [abs(float(v)) for row in rows for v in row])
    implicit32 = wkind == 'implicit' and any(ty in ('hex', 'prism', 'pyr') for ty in m['blocks'])
    tol = (2e-5 if implicit32 else TOL) * sc
    n = t.nat()
    if n != len(m['nodes']):
        ctx.disagree('convert_elemental2nodal: number of rows', case, len(real), n)
        return
    for k in range(n):
        nid = t.nat()
        vals = t.lst(lambda: t.rat() if t.nat() == 1 else None)
        for w, v in enumerate(vals):
            got = real[k, w]
            ok = v is not None and abs(float(v) - got) <= tol
            if not ok:
                ctx.disagree(f'convert_elemental2nodal mode={mode} weight={wkind}', case,
                             {'node': nid, 'column': w, 'value': None if got != got else float(got)},
                             None if v is None else float(v))
                return


def check_order1(m, rows, explicit=False):
    """oracle only: order1_only=True on tet2 (rows = first-order nodes in storage order); explicit=True: the same conversion
    requested through the documented `incidence=` parameter (incidence = calculate_incidence_matrix(order1_only=True), i.e. an
    incidence matrix over another node set than the full connectivity) with order1_only left at its default"""
    fd = K.to_fem(m)
    fl = flat_elems(m)
    x = as_array(rows)
    out = []
    corner = set(n for _, _, c in fl for n in c[:4])
    for mode in ('mean', 'effective'):
        with np.errstate(all='ignore'):
            if explicit:
                type(fd).calculate_incidence_matrix.cache_clear()
                inc = G.quiet(fd.calculate_incidence_matrix, order1_only=True)
                w_ = Watch('convert_elemental2nodal(first-order incidence=)', data=x, incidence=inc)
                r = np.asarray(G.quiet(fd.convert_elemental2nodal, x, mode=mode, weight=False, incidence=inc), float)
            else:
                w_ = Watch('convert_elemental2nodal(order1_only=True)', data=x)
                r = np.asarray(G.quiet(fd.convert_elemental2nodal, x, mode=mode, order1_only=True, weight=False), float)
            w_.check(f'mode={mode}')
        ids = [i for i, _ in m['nodes'] if i in corner]
        if len(r) != len(ids):
            # unreferenced nodes are also "first order" for femio's filter: accept rows for all non-mid nodes
            mids = set(n for _, _, c in fl for n in c[4:])
            ids = [i for i, _ in m['nodes'] if i not in mids]
        if len(r) != len(ids):
            out.append(('e2n-order1:shape', 'order1_only: unexpected number of rows', {'rows': len(r), 'first_order_nodes': len(ids)}))
            continue
        touch = {i: [j for j, (_, _, c) in enumerate(fl) if i in c[:4]] for i in ids}
        for k, i in enumerate(ids):
            js = touch[i]
            if not js:
                continue
            if mode == 'mean':
                want = x[js].mean(axis=0)
            else:
                want = x[js].sum(axis=0) / 4
            if not np.allclose(r[k], want, rtol=0, atol=TOL * max(1, np.abs(x).max())):
                out.append((f'e2n-order1:{mode}' + (':explicit-incidence' if explicit else ''),
                            ('explicit first-order incidence=' if explicit else 'order1_only') + f', node {i}: wrong value '
                            + ('(not the mean of the touching elements)' if mode == 'mean' else '(not the sum of equal shares 1/4)'),
                            {'got': r[k].tolist(), 'expected': want.tolist()}))
                break
        else:
            if mode == 'effective' and not np.allclose(r.sum(axis=0), x.sum(axis=0), rtol=0, atol=TOL * max(1, np.abs(x).max()) * len(x)):
                out.append(('e2n-order1:effective:total' + (':explicit-incidence' if explicit else ''),
                            'grand total not conserved (effective, first-order nodes)',
                            {'in': x.sum(axis=0).tolist(), 'out': r.sum(axis=0).tolist()}))
    return out


def tie_order1(ctx, m, rows, explicit, case):
    """model tie for order1_only=True / an explicit first-order incidence: e2nMean / e2nEffective over
    Femio.C13.incidenceOpt true (rows = order1Nodes), exact rationals"""
    fd = K.to_fem(m)
    x = as_array(rows)
    width = len(rows[0])
    for mode in ('mean', 'effective'):
        try:
            with np.errstate(all='ignore'):
                if explicit:
                    type(fd).calculate_incidence_matrix.cache_clear()
                    inc = G.quiet(fd.calculate_incidence_matrix, order1_only=True)
                    real = np.asarray(G.quiet(fd.convert_elemental2nodal, x, mode=mode, weight=False, incidence=inc), float)
                else:
                    real = np.asarray(G.quiet(fd.convert_elemental2nodal, x, mode=mode, order1_only=True, weight=False), float)
        except Exception:
            return      # the oracle (check_order1) reports exceptions
        rep = ctx.driver.ask(f'c14.e2n1 {mode} {G.enc_mesh(m)} {enc_cols(rows, width)}')
        if rep == 'ok unsupported':
            ctx.count('model:order1-unsupported')
            return
        t = C.Toks(rep)
        if t.tok() != 'ok':
            raise RuntimeError('driver: ' + rep[:200])
        ctx.count('tie:order1' + (':explicit-incidence' if explicit else ''))
        sc = max([1.0] + [abs(float(v)) for row in rows for v in row])
        n = t.nat()
        what = f'convert_elemental2nodal mode={mode} ' + ('incidence=<first-order incidence>' if explicit else 'order1_only=True')
        if n != len(real):
            ctx.disagree(what + ': number of rows', case, len(real), n)
            return
        for k in range(n):
            nid = t.nat()
            vals = t.lst(lambda: t.rat() if t.nat() == 1 else None)
            for w, v in enumerate(vals):
                got = real[k, w] if real.ndim == 2 else real[k]
                if v is None or not abs(float(v) - got) <= TOL * sc:
                    ctx.disagree(what, case, {'node': nid, 'column': w, 'value': None if got != got else float(got)},
                                 None if v is None else float(v))
                    return


# ------------------------------------------------------------------------------------------ run

def e2n_block(ctx, rng, m, mj, k, shared, stream=None, wscale=1, tie=True, combos=None, incidence=None):
    """the elemental -> nodal cases of one mesh (main loop: stream=None; the random draws are those of the original inline
    code).  stream: label of a separately counted stream (part of the case key and of the replay input); wscale: factor on
    the explicit weights (absolute-scale stream: the weights are as small as the elements); incidence: see run_e2n"""
    fl = flat_elems(m)
    ne = len(fl)
    tag = () if stream is None else (stream,)
    for mode, wkind in (combos or [('mean', 'implicit'), ('mean', 'explicit'), ('mean', 'false'), ('effective', 'none')]):
        width = rng.randint(1, 6)
        style = rng.choice(['dyadic', 'int', 'const', 'indicator'])
        one_d = width == 1 and rng.random() < .3
        cols = None
        if style == 'indicator':
            width = min(ne, 6)
            js = rng.sample(range(ne), width)
            fld = [[F(int(j == jj)) for jj in js] for j in range(ne)]
            one_d = False
            cols = list(js)
        else:
            fld = gen_field(rng, ne, width, style)
        weights = [F(rng.randint(1, 64), 8) * wscale for _ in range(ne)] if wkind == 'explicit' else None
        wk = wkind if mode == 'mean' else 'none'
        if wkind == 'implicit' and K.is_shell(m):
            # areas are irrational: the model gets the real metrics as explicit weights (C11 ties the metrics)
            tm = true_metrics(m)
        case = {'check': 'e2n', 'mesh': mj, 'field': field_json(fld), 'mode': mode, 'weights_kind': wk, 'one_d': one_d,
                'weights': None if weights is None else [str(w) for w in weights]}
        if stream is not None:
            case['stream'] = stream
        if incidence is not None:
            case['incidence'] = incidence
        if cols is not None:
            case['indicator_cols'] = cols
        fails, real, err = check_e2n(m, fld, mode, wk, weights, one_d, incidence, cols)
        ctx.case(tag + ('e2n', k, mode, wk, width, style),
                 sample={'check': 'e2n', 'mesh': G.describe(m), 'mode': mode, 'weights': wk, 'width': width, 'field': style}
                 if 2 <= len(ctx.samples) < 5 else None, nontrivial=shared)
        ctx.count(f'e2n:{mode}:{wk}:' + (err.split(':')[0] if err else 'ok') + ('' if stream is None else ':' + stream))
        for sig, what, obs in fails:
            ctx.fail(sig, what, case, obs)
        small = {k_: v for k_, v in case.items() if k_ != 'mesh'} | {'mesh': G.describe(m)}
        drain_arg_events(ctx, small)
        if real is None or ctx.driver is None or not tie:
            continue
        if mode == 'effective':
            tie_e2n(ctx, m, fld, mode, 'false', None, real, small)
        elif wkind == 'implicit' and (K.is_shell(m) or len(m['blocks']) > 1):
            # implicit weights of shells (irrational) and of mixed meshes (C11 finding: bound to the wrong elements):
            # the model is given what calculate_element_metrics returns on this mesh
            fd = K.to_fem(m)
            mt = np.asarray(G.quiet(fd.calculate_element_metrics), float).ravel()
            tie_e2n(ctx, m, fld, mode, 'explicit', [F(float(v)) for v in mt], real, small)
            ctx.count('tie:implicit-as-explicit')
        else:
            tie_e2n(ctx, m, fld, mode, wk, weights, real, small)



def run(ctx):
    rng = ctx.rng
    kinds = ['tet', 'hex', 'shell:tri', 'shell:quad', 'mixed-nopyr', 'tet2', 'prism', 'shell:mixed', 'mixed', 'pyr']
    n_mesh = ctx.n(200, 1500) if ctx.driver is not None else ctx.n(400, 3000)
    for k in range(n_mesh):
        kind = kinds[k % len(kinds)]
        m = gen_mesh(rng, kind)
        fl = flat_elems(m)
        nn, ne = len(m['nodes']), len(fl)
        ctx.count('mesh:' + kind)
        ctx.count('order:' + str(m.get('order')))
        ctx.count('ids:' + str(m.get('id_style')))
        ctx.count('unreferenced-nodes:' + ('yes' if m.get('n_unref') else 'no'))
        shared = ne >= 2
        mj = G.to_json(m)
        # ---- nodal -> elemental
        width = rng.randint(1, 6)
        style = rng.choice(['dyadic', 'int', 'affine', 'const'])
        one_d = False        # 1-D nodal data is rejected by convert_nodal2elemental (it indexes [rows, :])
        pos = [p for _, p in m['nodes']]
        fld = gen_field(rng, nn, width, style, pos)
        aff = None
        if isinstance(fld, tuple):
            fld, aff = fld
        int_dtype = style == 'int' and (k // len(kinds)) % 2 == 0        # integer field handed over as an int64 array
        case = {'check': 'n2e', 'mesh': mj, 'field': field_json(fld), 'one_d': one_d, 'int_dtype': int_dtype,
                'affine': None if aff is None else [[[str(v) for v in r] for r in aff[0]], [str(v) for v in aff[1]]]}
        fails, real, err = check_n2e(m, fld, aff, one_d, int_dtype)
        if int_dtype:
            ctx.count('n2e:field-dtype:int64')
        ctx.case(('n2e', k, width, style), sample={'check': 'n2e', 'mesh': G.describe(m), 'width': width, 'field': style}
                 if len(ctx.samples) < 2 else None, nontrivial=shared)
        ctx.count('n2e:' + (err.split(':')[0] if err else 'ok') + (':mixed' if len(m['blocks']) > 1 else ''))
        ctx.count('field:' + style + (':1d' if one_d else f':w{width}'))
        for sig, what, obs in fails:
            ctx.fail(sig, what, case, obs)
        drain_arg_events(ctx, {k_: v for k_, v in case.items() if k_ != 'mesh'} | {'mesh': G.describe(m)})
        if real is not None and ctx.driver is not None:
            tie_n2e(ctx, m, fld, real, {k_: v for k_, v in case.items() if k_ != 'mesh'} | {'mesh': G.describe(m)})
        # ---- elemental -> nodal
        e2n_block(ctx, rng, m, mj, k, shared)
        if kind == 'tet2':
            fld = gen_field(rng, ne, 3, 'int')
            ctx.case(('order1', k))
            ctx.count('order1_only')
            for sig, what, obs in check_order1(m, fld):
                ctx.fail(sig, what, {'check': 'order1', 'mesh': mj, 'field': field_json(fld)}, obs)
            ctx.case(('order1-explicit-incidence', k))
            ctx.count('order1:explicit-incidence')
            for sig, what, obs in check_order1(m, fld, explicit=True):
                ctx.fail(sig, what, {'check': 'order1', 'explicit': True, 'mesh': mj, 'field': field_json(fld)}, obs)
            drain_arg_events(ctx, {'check': 'order1', 'mesh': G.describe(m), 'field': field_json(fld)})
            if ctx.driver is not None:
                for ex in (False, True):
                    tie_order1(ctx, m, fld, ex, {'check': 'order1', 'explicit': ex, 'mesh': G.describe(m)})
    # ---- histories: convert a named field, overwrite it, convert again on the same object (drawn after the main loop so
    #      that its cases are unchanged for a given seed)
    hkinds = ['tet', 'hex', 'shell:tri', 'shell:quad', 'tet2', 'prism', 'pyr', 'tet', 'shell:mixed', 'hex']
    n_hist = ctx.n(120, 800) if ctx.driver is not None else ctx.n(240, 1600)
    for k in range(n_hist):
        history_case(ctx, rng, k, hkinds[k % len(hkinds)])
    # ---- the e2n / n2e laws at other ABSOLUTE scales (inside the quantifier: "every mesh with positive elements")
    akinds = ['tet', 'shell:tri', 'hex', 'shell:quad', 'tet2', 'mixed-nopyr', 'prism', 'shell:mixed']
    for k in range(ctx.n(64, 480) if ctx.driver is not None else ctx.n(128, 960)):
        kind = akinds[k % len(akinds)]
        s = K.ABS_SCALES[(k // len(akinds) + k % len(akinds)) % len(K.ABS_SCALES)]
        m = K.scaled_mesh(gen_mesh(rng, kind), s)
        ne = len(flat_elems(m))
        ctx.count(f'absolute-scale:{kind}:2^{s.numerator.bit_length() - s.denominator.bit_length()}')
        mj = G.to_json(m)
        e2n_block(ctx, rng, m, mj, k, ne >= 2, stream='absolute-scale', wscale=s ** (2 if K.is_shell(m) else 3),
                  incidence='explicit-full' if k % 4 == 3 else None)
        width = rng.randint(1, 3)
        fld, aff = gen_field(rng, len(m['nodes']), width, 'affine', [p for _, p in m['nodes']])
        case = {'check': 'n2e', 'stream': 'absolute-scale', 'mesh': mj, 'field': field_json(fld), 'one_d': False,
                'affine': [[[str(v) for v in r] for r in aff[0]], [str(v) for v in aff[1]]]}
        fails, real, err = check_n2e(m, fld, aff, False)
        ctx.case(('absolute-scale', 'n2e', k, width), nontrivial=ne >= 2)
        ctx.count('n2e:' + (err.split(':')[0] if err else 'ok') + ':absolute-scale')
        for sig, what, obs in fails:
            ctx.fail(sig, what, case, obs)
        drain_arg_events(ctx, {k_: v for k_, v in case.items() if k_ != 'mesh'} | {'mesh': G.describe(m)})
    # ---- stream `repeated-nodes`: degenerate elements that list a node twice (collapsed hex = wedge / pyramid, collapsed quad =
    #      triangle), as structured mesh generators emit them; see ASSUMPTIONS
    for k in range(ctx.n(32, 240) if ctx.driver is not None else ctx.n(64, 480)):
        m = gen_degenerate(rng, k)
        ne = len(flat_elems(m))
        tm = true_metrics(m)
        positive = tm is not None and all(v > 0 for v in tm.values())
        ctx.count('repeated-nodes:' + m['kind'] + (':all-metrics-positive' if positive else ':some-metric-not-positive (implicit weights skipped)'))
        combos = [('effective', 'none'), ('mean', 'false'), ('mean', 'explicit')] + ([('mean', 'implicit')] if positive else [])
        e2n_block(ctx, rng, m, G.to_json(m), k, ne >= 2, stream='repeated-nodes', combos=combos, tie=True)
    # ---- stream `e2n-sequence`: several conversions on ONE object REUSING the same argument objects (incidence= matrix in
    #      every sparse format / dtype, weight= array, data arrays), graded meshes (clearly unequal element sizes)
    for k in range(ctx.n(77, 704) if ctx.driver is not None else ctx.n(154, 1408)):
        sequence_case(ctx, rng, k)
    # ---- stream `dtype-layout`: every field dtype x memory layout for both conversions (inside the quantifier: "every field")
    for k in range(ctx.n(88, 704) if ctx.driver is not None else ctx.n(176, 1408)):
        dtype_layout_case(ctx, rng, k)


# ------------------------------------------------------------------------------------------ stream dtype-layout

DL_KINDS = ['hex', 'tet', 'shell:quad', 'shell:tri', 'tet2', 'prism', 'mixed-nopyr', 'shell:mixed']


def dtype_layout_case(ctx, rng, k):
    """one mesh x one dtype (kinds and dtypes cycle with coprime periods: every pair within 88 cases) x a random layout:
    nodal -> elemental (array argument, or the array registered as a nodal variable and converted by name) and two of the four
    elemental -> nodal conversions, fields (n, 1) / (n, k) (elemental -> nodal also (n,)), same oracle as the main loop with the
    expectation computed from the exact values"""
    kind, dt = DL_KINDS[k % len(DL_KINDS)], DTYPES[k % len(DTYPES)]
    layout = LAYOUTS[(k // len(DTYPES) + k) % len(LAYOUTS)] if rng.random() < .5 else rng.choice(LAYOUTS)
    form = [dt, layout]
    rtol = RTOL32 if dt == 'float32' else None
    m = gen_mesh(rng, kind)
    mj = G.to_json(m)
    fl = flat_elems(m)
    nn, ne = len(m['nodes']), len(fl)
    shared = ne >= 2
    ctx.count('dtype-layout:dtype:' + dt)
    ctx.count('dtype-layout:layout:' + layout)
    # ---- nodal -> elemental
    width = rng.choice([1, 1, 2, 3, 4])
    fld, style = gen_field_dtype(rng, nn, width, dt)
    by_name = rng.random() < .3
    case = {'check': 'n2e', 'stream': 'dtype-layout', 'mesh': mj, 'field': field_json(fld), 'one_d': False, 'form': form,
            'by_name': by_name, 'affine': None}
    small = {k_: v for k_, v in case.items() if k_ not in ('mesh', 'field')} | {'mesh': G.describe(m), 'values': style}
    try:
        fails, real, err = check_n2e(m, fld, None, False, form=form, by_name=by_name, rtol=rtol)
    except Exception as e:  # noqa  (ValueError of the ragged mixed gather is `err`; anything else on an in-quantifier field is a failure)
        fails, real, err = [('n2e:raises:' + type(e).__name__, f'convert_nodal2elemental raised {type(e).__name__}: {e} on a {dt} field '
                             f'of shape ({nn}, {width}) [{layout}]', {'exception': repr(e)})], None, 'raises'
    ctx.case(('dtype-layout', 'n2e', k, dt, layout, width), sample={'check': 'n2e', 'stream': 'dtype-layout', 'mesh': G.describe(m),
             'dtype': dt, 'layout': layout, 'width': width, 'values': style, 'by_name': by_name}
             if ctx.dist.get('dtype-layout:n2e:ok', 0) == 0 and not err else None, nontrivial=shared)
    ctx.count('dtype-layout:n2e:' + (err.split(':')[0] if err else 'ok'))
    if not err:
        ctx.count(f'dtype-layout:n2e:{dt}:values-{style}')
    for sig, what, obs in fails:
        ctx.fail(sig + ':' + ('float' if dt.startswith('float') else 'integer-or-bool') + '-field', what + f' [field dtype {dt}, layout {layout}, values {style}]',
                 case, dict(obs, dtype=dt, layout=layout))
    drain_arg_events(ctx, small)
    if real is not None and ctx.driver is not None:
        tie_n2e(ctx, m, fld, real, small, rtol=rtol)
    # ---- elemental -> nodal
    for mode, wkind in rng.sample(SEQ_OPS, 2):
        wk = wkind if mode == 'mean' else 'none'
        if wk == 'implicit' and 'pyr' in m['blocks']:
            wk = 'explicit'
        width = rng.choice([1, 1, 2, 3])
        one_d = width == 1 and rng.random() < .5
        fld, style = gen_field_dtype(rng, ne, width, dt)
        weights = [F(rng.randint(1, 64), 8) for _ in range(ne)] if wk == 'explicit' else None
        case = {'check': 'e2n', 'stream': 'dtype-layout', 'mesh': mj, 'field': field_json(fld), 'mode': mode, 'weights_kind': wk,
                'one_d': one_d, 'weights': None if weights is None else [str(w) for w in weights], 'form': form}
        small = {k_: v for k_, v in case.items() if k_ not in ('mesh', 'field')} | {'mesh': G.describe(m), 'values': style}
        try:
            fails, real, err = check_e2n(m, fld, mode, wk, weights, one_d, form=form, rtol=rtol)
        except Exception as e:  # noqa
            fails, real, err = [(f'e2n-{mode}:raises:' + type(e).__name__, f'convert_elemental2nodal(mode={mode}, weights {wk}) raised '
                                 f'{type(e).__name__}: {e} on a {dt} field [{layout}]', {'exception': repr(e)})], None, 'raises'
        ctx.case(('dtype-layout', 'e2n', k, mode, wk, dt, layout, width, one_d), nontrivial=shared)
        ctx.count(f'dtype-layout:e2n:{mode}:{wk}:' + (err.split(':')[0] if err else 'ok'))
        if not err:
            ctx.count(f'dtype-layout:e2n:{dt}' + (':1d' if one_d else ''))
        for sig, what, obs in fails:
            ctx.fail(sig + ':' + ('float' if dt.startswith('float') else 'integer-or-bool') + '-field', what + f' [field dtype {dt}, layout {layout}, values {style}]',
                     case, dict(obs, dtype=dt, layout=layout))
        drain_arg_events(ctx, small)
        if real is not None and ctx.driver is not None and rtol is None and not (wk == 'implicit' and (K.is_shell(m) or len(m['blocks']) > 1)):
            tie_e2n(ctx, m, fld, mode, 'false' if mode == 'effective' else wk, weights, real, small)


# ------------------------------------------------------------------------------------------ stream e2n-sequence

SEQ_KINDS = ['tet', 'hex', 'shell:tri', 'shell:quad', 'tet2', 'mixed-nopyr', 'prism', 'shell:mixed']
# how the documented `incidence=` argument is supplied: not at all (the object's lru-cached matrix is used), the very object
# calculate_incidence_matrix() returned (= the cached one), or an own copy in every sparse format x dtype
INC_KINDS = ['none', 'cached-object'] + [f'{f}:{d}' for d in ('bool', 'int64', 'float64') for f in ('csr', 'csc', 'coo')]
SEQ_OPS = [('mean', 'implicit'), ('mean', 'explicit'), ('mean', 'false'), ('effective', 'none')]
SEQ_PAIRS = [(a, b) for a in SEQ_OPS for b in SEQ_OPS]


def graded(rng, m):
    """image of the mesh under the projective map p -> c + (p - c) / (1 + a.(p - c)), coordinates rounded to multiples of 2^-24
    (exact in binary64).  Where the denominator d is positive the map preserves orientation, lines and planes, so straight
    positive elements stay positive; volumes change by the factor d^-4 (areas ~ d^-3) with d between 2/5 and 8/5 across the
    mesh: element sizes become CLEARLY unequal (the generator meshes are affine images of uniform bricks)"""
    used = {n for b in m['blocks'].values() for _, c in b for n in c}
    P = [p for i, p in m['nodes'] if i in used]
    lo = [min(p[k] for p in P) for k in range(3)]
    hi = [max(p[k] for p in P) for k in range(3)]
    c = [(lo[k] + hi[k]) / 2 for k in range(3)]
    half = [(hi[k] - lo[k]) / 2 for k in range(3)]
    axes = [k for k in range(3) if half[k] > 0]
    parts = [rng.randint(1, 4) for _ in axes]
    a = [F(0)] * 3
    for k, t in zip(axes, parts):
        a[k] = rng.choice([-1, 1]) * F(3, 5) * F(t, sum(parts)) / half[k]
    q = 2 ** 24

    def f(p):
        d = 1 + sum(a[k] * (p[k] - c[k]) for k in range(3))
        return tuple(F(round((c[k] + (p[k] - c[k]) / d) * q), q) for k in range(3))
    out = dict(m)
    out['nodes'] = [(i, f(p) if i in used else p) for i, p in m['nodes']]
    out['graded'] = True
    return out


def gen_graded_mesh(rng, kind):
    if kind == 'tet2':
        m0 = G.gen_geometric(rng, kind='tet', max_cells=2)
        mg = graded(rng, m0)
        tm = true_metrics(mg)
        if tm is None or not all(v > 0 for v in tm.values()):
            mg = m0
        return G.promote_tet2(rng, mg), None
    m0 = gen_mesh(rng, kind)
    mg = graded(rng, m0)
    tm = true_metrics(mg)
    if tm is None or not all(v > 0 for v in tm.values()):
        return m0, None               # (never observed) a jittered cell turned over: keep the ungraded mesh
    return mg, tm


def gen_sequence(rng, k):
    """the JSON-able description of one case of the stream (= the replay input)"""
    kind = SEQ_KINDS[k % len(SEQ_KINDS)]
    m, sizes = gen_graded_mesh(rng, kind)
    fl = flat_elems(m)
    ne, nn = len(fl), len(m['nodes'])
    first = list(SEQ_PAIRS[(k + k // len(SEQ_PAIRS)) % len(SEQ_PAIRS)])
    ops = first + [rng.choice(SEQ_OPS) for _ in range(rng.randint(0, 2))]
    if 'pyr' in m['blocks']:        # calculate_element_metrics has no pyr branch (ASSUMPTIONS): explicit weights instead
        ops = [(mode, 'explicit' if wk == 'implicit' else wk) for mode, wk in ops]
    cols = sorted(rng.sample(range(ne), min(ne, 24, max(4, 16000 // (nn * ne)))))       # (cost of the exact model: ~ nn * ne * #columns)
    fields = {'A': [[F(int(j == jj)) for jj in cols] for j in range(ne)],          # indicator columns: the weights themselves
              'B': gen_field(rng, ne, rng.randint(1, 4), rng.choice(['dyadic', 'int', 'const']))}
    seq = []
    for mode, wk in ops:
        seq.append([mode, wk, rng.choice(['A', 'A', 'B'])])
        if rng.random() < .25 and len(m['blocks']) == 1:
            seq.append(['n2e', 'none', 'N'])
    int_w = rng.random() < .2
    weights = [F(rng.randint(1, 64)) if int_w else F(rng.randint(1, 64), 8) for _ in range(ne)]
    wdt = 'int64' if int_w else 'float64'
    if sizes is not None and rng.random() < .2:
        # weight= is the very array calculate_element_metrics() returned on this object (natural use; it may alias the stored
        # `metric`): the sizes the weights must be proportional to are the true element sizes
        wdt, weights = 'own-metrics', [F(sizes[e]) for e, _, _ in fl]
    return m, sizes, {'check': 'e2n-sequence', 'mesh': G.to_json(m), 'incidence': INC_KINDS[k % len(INC_KINDS)],
               'weights': [str(w) for w in weights], 'weights_dtype': wdt,
               'fields': {n_: field_json(f_) for n_, f_ in fields.items()}, 'indicator_cols': cols,
               'nodal_field': field_json(gen_field(rng, nn, rng.randint(1, 3), 'dyadic')), 'ops': seq}


def build_incidence(fd, kind):
    type(fd).calculate_incidence_matrix.cache_clear()
    if kind == 'none':
        return None
    inc = G.quiet(fd.calculate_incidence_matrix)
    if kind == 'cached-object':
        return inc
    fmt, dt = kind.split(':')
    out = inc.astype(np.dtype(dt)).asformat(fmt)
    return out.copy() if out is inc else out


def seq_args(m, spec):
    """a fresh object and freshly built argument objects for the sequence `spec`"""
    fd = K.to_fem(m)
    inc = build_incidence(fd, spec['incidence'])
    if spec.get('weights_dtype') == 'own-metrics':
        W = G.quiet(fd.calculate_element_metrics)
    else:
        W = np.array([[int(F(w)) if spec.get('weights_dtype') == 'int64' else float(F(w))] for w in spec['weights']],
                     dtype=np.int64 if spec.get('weights_dtype') == 'int64' else float)
    X = {n_: as_array(field_from_json(f_)) for n_, f_ in spec['fields'].items()}
    X['N'] = as_array(field_from_json(spec['nodal_field']))
    return fd, inc, W, X


def seq_call(fd, inc, W, X, op):
    mode, wk, fname = op
    if mode == 'n2e':
        return G.quiet(fd.convert_nodal2elemental, X['N'], calc_average=True)
    kw = {}
    if inc is not None:
        kw['incidence'] = inc
    if mode == 'mean' and wk == 'false':
        kw['weight'] = False
    elif mode == 'mean' and wk == 'explicit':
        kw['weight'] = W
    with np.errstate(all='ignore'):
        return G.quiet(fd.convert_elemental2nodal, X[fname], mode=mode, **kw)


def object_state(fd):
    st = {'nodes.ids': np.asarray(fd.nodes.ids).tobytes(), 'nodes.data': np.asarray(fd.nodes.data).tobytes()}
    for t, a in fd.elements.items():
        st[f'elements[{t}].ids'] = np.asarray(a.ids).tobytes()
        st[f'elements[{t}].data'] = np.asarray(a.data).tobytes()
    return st


def op_text(op):
    return 'nodal->elemental' if op[0] == 'n2e' else f'{op[0]}/{op[1]} on field {op[2]}' if op[0] == 'mean' else f'effective on field {op[2]}'


def run_sequence(m, spec, sizes=None):
    """(ii): the calls of spec['ops'] on ONE FEMData object with ONE set of argument objects (no other femio call in between),
    then - afterwards - every call again with freshly built arguments on a freshly built equal object.  Returns a dict:
    fails (signature, what, observed), steps [(op, result of the sequence, fresh result)], events (modified arguments)"""
    fl = flat_elems(m)
    ne, nn = len(fl), len(m['nodes'])
    ops = [list(o) for o in spec['ops']]
    weights = [F(w) for w in spec['weights']]
    fields = {n_: field_from_json(f_) for n_, f_ in spec['fields'].items()}
    nodal = field_from_json(spec['nodal_field'])
    fails, events = [], []

    def shape(r, rows):
        return np.array(r, dtype=float).reshape(rows, -1)          # a copy
    # ---- the sequence
    fd, inc, W, X = seq_args(m, spec)
    W0 = [F(v.item()) for v in np.asarray(W).ravel()]
    watch = Watch('sequence of conversions', incidence=inc, weight=W, **{'data_' + n_: x for n_, x in X.items()})
    st0 = object_state(fd)
    live, seq_res = [], []
    k = 0
    extended = False
    while k < len(ops):
        op = ops[k]
        try:
            r = seq_call(fd, inc, W, X, op)
        except Exception as e:
            fails.append((f'sequence:raises:{type(e).__name__}', f'call #{k + 1} ({op_text(op)}) of a sequence of conversions on one object '
                          f'raised {type(e).__name__}: {e}', {'call': k + 1, 'op': op, 'previous': ops[:k]}))
            ops = ops[:k]
            break
        live.append(r)
        seq_res.append(shape(r, ne if op[0] == 'n2e' else nn))
        evs = watch.check(f'after call #{k + 1} ({op_text(op)})')
        st1 = object_state(fd)
        for name in st0:
            if st0[name] != st1.get(name):
                ev = ('sequence of conversions', 'object:' + name, 'value', {'when': f'after call #{k + 1} ({op_text(op)})'})
                ARG_EVENTS.append(ev)
                evs.append(ev)
        st0 = st1
        events += evs
        k += 1
        if k == len(ops) and not extended and any(e[2] == 'value' for e in evs):
            # an argument was modified by the LAST call: what that does to the property shows on the next calls
            extended = True
            ops += [['mean', 'explicit', 'A'], ['effective', 'none', 'A'], ['mean', 'false', 'A']] \
                + ([['n2e', 'none', 'N']] if len(m['blocks']) == 1 else [])
    final = None
    try:
        inc_obj = inc if inc is not None else G.quiet(fd.calculate_incidence_matrix)      # 'none': the lru-cached matrix the calls used
        ri, ci, di = _canon_sparse(inc_obj)
        final = {'incidence': [(int(a_), int(b_), F(float(d_)) if not isinstance(d_, (bool, np.bool_)) else F(int(d_)))
                               for a_, b_, d_ in zip(ri, ci, di)],
                 'weight': [F(v.item()) for v in W.ravel()],
                 'data': {n_: [[F(v.item()) for v in row] for row in np.asarray(x).reshape(len(x), -1)] for n_, x in X.items()}}
    except Exception as e:      # the objects can no longer be read: the snapshot comparison has reported it
        final = {'error': repr(e)}
    live_changed = [k_ for k_, (r, s_) in enumerate(zip(live, seq_res))
                    if np.array(r, dtype=float).reshape(s_.shape).tobytes() != s_.tobytes()]
    # ---- afterwards: every call on fresh objects, the sizes for the implicit weights
    if sizes is None and any(o[:2] == ['mean', 'implicit'] for o in ops):
        sizes = true_metrics(m)
    steps = []
    for k, op in enumerate(ops):
        when = (f'call #{k + 1} of {len(ops)} on one object, argument objects reused (incidence={spec["incidence"]}); earlier calls: '
                + ('none' if k == 0 else ', '.join(op_text(o) for o in ops[:k])))
        suffix = ':after-earlier-calls' if k else ''
        try:
            fd2, inc2, W2, X2 = seq_args(m, spec)
            fr = shape(seq_call(fd2, inc2, W2, X2, op), ne if op[0] == 'n2e' else nn)
        except Exception as e:
            fails.append((f'sequence:raises:{type(e).__name__}', f'{op_text(op)} on a fresh object raised {type(e).__name__}: {e}',
                          {'op': op}))
            fr = None
        r = seq_res[k]
        if op[0] == 'n2e':
            ids = [e for e, _, _ in fl]
            fs = n2e_laws(m, ids, r, nodal, None, when)
            rows, tolk = nodal, TOL
        else:
            rows = fields[op[2]]
            own = spec.get('weights_dtype') == 'own-metrics'
            fs = e2n_laws(m, rows, op[0], op[1], weights, r, sizes=sizes, cols=spec['indicator_cols'] if op[2] == 'A' else None,
                          metric_weights=own)
            tolk = 2e-5 if ((op[1] == 'implicit' or (own and op[1] == 'explicit'))
                            and any(t in ('hex', 'prism', 'pyr') for t in m['blocks'])) else TOL
        for sig, what, obs in fs:
            fails.append((sig + suffix, what + ' [' + when + ']', dict(obs, call=k + 1, op=op)))
        sc = max([1.0] + [abs(float(v)) for row in rows for v in row])
        if fr is not None and fr.shape == r.shape:
            d = np.abs(fr - r)
            d = float(np.nanmax(d)) if d.size else 0.0
            same_nan = np.array_equal(np.isnan(fr), np.isnan(r))
            if not same_nan or d > 2 * tolk * sc:
                # both results obey the clause within the tolerance only if they agree within twice the tolerance
                name = 'n2e' if op[0] == 'n2e' else f'e2n-{op[0]}' + (f':{op[1]}' if op[0] == 'mean' else '')
                fails.append((f'{name}:depends-on-earlier-calls',
                              f'{op_text(op)}: the result differs from the result of the same call with equal, freshly built arguments '
                              f'on an equal, freshly built object [{when}]',
                              {'call': k + 1, 'op': op, 'max_abs_difference': d, 'field_scale': sc}))
        if k in live_changed:
            fails.append(('sequence:returned-array-changed-by-a-later-call',
                          f'the array returned by call #{k + 1} ({op_text(op)}) was changed by a later conversion', {'call': k + 1, 'op': op}))
        steps.append((op, r, fr))
    return {'fails': fails, 'steps': steps, 'events': events, 'ops': ops, 'sizes': sizes, 'final': final, 'W0': W0}


def sequence_case(ctx, rng, k):
    m, sizes, spec = gen_sequence(rng, k)
    fl = flat_elems(m)
    ne = len(fl)
    res = run_sequence(m, spec, sizes)
    small = {k_: v for k_, v in spec.items() if k_ not in ('mesh', 'fields', 'nodal_field')} | {'mesh': G.describe(m)}
    ctx.count('e2n-sequence:incidence=' + spec['incidence'])
    ctx.count('e2n-sequence:mesh:' + m['kind'] + (':graded' if m.get('graded') or m['kind'] == 'tet2' else ':not-graded'))
    if res['sizes']:
        v = sorted(res['sizes'].values())
        ctx.count('e2n-sequence:size-ratio(max/min):' + ('<1.5' if v[-1] < 1.5 * v[0] else '<4' if v[-1] < 4 * v[0] else '>=4'))
    ctx.count('e2n-sequence:weights-dtype:' + spec['weights_dtype'])
    for sig, what, obs in res['fails']:
        ctx.fail(sig, what, spec, obs)
    drain_arg_events(ctx, small)
    prev = None
    for j, (op, r, fr) in enumerate(res['steps']):
        ctx.case(('e2n-sequence', k, j, tuple(op), spec['incidence']),
                 sample={'check': 'e2n-sequence', 'mesh': G.describe(m), 'incidence': spec['incidence'], 'ops': spec['ops']}
                 if ctx.dist.get('e2n-sequence:calls', 0) == 0 else None, nontrivial=ne >= 2)
        ctx.count('e2n-sequence:calls')
        ctx.count(f'e2n-sequence:call:{op[0]}:{op[1]}' + (':first' if j == 0 else ':later'))
        if prev is not None and op[0] != 'n2e':
            ctx.count(f'e2n-sequence:pair:{prev[0]}/{prev[1]}->{op[0]}/{op[1]}')
        if op[0] != 'n2e':
            prev = op
        if fr is not None and fr.shape == r.shape and fr.tobytes() != r.tobytes():
            ctx.count('e2n-sequence:not-bit-identical-to-the-fresh-call (within tolerance)')
        if ctx.driver is None:
            continue
        if op[0] == 'n2e':
            tie_n2e(ctx, m, field_from_json(spec['nodal_field']), dict(zip([e for e, _, _ in fl], r.tolist())),
                    small | {'call': j + 1, 'op': op})
    if ctx.driver is not None:
        tie_history(ctx, m, spec, res, small)


def tie_history(ctx, m, spec, res, small):
    """model tie of one sequence: `e2nHistory` (Model/Convert.lean) is run by the driver on all elemental -> nodal calls of the
    sequence (as many columns per call as the cost of the exact evaluation allows; the model converts column by column).  Compared:
    every returned column with the real result of that call, and the argument objects the MODEL returns at the end of the history
    (theorem C14_history_fresh: the incidence object, the weights and the data are unchanged) with the LIVE Python objects after
    the real sequence, value by value (exact rationals)."""
    fl = flat_elems(m)
    ne, nn = len(fl), len(m['nodes'])
    fields = {n_: field_from_json(f_) for n_, f_ in spec['fields'].items()}
    weights = res['W0']             # what femio was given (own-metrics: the array calculate_element_metrics returned)
    sized = None if res['sizes'] is None else [F(res['sizes'][e]) for e, _, _ in fl]
    calls, meta = [], []
    for j, (op, r, fr) in enumerate(res['steps']):
        if op[0] == 'n2e':
            continue
        fld = fields[op[2]]
        ncol = max(1, min(len(fld[0]), 12000 // (nn * ne * (max(1, nn // 8) if op[0] == 'effective' else 1))))
        implicit_as_explicit = op[1] == 'implicit' and (K.is_shell(m) or len(m['blocks']) > 1)
        if implicit_as_explicit:
            ctx.count('tie:implicit-as-explicit')
        wk, ws = ((0, []) if op[0] == 'effective' or op[1] == 'false' else (1, sized) if implicit_as_explicit
                  else (1, weights) if op[1] == 'explicit' else (2, []))
        for c in [(c_ * len(fld[0])) // ncol for c_ in range(ncol)]:
            calls.append(f"{op[0]} {wk} {C.enc_list(ws, C.enc_rat)} {C.enc_list([row[c] for row in fld], C.enc_rat)}")
            meta.append((j, op, c, wk == 1 and not implicit_as_explicit))
    if not calls:
        return
    rep = ctx.driver.ask(f'c14.hist {G.enc_mesh(m)} {len(calls)} ' + ' '.join(calls))
    if rep == 'ok nometric':
        ctx.count('model:nometric')
        return
    t = C.Toks(rep)
    if t.tok() != 'ok':
        raise RuntimeError('driver: ' + rep[:200])
    ctx.count('tie:history')
    cols = t.lst(lambda: t.lst(t.rat))
    pairs = t.lst(lambda: (t.nat(), t.nat()))
    after = t.lst(lambda: (t.lst(t.rat), t.lst(t.rat)))
    for (j, op, c, _), col in zip(meta, cols):
        r = res['steps'][j][1]
        fld = fields[op[2]]
        sc = max([1.0] + [abs(float(v)) for row in fld for v in row])
        # float32: the implicit weights of hex / prism / pyr come from float32 kernels, and so does weight= when it is the array
        # calculate_element_metrics() returned (own-metrics): femio then weights and normalises in float32 (bool x float32)
        f32 = (op[1] == 'implicit' or (op[1] == 'explicit' and spec.get('weights_dtype') == 'own-metrics')) \
            and any(ty in ('hex', 'prism', 'pyr') for ty in m['blocks'])
        tol = (2e-5 if f32 else TOL) * sc
        bad = [k for k in range(nn) if not abs(float(col[k]) - r[k, c]) <= tol] if len(col) == nn else [0]
        if bad:
            k = bad[0]
            ctx.disagree(f'convert_elemental2nodal mode={op[0]} weight={op[1]} (call #{j + 1} of a history on one object)',
                         small | {'call': j + 1, 'op': op, 'column': c},
                         {'node': m['nodes'][k][0], 'value': None if r[k, c] != r[k, c] else float(r[k, c])}, float(col[k]) if len(col) == nn else None)
            break
    # the argument objects at the end: model (unchanged, C14_history_fresh) vs the live objects
    fin = res['final']
    if fin is None or 'error' in fin:
        ctx.disagree('arguments after the history: the live argument objects cannot be read', small, fin, 'unchanged')
        return
    live_inc = sorted((a_, b_) for a_, b_, _ in fin['incidence'])
    if live_inc != sorted(pairs) or any(v != 1 for _, _, v in fin['incidence']):
        wrong = [(a_, b_, float(v)) for a_, b_, v in fin['incidence'] if v != 1][:3]
        ctx.disagree(f'arguments after the history: the incidence object (incidence={spec["incidence"]}) is no longer the Boolean '
                     'incidence matrix (model: e2nHistory returns the incidence object unchanged)', small,
                     {'stored_entries': len(live_inc), 'entries_not_equal_to_one': wrong}, {'stored_entries': len(pairs), 'all_values': 1})
    for (j, op, c, w_is_W), (ws_after, col_after) in zip(meta, after):
        live_col = [row[c] for row in fin['data'][op[2]]]
        if col_after != live_col:
            ctx.disagree('arguments after the history: a data array differs from what the model returns (unchanged)', small
                         | {'call': j + 1, 'op': op, 'column': c}, [float(v) for v in live_col][:8], [float(v) for v in col_after][:8])
            break
        if w_is_W and ws_after != fin['weight']:
            ctx.disagree('arguments after the history: the weight array differs from what the model returns (unchanged)', small
                         | {'call': j + 1, 'op': op}, [float(v) for v in fin['weight']][:8], [float(v) for v in ws_after][:8])
            break


def gen_degenerate(rng, k):
    """hex / quad mesh in which a random non-empty subset of the elements is collapsed by repeating node ids:
    hex -> wedge [0,1,2,2,4,5,6,6] or pyramid [0,1,2,3,4,4,4,4]; quad -> triangle [0,1,2,2] (the collapsed element no longer fills
    its cell - irrelevant here: the laws of C14 involve incidence and element sizes only)"""
    if k % 2 == 0:
        m = G.gen_geometric(rng, kind='hex', max_cells=2)
        t, pats = 'hex', [[0, 1, 2, 2, 4, 5, 6, 6], [0, 1, 2, 3, 4, 4, 4, 4], [0, 1, 1, 3, 4, 5, 5, 7]]
    else:
        m = K.gen_shell(rng, 'quad')
        t, pats = 'quad', [[0, 1, 2, 2], [0, 0, 1, 2], [0, 1, 1, 3]]
    rows = m['blocks'][t]
    chosen = set(rng.sample(range(len(rows)), rng.randint(1, len(rows))))
    new = []
    for i, (e, c) in enumerate(rows):
        if i in chosen:
            pat = rng.choice(pats)
            c = [c[j] for j in pat]
        new.append((e, c))
    m = dict(m)
    m['blocks'] = {t: new}
    m['kind'] = 'collapsed-' + t
    m['n_unref'] = len(m['nodes']) - len({n for _, c in new for n in c})
    return m


def history_case(ctx, rng, k, kind):
    """one case of the stream n2e-history"""
    m = gen_mesh(rng, kind)
    nn, ne = len(m['nodes']), len(flat_elems(m))
    width = rng.randint(1, 6)
    pos = [p for _, p in m['nodes']]
    fld1 = gen_field(rng, nn, width, rng.choice(['dyadic', 'int', 'const']))
    style2 = rng.choice(['dyadic', 'int', 'affine', 'affine'])
    fld2 = gen_field(rng, nn, width, style2, pos)
    aff = None
    if isinstance(fld2, tuple):
        fld2, aff = fld2
    how = rng.choice(HOW_OVERWRITE)
    case = {'check': 'n2e-history', 'mesh': G.to_json(m), 'field': field_json(fld1), 'field2': field_json(fld2), 'how': how,
            'affine2': None if aff is None else [[[str(v) for v in r] for r in aff[0]], [str(v) for v in aff[1]]]}
    fails, real1, real2, err = check_n2e_history(m, fld1, fld2, how, aff)
    ctx.case(('n2e-history', k, width, style2, how),
             sample={'check': 'n2e-history', 'mesh': G.describe(m), 'width': width, 'new_field': style2, 'how': how}
             if ctx.dist.get('n2e-history:ok', 0) < 1 and not err else None, nontrivial=ne >= 2 and fld1 != fld2)
    ctx.count('n2e-history:' + (err.split(':')[0] if err else 'ok'))
    if not err:
        ctx.count('n2e-history:how:' + how)
        ctx.count('n2e-history:mesh:' + kind)
        ctx.count('n2e-history:new-values:' + ('same-as-old' if fld1 == fld2 else 'different'))
    for sig, what, obs in fails:
        ctx.fail(sig, what, case, obs)
    drain_arg_events(ctx, {k_: v for k_, v in case.items() if k_ != 'mesh'} | {'mesh': G.describe(m)})
    if real2 is not None and ctx.driver is not None:
        small = {k_: v for k_, v in case.items() if k_ != 'mesh'} | {'mesh': G.describe(m)}
        tie_n2e(ctx, m, fld1, real1, small | {'step': 'first conversion'})
        tie_n2e(ctx, m, fld2, real2, small | {'step': 'conversion after the overwrite, model evaluated on the new values'})


def replay(ctx, obj):
    case = obj['input']
    m = G.from_json(case['mesh'])
    m['blocks'] = {t: m['blocks'][t] for t in G.ELEMENT_TYPES if t in m['blocks']}
    if case['check'] == 'e2n-sequence':
        res = run_sequence(m, case)
        evs = list(ARG_EVENTS)
        del ARG_EVENTS[:]
        return {'case': {k: v for k, v in case.items() if k not in ('mesh', 'fields', 'nodal_field')}, 'error': None,
                'calls': [{'op': op, 'max_abs_difference_to_fresh_call': None if fr is None or fr.shape != r.shape or not r.size
                           else float(np.nanmax(np.abs(fr - r)))} for op, r, fr in res['steps']],
                'arguments_modified': [{'argument': a, 'kind': kd, 'detail': d} for _, a, kd, d in evs],
                'failures': [{'signature': s_, 'what': w_, 'observed': o} for s_, w_, o in res['fails']], 'fails': bool(res['fails'])}
    fld = field_from_json(case['field'])
    if case['check'] == 'n2e-history':
        aff = case.get('affine2')
        if aff:
            aff = ([[F(v) for v in r] for r in aff[0]], [F(v) for v in aff[1]])
        fails, real1, real2, err = check_n2e_history(m, fld, field_from_json(case['field2']), case['how'], aff)
    elif case['check'] == 'n2e':
        aff = case.get('affine')
        if aff:
            aff = ([[F(v) for v in r] for r in aff[0]], [F(v) for v in aff[1]])
        form = case.get('form')
        fails, real, err = check_n2e(m, fld, aff, case.get('one_d', False), case.get('int_dtype', False), form=form,
                                     by_name=case.get('by_name', False), rtol=RTOL32 if form and form[0] == 'float32' else None)
    elif case['check'] == 'order1':
        fails, err = check_order1(m, fld, explicit=case.get('explicit', False)), None
    else:
        wk = case['weights_kind']
        w = None if case.get('weights') is None else [F(x) for x in case['weights']]
        form = case.get('form')
        fails, real, err = check_e2n(m, fld, case['mode'], wk, w, case.get('one_d', False), case.get('incidence'),
                                     case.get('indicator_cols'), form=form, rtol=RTOL32 if form and form[0] == 'float32' else None)
    return {'case': {k: v for k, v in case.items() if k not in ('mesh', 'field')}, 'error': err,
            'failures': [{'signature': s, 'what': w_, 'observed': o} for s, w_, o in fails], 'fails': bool(fails)}
