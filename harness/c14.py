"""C14 - nodal <-> elemental conversion preserves constants, bounds, totals (DESIGN.md section 4, C14).

Tie P/D: `convert_nodal2elemental(calc_average=True)` and `convert_elemental2nodal` (mode mean with weight None /
         explicit / False, mode effective) of real femio vs the exact rational evaluation of `Model/Convert.lean`
         (`c14.n2e`, `c14.e2n`) on meshes with arbitrary ids / storage order and fields of every width.
Oracle : the laws of the property on the returned arrays only (independent of the model): mean of own nodes, affine
         field reproduced at the vertex centroid, constants, range, weights (recovered with indicator fields)
         non-negative / row sums 1 / proportional to element size, effective: column sums 1, equal shares, totals.
Stream `n2e-history` ("convert, overwrite the named field, convert again on the same object"; inside the quantifier,
         reported through `fail`): a nodal field registered under a name is converted BY NAME, overwritten through the
         public API (nodal_data.overwrite with / without ids, set_attribute_data(allow_overwrite=True)) and converted by
         name again on the same object; the second result must be the mean of the NEW values (oracle) and equal the
         model's exact-rational evaluation on the new values (tie).
"""
from fractions import Fraction as F

import numpy as np

from . import common as C
from . import meshgen as G
from . import c11 as K

PROP = 'C14'
LEAN_MODULES = ['Femio.Props.C14']
THEOREMS = ['C14_mean_of_nodes', 'C14_mean_of_nodes_unknown_id', 'C14_affine_at_centroid', 'C14_mean_row_stochastic',
            'C14_incidence_of_mesh', 'C14_constants', 'C14_bounds', 'C14_weights_prop_size', 'C14_effective_colsum', 'C14_effective_total']
PARTIAL = ['order1_only=True / an explicit incidence= matrix: modelled for weight=False (e2nMean / e2nEffective over Femio.C13.incidenceOpt true, rows = order1Nodes; the C14 theorems are stated for an arbitrary Boolean incidence relation and cover it); with metric weights it is exercised by the oracle only',
           'convert_nodal2elemental without calc_average (plain gather / ravel) is covered by the gather lemma only']
RULE = ('seeded meshes (tri, quad, tri+quad, tet, tet2, hex, prism, pyr, hex+prism+pyr; affine / jittered; voids; unreferenced '
        'nodes; ids dense / sparse / large / huge / prefix-like; storage ascending / descending / shuffled; type blocks '
        'shuffled) x field widths 1-6 (and 1-D) with dyadic / integer / constant / affine / indicator values x '
        '{nodal->elemental, elemental->nodal mean with implicit / explicit / False weights, effective}; plus histories on one '
        'object: named nodal field converted by name, overwritten through the public API, converted by name again; a case is one '
        '(mesh, conversion, weights, field) evaluation; non-trivial when the mesh has at least two elements sharing a node; '
        'integer-valued nodal fields are handed over as int64 arrays every other round; tet2: order1_only=True and the same '
        'conversion through an explicit incidence= matrix (first-order incidence, another node set than the connectivity); '
        'stream `absolute-scale`: the same generator meshes scaled exactly by 2^-13 / 2^-10 / 2^10 (0.1 mm / 1 mm cells in metres, km '
        'cells) x all e2n conversions (explicit weights scaled by s^d; every 4th mesh with incidence= the mesh\'s own incidence '
        'matrix) + n2e of an affine field; stream `repeated-nodes`: hex / quad meshes with a random subset of elements collapsed by '
        'repeating node ids (wedge, pyramid, triangle) x {effective, mean with False / explicit / implicit weights}; '
        'distinct = distinct (mesh, conversion, weights, field) content')
ASSUMPTIONS = [
    'elements have positive metric and every node used by the laws touches an element (the row of an unreferenced node is an '
    'empty sparse row = 0 in femio and 0 * (1/0) = 0 in the model; compared, but no law is asserted for it)',
    'convert_nodal2elemental on a mesh mixing element types of different arity raises ValueError with numpy >= 1.24 '
    '(ragged array): counted in the "unsupported" stream, not a failure',
    'calculate_element_metrics has no branch for pyr (NotImplementedError): implicit weights on meshes with pyramids are '
    'counted in the "unsupported" stream',
    'absolute scale: the laws are homogeneous of degree 0 in the element sizes, femio has no absolute threshold in either '
    'conversion, so they are asserted unchanged on meshes scaled by 2^-13 .. 2^10 (tolerance relative to the field values only)',
    'elements with repeated node ids (stream `repeated-nodes`): "its nodes" are the DISTINCT nodes of the element (femio\'s '
    'incidence matrix is Boolean: a node listed twice is incident once) - effective: each distinct node receives value / '
    '#distinct nodes and the grand total is conserved; mean: the element enters a node\'s average once with its size. '
    'Collapsed hexes / quads have positive metric; treated as inside the quantifier ("every mesh with positive elements ... '
    'hex"), counted separately; nodal -> elemental is not run on them ("mean of its own nodes" is ambiguous with a repeated node)',
    'float arithmetic: results agree with the exact rational value within 1e-9 * max|x| (2e-5 * max|x| when the implicit '
    'weights come from the float32 centroid kernels)',
]
TRUSTED = ['C14: for shell meshes the implicit weights (areas, irrational) are taken from the real calculate_element_metrics and '
           'passed to the model as explicit weights; their correctness is C11\'s tie']

TOL = 1e-9


# ------------------------------------------------------------------------------------------ helpers

def flat_elems(m):
    """(eid, type, conn) in femio's flattened order: one block -> storage order; several -> ascending id"""
    rows = [(e, t, c) for t, b in m['blocks'].items() for e, c in b]
    if len(m['blocks']) > 1:
        rows.sort(key=lambda r: r[0])
    return rows


def gen_mesh(rng, kind):
    if kind.startswith('shell:'):
        return K.gen_shell(rng, kind[6:])
    if kind == 'tet2':
        return G.promote_tet2(rng, G.gen_geometric(rng, kind='tet', max_cells=2))
    if kind == 'mixed-nopyr':
        for _ in range(20):
            m = G.gen_geometric(rng, kind='mixed', max_cells=2)
            if 'pyr' not in m['blocks'] and len(m['blocks']) > 1:
                return m
        return m
    return G.gen_geometric(rng, kind=kind, max_cells=2)


def gen_field(rng, n, width, style, pos=None):
    """rows of exact Fractions"""
    if style == 'const':
        c = [F(rng.randint(-40, 40), 8) for _ in range(width)]
        return [list(c) for _ in range(n)]
    if style == 'int':
        return [[F(rng.randint(-1000, 1000)) for _ in range(width)] for _ in range(n)]
    if style == 'affine' and pos is not None:
        a = [[F(rng.randint(-16, 16), 4) for _ in range(3)] for _ in range(width)]
        b = [F(rng.randint(-16, 16), 2) for _ in range(width)]
        return [[sum(a[w][k] * p[k] for k in range(3)) + b[w] for w in range(width)] for p in pos], (a, b)
    return [[F(rng.randint(-2 ** 20, 2 ** 20), 2 ** rng.randint(0, 12)) for _ in range(width)] for _ in range(n)]


def as_array(rows, one_d=False, int_dtype=False):
    if int_dtype:          # integer-valued field handed over as an int64 array (what np.arange / counting produces)
        assert all(F(v).denominator == 1 for r in rows for v in r)
        a = np.array([[int(v) for v in r] for r in rows], dtype=np.int64)
    else:
        a = np.array([[float(v) for v in r] for r in rows], dtype=float)
    return a[:, 0] if one_d else a


def enc_cols(rows, width):
    cols = [[r[w] for r in rows] for w in range(width)]
    return C.enc_list(cols, lambda c: C.enc_list(c, C.enc_rat))


def field_json(rows):
    return [[str(v) for v in r] for r in rows]


def field_from_json(j):
    return [[F(v) for v in r] for r in j]


def true_metrics(m):
    """element id -> metric, from one uniform single-type FEMData per block (no mixed-mesh assembly involved)"""
    out = {}
    for t, b in m['blocks'].items():
        sub = dict(m)
        sub['blocks'] = {t: b}
        fd = K.to_fem(sub)
        try:
            v = G.quiet(fd.calculate_element_metrics, raise_negative_metric=False)
        except NotImplementedError:
            return None
        for (e, _), x in zip(b, np.asarray(v, float).ravel()):
            out[e] = float(x)
    return out


# ------------------------------------------------------------------------------------------ nodal -> elemental

def check_n2e(m, rows, affine=None, one_d=False, int_dtype=False):
    """oracle on the real API; returns (failures, real result or None, error)"""
    fd = K.to_fem(m)
    width = len(rows[0])
    x = as_array(rows, one_d, int_dtype)
    try:
        r = G.quiet(fd.convert_nodal2elemental, x, calc_average=True)
    except ValueError as e:
        return [], None, 'value_error:' + str(e)[:60]
    r = np.asarray(r, float).reshape(len(fd.elements.ids), -1)
    val = {i: rows[k] for k, (i, _) in enumerate(m['nodes'])}
    pos = dict(m['nodes'])
    sc = max([1.0] + [abs(float(v)) for row in rows for v in row])
    fails = []
    ids = [int(i) for i in fd.elements.ids]
    conn = {e: c for e, _, c in flat_elems(m)}
    for k, e in enumerate(ids):
        c = conn[e]
        want = [sum(val[n][w] for n in c) / len(c) for w in range(width)]
        if not all(abs(float(a) - b) <= TOL * sc for a, b in zip(want, r[k])):
            fails.append(('n2e:mean-of-own-nodes', f'element {e}: value is not the mean of its own nodes\' values',
                          {'element': e, 'expected': [float(a) for a in want], 'got': r[k].tolist()}))
            break
        if affine is not None:
            a, b = affine
            g = [sum(pos[n][j] for n in c) / len(c) for j in range(3)]
            atc = [sum(a[w][j] * g[j] for j in range(3)) + b[w] for w in range(width)]
            if not all(abs(float(u) - v) <= TOL * sc for u, v in zip(atc, r[k])):
                fails.append(('n2e:affine-at-centroid', f'element {e}: affine field not reproduced at the vertex centroid',
                              {'element': e, 'expected': [float(u) for u in atc], 'got': r[k].tolist()}))
                break
    return fails, dict(zip(ids, r.tolist())), None


def tie_n2e(ctx, m, rows, real, case):
    width = len(rows[0])
    rep = ctx.driver.ask(f'c14.n2e {G.enc_mesh(m)} {enc_cols(rows, width)}')
    t = C.Toks(rep)
    if t.tok() != 'ok':
        raise RuntimeError('driver: ' + rep[:200])
    sc = max([1.0] + [abs(float(v)) for row in rows for v in row])
    order = []
    for _ in range(t.nat()):
        e = t.nat()
        vals = t.lst(lambda: t.rat() if t.nat() == 1 else None)
        order.append(e)
        got = real.get(e)
        if got is None or any(v is None for v in vals) or not all(abs(float(a) - b) <= TOL * sc for a, b in zip(vals, got)):
            ctx.disagree('convert_nodal2elemental', case, got, [None if v is None else float(v) for v in vals])
            return
    if order != list(real):
        ctx.disagree('convert_nodal2elemental: element order', case, list(real)[:10], order[:10])


HOW_OVERWRITE = ['overwrite', 'overwrite', 'overwrite-with-ids', 'set_attribute_data']


def n2e_laws(m, ids, r, rows, affine, when):
    """mean of own nodes / affine at the vertex centroid for the result rows `r` (element ids `ids`) of field `rows`"""
    width = len(rows[0])
    val = {i: rows[k] for k, (i, _) in enumerate(m['nodes'])}
    pos = dict(m['nodes'])
    sc = max([1.0] + [abs(float(v)) for row in rows for v in row])
    conn = {e: c for e, _, c in flat_elems(m)}
    fails = []
    if len(r) != len(ids) or r.shape[1] != width:
        return [('n2e:shape', f'{when}: result has shape {r.shape} for {len(ids)} elements and a field of width {width}',
                 {'shape': list(r.shape)})]
    for k, e in enumerate(ids):
        c = conn[e]
        want = [sum(val[n][w] for n in c) / len(c) for w in range(width)]
        if not all(abs(float(a) - b) <= TOL * sc for a, b in zip(want, r[k])):
            fails.append(('n2e:mean-of-own-nodes', f'element {e}: value is not the mean of its own nodes\' (current) values ({when})',
                          {'element': e, 'expected': [float(a) for a in want], 'got': r[k].tolist(), 'when': when}))
            break
        if affine is not None:
            a, b = affine
            g = [sum(pos[n][j] for n in c) / len(c) for j in range(3)]
            atc = [sum(a[w][j] * g[j] for j in range(3)) + b[w] for w in range(width)]
            if not all(abs(float(u) - v) <= TOL * sc for u, v in zip(atc, r[k])):
                fails.append(('n2e:affine-at-centroid', f'element {e}: affine field not reproduced at the vertex centroid ({when})',
                              {'element': e, 'expected': [float(u) for u in atc], 'got': r[k].tolist(), 'when': when}))
                break
    return fails


def check_n2e_history(m, rows1, rows2, how, affine2=None, name='T'):
    """history on ONE object: register the nodal field `name` (rows1), convert it by name, overwrite it through the public
    API (rows2), convert it by name again with the same flags.  Returns (failures, real first result, real second result,
    error); results as {element id: row}"""
    fd = K.to_fem(m)
    x1, x2 = as_array(rows1), as_array(rows2)
    nids = np.array([i for i, _ in m['nodes']])
    G.quiet(fd.nodal_data.update_data, nids, {name: x1})
    try:
        r1 = G.quiet(fd.convert_nodal2elemental, name, calc_average=True)
    except ValueError as e:
        return [], None, None, 'value_error:' + str(e)[:60]
    r1 = np.array(r1, dtype=float).reshape(len(fd.elements.ids), -1)       # copy: taken before the overwrite
    if how == 'overwrite':
        G.quiet(fd.nodal_data.overwrite, name, x2)
    elif how == 'overwrite-with-ids':
        G.quiet(fd.nodal_data.overwrite, name, x2, ids=nids)
    elif how == 'set_attribute_data':
        G.quiet(fd.nodal_data.set_attribute_data, name, x2, allow_overwrite=True)
    else:
        raise ValueError(how)
    r2 = G.quiet(fd.convert_nodal2elemental, name, calc_average=True)
    r2 = np.array(r2, dtype=float).reshape(len(fd.elements.ids), -1)
    ids = [int(i) for i in fd.elements.ids]
    fails = n2e_laws(m, ids, r1, rows1, None, 'first conversion of the named field')
    fails += n2e_laws(m, ids, r2, rows2, affine2, f'conversion by name after the named field was overwritten [{how}]')
    return fails, dict(zip(ids, r1.tolist())), dict(zip(ids, r2.tolist())), None


# ------------------------------------------------------------------------------------------ elemental -> nodal

def run_e2n(m, rows, mode, wkind, weights, one_d=False, incidence=None):
    fd = K.to_fem(m)
    x = as_array(rows, one_d)
    kw = {}
    if incidence == 'explicit-full':      # the documented `incidence=` parameter, given the mesh's own incidence matrix
        type(fd).calculate_incidence_matrix.cache_clear()
        kw['incidence'] = G.quiet(fd.calculate_incidence_matrix)
    if wkind == 'false':
        kw['weight'] = False
    elif wkind == 'explicit':
        kw['weight'] = np.array([[float(w)] for w in weights], dtype=float)
    with np.errstate(all='ignore'):
        r = G.quiet(fd.convert_elemental2nodal, x, mode=mode, **kw)
    return np.asarray(r, float).reshape(len(m['nodes']), -1)


def check_e2n(m, rows, mode, wkind, weights, one_d=False, incidence=None):
    """oracle on the real API: the laws of the property"""
    fl = flat_elems(m)
    ne, nn = len(fl), len(m['nodes'])
    width = len(rows[0])
    try:
        r = run_e2n(m, rows, mode, wkind, weights, one_d, incidence)
    except NotImplementedError as e:
        return [], None, 'not_implemented:' + str(e)[:40]
    # incidence from the definition
    touch = {i: [] for i, _ in m['nodes']}
    for j, (e, t, c) in enumerate(fl):
        for n in dict.fromkeys(c):
            touch[n].append(j)
    node_ids = [i for i, _ in m['nodes']]
    sc = max([1.0] + [abs(float(v)) for row in rows for v in row])
    implicit32 = wkind == 'implicit' and any(t in ('hex', 'prism', 'pyr') for t in m['blocks'])
    tol = (2e-5 if implicit32 else TOL) * sc
    fails = []
    xs = [[float(v) for v in row] for row in rows]
    if mode == 'mean':
        # sizes the weights must be proportional to
        if wkind == 'false':
            size = [1.0] * ne
        elif wkind == 'explicit':
            size = [float(w) for w in weights]
        else:
            tm = true_metrics(m)
            size = [tm[e] for e, _, _ in fl]
        for k, i in enumerate(node_ids):
            js = touch[i]
            if not js:
                continue
            for w in range(width):
                vals = [xs[j][w] for j in js]
                if not (min(vals) - tol <= r[k, w] <= max(vals) + tol):
                    fails.append(('e2n-mean:bounds', f'node {i}: result outside the range of the elements touching it',
                                  {'node': i, 'column': w, 'got': float(r[k, w]), 'range': [min(vals), max(vals)]}))
                    return fails, r, None
                den = sum(size[j] for j in js)
                want = sum(size[j] * xs[j][w] for j in js) / den
                if not abs(r[k, w] - want) <= tol:
                    sig = 'e2n-mean:weights-prop-size'
                    if wkind == 'implicit' and len(m['blocks']) > 1:
                        sig = 'mixed-binding:e2n-implicit-weight'
                    fails.append((sig, f'node {i}: result is not the size-weighted mean of the touching elements '
                                  f'(weights {wkind})', {'node': i, 'column': w, 'got': float(r[k, w]), 'expected': want}))
                    return fails, r, None
    else:
        tot_in = [sum(xs[j][w] for j in range(ne)) for w in range(width)]
        tot_out = r.sum(axis=0)
        if not all(abs(a - b) <= tol * max(1, ne) for a, b in zip(tot_in, tot_out)):
            fails.append(('e2n-effective:total', 'grand total not conserved', {'in': tot_in, 'out': tot_out.tolist()}))
            return fails, r, None
        share = [1.0 / len(dict.fromkeys(c)) for _, _, c in fl]
        for k, i in enumerate(node_ids):
            for w in range(width):
                want = sum(share[j] * xs[j][w] for j in touch[i])
                if not abs(r[k, w] - want) <= tol:
                    fails.append(('e2n-effective:equal-shares', f'node {i}: does not receive an equal share of each of its elements',
                                  {'node': i, 'column': w, 'got': float(r[k, w]), 'expected': want}))
                    return fails, r, None
    return fails, r, None


def tie_e2n(ctx, m, rows, mode, wkind, weights, real, case):
    width = len(rows[0])
    wk = {'false': 0, 'explicit': 1, 'implicit': 2}[wkind]
    ws = C.enc_list(weights if wkind == 'explicit' else [], C.enc_rat)
    rep = ctx.driver.ask(f'c14.e2n {mode} {wk} {G.enc_mesh(m)} {ws} {enc_cols(rows, width)}')
    if rep == 'ok nometric':
        ctx.count('model:nometric')
        return
    t = C.Toks(rep)
    if t.tok() != 'ok':
        raise RuntimeError('driver: ' + rep[:200])
    sc = max([1.0] + [abs(float(v)) for row in rows for v in row])
    implicit32 = wkind == 'implicit' and any(ty in ('hex', 'prism', 'pyr') for ty in m['blocks'])
    tol = (2e-5 if implicit32 else TOL) * sc
    n = t.nat()
    if n != len(m['nodes']):
        ctx.disagree('convert_elemental2nodal: number of rows', case, len(real), n)
        return
    for k in range(n):
        nid = t.nat()
        vals = t.lst(lambda: t.rat() if t.nat() == 1 else None)
        for w, v in enumerate(vals):
            got = real[k, w]
            ok = v is not None and abs(float(v) - got) <= tol
            if not ok:
                ctx.disagree(f'convert_elemental2nodal mode={mode} weight={wkind}', case,
                             {'node': nid, 'column': w, 'value': None if got != got else float(got)},
                             None if v is None else float(v))
                return


def check_order1(m, rows, explicit=False):
    """oracle only: order1_only=True on tet2 (rows = first-order nodes in storage order); explicit=True: the same conversion
    requested through the documented `incidence=` parameter (incidence = calculate_incidence_matrix(order1_only=True), i.e. an
    incidence matrix over another node set than the full connectivity) with order1_only left at its default"""
    fd = K.to_fem(m)
    fl = flat_elems(m)
    x = as_array(rows)
    out = []
    corner = set(n for _, _, c in fl for n in c[:4])
    for mode in ('mean', 'effective'):
        with np.errstate(all='ignore'):
            if explicit:
                type(fd).calculate_incidence_matrix.cache_clear()
                inc = G.quiet(fd.calculate_incidence_matrix, order1_only=True)
                r = np.asarray(G.quiet(fd.convert_elemental2nodal, x, mode=mode, weight=False, incidence=inc), float)
            else:
                r = np.asarray(G.quiet(fd.convert_elemental2nodal, x, mode=mode, order1_only=True, weight=False), float)
        ids = [i for i, _ in m['nodes'] if i in corner]
        if len(r) != len(ids):
            # unreferenced nodes are also "first order" for femio's filter: accept rows for all non-mid nodes
            mids = set(n for _, _, c in fl for n in c[4:])
            ids = [i for i, _ in m['nodes'] if i not in mids]
        if len(r) != len(ids):
            out.append(('e2n-order1:shape', 'order1_only: unexpected number of rows', {'rows': len(r), 'first_order_nodes': len(ids)}))
            continue
        touch = {i: [j for j, (_, _, c) in enumerate(fl) if i in c[:4]] for i in ids}
        for k, i in enumerate(ids):
            js = touch[i]
            if not js:
                continue
            if mode == 'mean':
                want = x[js].mean(axis=0)
            else:
                want = x[js].sum(axis=0) / 4
            if not np.allclose(r[k], want, rtol=0, atol=TOL * max(1, np.abs(x).max())):
                out.append((f'e2n-order1:{mode}' + (':explicit-incidence' if explicit else ''),
                            ('explicit first-order incidence=' if explicit else 'order1_only') + f', node {i}: wrong value '
                            + ('(not the mean of the touching elements)' if mode == 'mean' else '(not the sum of equal shares 1/4)'),
                            {'got': r[k].tolist(), 'expected': want.tolist()}))
                break
        else:
            if mode == 'effective' and not np.allclose(r.sum(axis=0), x.sum(axis=0), rtol=0, atol=TOL * max(1, np.abs(x).max()) * len(x)):
                out.append(('e2n-order1:effective:total' + (':explicit-incidence' if explicit else ''),
                            'grand total not conserved (effective, first-order nodes)',
                            {'in': x.sum(axis=0).tolist(), 'out': r.sum(axis=0).tolist()}))
    return out


def tie_order1(ctx, m, rows, explicit, case):
    """model tie for order1_only=True / an explicit first-order incidence: e2nMean / e2nEffective over
    Femio.C13.incidenceOpt true (rows = order1Nodes), exact rationals"""
    fd = K.to_fem(m)
    x = as_array(rows)
    width = len(rows[0])
    for mode in ('mean', 'effective'):
        try:
            with np.errstate(all='ignore'):
                if explicit:
                    type(fd).calculate_incidence_matrix.cache_clear()
                    inc = G.quiet(fd.calculate_incidence_matrix, order1_only=True)
                    real = np.asarray(G.quiet(fd.convert_elemental2nodal, x, mode=mode, weight=False, incidence=inc), float)
                else:
                    real = np.asarray(G.quiet(fd.convert_elemental2nodal, x, mode=mode, order1_only=True, weight=False), float)
        except Exception:
            return      # the oracle (check_order1) reports exceptions
        rep = ctx.driver.ask(f'c14.e2n1 {mode} {G.enc_mesh(m)} {enc_cols(rows, width)}')
        if rep == 'ok unsupported':
            ctx.count('model:order1-unsupported')
            return
        t = C.Toks(rep)
        if t.tok() != 'ok':
            raise RuntimeError('driver: ' + rep[:200])
        ctx.count('tie:order1' + (':explicit-incidence' if explicit else ''))
        sc = max([1.0] + [abs(float(v)) for row in rows for v in row])
        n = t.nat()
        what = f'convert_elemental2nodal mode={mode} ' + ('incidence=<first-order incidence>' if explicit else 'order1_only=True')
        if n != len(real):
            ctx.disagree(what + ': number of rows', case, len(real), n)
            return
        for k in range(n):
            nid = t.nat()
            vals = t.lst(lambda: t.rat() if t.nat() == 1 else None)
            for w, v in enumerate(vals):
                got = real[k, w] if real.ndim == 2 else real[k]
                if v is None or not abs(float(v) - got) <= TOL * sc:
                    ctx.disagree(what, case, {'node': nid, 'column': w, 'value': None if got != got else float(got)},
                                 None if v is None else float(v))
                    return


# ------------------------------------------------------------------------------------------ run

def e2n_block(ctx, rng, m, mj, k, shared, stream=None, wscale=1, tie=True, combos=None, incidence=None):
    """the elemental -> nodal cases of one mesh (main loop: stream=None; the random draws are those of the original inline
    code).  stream: label of a separately counted stream (part of the case key and of the replay input); wscale: factor on
    the explicit weights (absolute-scale stream: the weights are as small as the elements); incidence: see run_e2n"""
    fl = flat_elems(m)
    ne = len(fl)
    tag = () if stream is None else (stream,)
    for mode, wkind in (combos or [('mean', 'implicit'), ('mean', 'explicit'), ('mean', 'false'), ('effective', 'none')]):
        width = rng.randint(1, 6)
        style = rng.choice(['dyadic', 'int', 'const', 'indicator'])
        one_d = width == 1 and rng.random() < .3
        if style == 'indicator':
            width = min(ne, 6)
            js = rng.sample(range(ne), width)
            fld = [[F(int(j == jj)) for jj in js] for j in range(ne)]
            one_d = False
        else:
            fld = gen_field(rng, ne, width, style)
        weights = [F(rng.randint(1, 64), 8) * wscale for _ in range(ne)] if wkind == 'explicit' else None
        wk = wkind if mode == 'mean' else 'none'
        if wkind == 'implicit' and K.is_shell(m):
            # areas are irrational: the model gets the real metrics as explicit weights (C11 ties the metrics)
            tm = true_metrics(m)
        case = {'check': 'e2n', 'mesh': mj, 'field': field_json(fld), 'mode': mode, 'weights_kind': wk, 'one_d': one_d,
                'weights': None if weights is None else [str(w) for w in weights]}
        if stream is not None:
            case['stream'] = stream
        if incidence is not None:
            case['incidence'] = incidence
        fails, real, err = check_e2n(m, fld, mode, wk, weights, one_d, incidence)
        ctx.case(tag + ('e2n', k, mode, wk, width, style),
                 sample={'check': 'e2n', 'mesh': G.describe(m), 'mode': mode, 'weights': wk, 'width': width, 'field': style}
                 if 2 <= len(ctx.samples) < 5 else None, nontrivial=shared)
        ctx.count(f'e2n:{mode}:{wk}:' + (err.split(':')[0] if err else 'ok') + ('' if stream is None else ':' + stream))
        for sig, what, obs in fails:
            ctx.fail(sig, what, case, obs)
        if real is None or ctx.driver is None or not tie:
            continue
        small = {k_: v for k_, v in case.items() if k_ != 'mesh'} | {'mesh': G.describe(m)}
        if mode == 'effective':
            tie_e2n(ctx, m, fld, mode, 'false', None, real, small)
        elif wkind == 'implicit' and (K.is_shell(m) or len(m['blocks']) > 1):
            # implicit weights of shells (irrational) and of mixed meshes (C11 finding: bound to the wrong elements):
            # the model is given what calculate_element_metrics returns on this mesh
            fd = K.to_fem(m)
            mt = np.asarray(G.quiet(fd.calculate_element_metrics), float).ravel()
            tie_e2n(ctx, m, fld, mode, 'explicit', [F(float(v)) for v in mt], real, small)
            ctx.count('tie:implicit-as-explicit')
        else:
            tie_e2n(ctx, m, fld, mode, wk, weights, real, small)



def run(ctx):
    rng = ctx.rng
    kinds = ['tet', 'hex', 'shell:tri', 'shell:quad', 'mixed-nopyr', 'tet2', 'prism', 'shell:mixed', 'mixed', 'pyr']
    n_mesh = ctx.n(200, 1500) if ctx.driver is not None else ctx.n(400, 3000)
    for k in range(n_mesh):
        kind = kinds[k % len(kinds)]
        m = gen_mesh(rng, kind)
        fl = flat_elems(m)
        nn, ne = len(m['nodes']), len(fl)
        ctx.count('mesh:' + kind)
        ctx.count('order:' + str(m.get('order')))
        ctx.count('ids:' + str(m.get('id_style')))
        ctx.count('unreferenced-nodes:' + ('yes' if m.get('n_unref') else 'no'))
        shared = ne >= 2
        mj = G.to_json(m)
        # ---- nodal -> elemental
        width = rng.randint(1, 6)
        style = rng.choice(['dyadic', 'int', 'affine', 'const'])
        one_d = False        # 1-D nodal data is rejected by convert_nodal2elemental (it indexes [rows, :])
        pos = [p for _, p in m['nodes']]
        fld = gen_field(rng, nn, width, style, pos)
        aff = None
        if isinstance(fld, tuple):
            fld, aff = fld
        int_dtype = style == 'int' and (k // len(kinds)) % 2 == 0        # integer field handed over as an int64 array
        case = {'check': 'n2e', 'mesh': mj, 'field': field_json(fld), 'one_d': one_d, 'int_dtype': int_dtype,
                'affine': None if aff is None else [[[str(v) for v in r] for r in aff[0]], [str(v) for v in aff[1]]]}
        fails, real, err = check_n2e(m, fld, aff, one_d, int_dtype)
        if int_dtype:
            ctx.count('n2e:field-dtype:int64')
        ctx.case(('n2e', k, width, style), sample={'check': 'n2e', 'mesh': G.describe(m), 'width': width, 'field': style}
                 if len(ctx.samples) < 2 else None, nontrivial=shared)
        ctx.count('n2e:' + (err.split(':')[0] if err else 'ok') + (':mixed' if len(m['blocks']) > 1 else ''))
        ctx.count('field:' + style + (':1d' if one_d else f':w{width}'))
        for sig, what, obs in fails:
            ctx.fail(sig, what, case, obs)
        if real is not None and ctx.driver is not None:
            tie_n2e(ctx, m, fld, real, {k_: v for k_, v in case.items() if k_ != 'mesh'} | {'mesh': G.describe(m)})
        # ---- elemental -> nodal
        e2n_block(ctx, rng, m, mj, k, shared)
        if kind == 'tet2':
            fld = gen_field(rng, ne, 3, 'int')
            ctx.case(('order1', k))
            ctx.count('order1_only')
            for sig, what, obs in check_order1(m, fld):
                ctx.fail(sig, what, {'check': 'order1', 'mesh': mj, 'field': field_json(fld)}, obs)
            ctx.case(('order1-explicit-incidence', k))
            ctx.count('order1:explicit-incidence')
            for sig, what, obs in check_order1(m, fld, explicit=True):
                ctx.fail(sig, what, {'check': 'order1', 'explicit': True, 'mesh': mj, 'field': field_json(fld)}, obs)
            if ctx.driver is not None:
                for ex in (False, True):
                    tie_order1(ctx, m, fld, ex, {'check': 'order1', 'explicit': ex, 'mesh': G.describe(m)})
    # ---- histories: convert a named field, overwrite it, convert again on the same object (drawn after the main loop so
    #      that its cases are unchanged for a given seed)
    hkinds = ['tet', 'hex', 'shell:tri', 'shell:quad', 'tet2', 'prism', 'pyr', 'tet', 'shell:mixed', 'hex']
    n_hist = ctx.n(120, 800) if ctx.driver is not None else ctx.n(240, 1600)
    for k in range(n_hist):
        history_case(ctx, rng, k, hkinds[k % len(hkinds)])
    # ---- the e2n / n2e laws at other ABSOLUTE scales (inside the quantifier: "every mesh with positive elements")
    akinds = ['tet', 'shell:tri', 'hex', 'shell:quad', 'tet2', 'mixed-nopyr', 'prism', 'shell:mixed']
    for k in range(ctx.n(64, 480) if ctx.driver is not None else ctx.n(128, 960)):
        kind = akinds[k % len(akinds)]
        s = K.ABS_SCALES[(k // len(akinds) + k % len(akinds)) % len(K.ABS_SCALES)]
        m = K.scaled_mesh(gen_mesh(rng, kind), s)
        ne = len(flat_elems(m))
        ctx.count(f'absolute-scale:{kind}:2^{s.numerator.bit_length() - s.denominator.bit_length()}')
        mj = G.to_json(m)
        e2n_block(ctx, rng, m, mj, k, ne >= 2, stream='absolute-scale', wscale=s ** (2 if K.is_shell(m) else 3),
                  incidence='explicit-full' if k % 4 == 3 else None)
        width = rng.randint(1, 3)
        fld, aff = gen_field(rng, len(m['nodes']), width, 'affine', [p for _, p in m['nodes']])
        case = {'check': 'n2e', 'stream': 'absolute-scale', 'mesh': mj, 'field': field_json(fld), 'one_d': False,
                'affine': [[[str(v) for v in r] for r in aff[0]], [str(v) for v in aff[1]]]}
        fails, real, err = check_n2e(m, fld, aff, False)
        ctx.case(('absolute-scale', 'n2e', k, width), nontrivial=ne >= 2)
        ctx.count('n2e:' + (err.split(':')[0] if err else 'ok') + ':absolute-scale')
        for sig, what, obs in fails:
            ctx.fail(sig, what, case, obs)
    # ---- stream `repeated-nodes`: degenerate elements that list a node twice (collapsed hex = wedge / pyramid, collapsed quad =
    #      triangle), as structured mesh generators emit them; see ASSUMPTIONS
    for k in range(ctx.n(32, 240) if ctx.driver is not None else ctx.n(64, 480)):
        m = gen_degenerate(rng, k)
        ne = len(flat_elems(m))
        tm = true_metrics(m)
        positive = tm is not None and all(v > 0 for v in tm.values())
        ctx.count('repeated-nodes:' + m['kind'] + (':all-metrics-positive' if positive else ':some-metric-not-positive (implicit weights skipped)'))
        combos = [('effective', 'none'), ('mean', 'false'), ('mean', 'explicit')] + ([('mean', 'implicit')] if positive else [])
        e2n_block(ctx, rng, m, G.to_json(m), k, ne >= 2, stream='repeated-nodes', combos=combos, tie=True)


def gen_degenerate(rng, k):
    """hex / quad mesh in which a random non-empty subset of the elements is collapsed by repeating node ids:
    hex -> wedge [0,1,2,2,4,5,6,6] or pyramid [0,1,2,3,4,4,4,4]; quad -> triangle [0,1,2,2] (the collapsed element no longer fills
    its cell - irrelevant here: the laws of C14 involve incidence and element sizes only)"""
    if k % 2 == 0:
        m = G.gen_geometric(rng, kind='hex', max_cells=2)
        t, pats = 'hex', [[0, 1, 2, 2, 4, 5, 6, 6], [0, 1, 2, 3, 4, 4, 4, 4], [0, 1, 1, 3, 4, 5, 5, 7]]
    else:
        m = K.gen_shell(rng, 'quad')
        t, pats = 'quad', [[0, 1, 2, 2], [0, 0, 1, 2], [0, 1, 1, 3]]
    rows = m['blocks'][t]
    chosen = set(rng.sample(range(len(rows)), rng.randint(1, len(rows))))
    new = []
    for i, (e, c) in enumerate(rows):
        if i in chosen:
            pat = rng.choice(pats)
            c = [c[j] for j in pat]
        new.append((e, c))
    m = dict(m)
    m['blocks'] = {t: new}
    m['kind'] = 'collapsed-' + t
    m['n_unref'] = len(m['nodes']) - len({n for _, c in new for n in c})
    return m


def history_case(ctx, rng, k, kind):
    """one case of the stream n2e-history"""
    m = gen_mesh(rng, kind)
    nn, ne = len(m['nodes']), len(flat_elems(m))
    width = rng.randint(1, 6)
    pos = [p for _, p in m['nodes']]
    fld1 = gen_field(rng, nn, width, rng.choice(['dyadic', 'int', 'const']))
    style2 = rng.choice(['dyadic', 'int', 'affine', 'affine'])
    fld2 = gen_field(rng, nn, width, style2, pos)
    aff = None
    if isinstance(fld2, tuple):
        fld2, aff = fld2
    how = rng.choice(HOW_OVERWRITE)
    case = {'check': 'n2e-history', 'mesh': G.to_json(m), 'field': field_json(fld1), 'field2': field_json(fld2), 'how': how,
            'affine2': None if aff is None else [[[str(v) for v in r] for r in aff[0]], [str(v) for v in aff[1]]]}
    fails, real1, real2, err = check_n2e_history(m, fld1, fld2, how, aff)
    ctx.case(('n2e-history', k, width, style2, how),
             sample={'check': 'n2e-history', 'mesh': G.describe(m), 'width': width, 'new_field': style2, 'how': how}
             if ctx.dist.get('n2e-history:ok', 0) < 1 and not err else None, nontrivial=ne >= 2 and fld1 != fld2)
    ctx.count('n2e-history:' + (err.split(':')[0] if err else 'ok'))
    if not err:
        ctx.count('n2e-history:how:' + how)
        ctx.count('n2e-history:mesh:' + kind)
        ctx.count('n2e-history:new-values:' + ('same-as-old' if fld1 == fld2 else 'different'))
    for sig, what, obs in fails:
        ctx.fail(sig, what, case, obs)
    if real2 is not None and ctx.driver is not None:
        small = {k_: v for k_, v in case.items() if k_ != 'mesh'} | {'mesh': G.describe(m)}
        tie_n2e(ctx, m, fld1, real1, small | {'step': 'first conversion'})
        tie_n2e(ctx, m, fld2, real2, small | {'step': 'conversion after the overwrite, model evaluated on the new values'})


def replay(ctx, obj):
    case = obj['input']
    m = G.from_json(case['mesh'])
    m['blocks'] = {t: m['blocks'][t] for t in G.ELEMENT_TYPES if t in m['blocks']}
    fld = field_from_json(case['field'])
    if case['check'] == 'n2e-history':
        aff = case.get('affine2')
        if aff:
            aff = ([[F(v) for v in r] for r in aff[0]], [F(v) for v in aff[1]])
        fails, real1, real2, err = check_n2e_history(m, fld, field_from_json(case['field2']), case['how'], aff)
    elif case['check'] == 'n2e':
        aff = case.get('affine')
        if aff:
            aff = ([[F(v) for v in r] for r in aff[0]], [F(v) for v in aff[1]])
        fails, real, err = check_n2e(m, fld, aff, case.get('one_d', False), case.get('int_dtype', False))
    elif case['check'] == 'order1':
        fails, err = check_order1(m, fld, explicit=case.get('explicit', False)), None
    else:
        wk = case['weights_kind']
        w = None if case.get('weights') is None else [F(x) for x in case['weights']]
        fails, real, err = check_e2n(m, fld, case['mode'], wk, w, case.get('one_d', False), case.get('incidence'))
    return {'case': {k: v for k, v in case.items() if k not in ('mesh', 'field')}, 'error': err,
            'failures': [{'signature': s, 'what': w_, 'observed': o} for s, w_, o in fails], 'fails': bool(fails)}
