"""C17 - tensor helpers are mutually inverse and reconstruct their input (DESIGN.md section 4, C17).

Tie T: index tables and engineering-shear factors of the two converters are tabulated from the working
tree (gen_tables) and the Lean theorems are re-checked over them.
Tie P/D: the Lean model (`Femio.Tensor`, executed over exact rationals by the driver) is compared with the
real functions: array <-> matrix conversions exactly; the post-processing of `calculate_principal_components`,
`calculate_array_from_eigens`, `invert_strain`, `convert_lte_*` on the eigen-system that the real `eigh`
call returned (captured by wrapping `np.linalg.eigh`; the model evaluates the hypothesis of the theorems -
A V = V diag(w), V^T V = 1, w ascending - exactly on it and the harness requires the residuals to be at
rounding level); `align_nnz` pattern exactly and values within 1e-12 * D.
Oracle (real API only): the inverse laws, symmetry, descending / orthonormal / right-handed / rebuild,
strain inverted twice, lte global -> local -> global, align_nnz values and common pattern, and
`np.array_equal(input_before, input_after)` for every helper (aliasing is checked on the implementation only).
"""
import itertools
from fractions import Fraction as F

import numpy as np
import scipy.sparse as sp

from . import common as C
from . import meshgen as MG

PROP = 'C17'
LEAN_MODULES = ['Femio.Props.C17']
THEOREMS = ['C17_arr_mat_inverse', 'C17_principal', 'C17_principal_array', 'C17_invert_strain', 'C17_lte_roundtrip',
            'C17_align_nnz']
PARTIAL = ['clause "does not modify the caller\'s array": no theorem (numpy aliasing), checked on the implementation by '
           'snapshot comparison for every helper and memory layout',
           'np.linalg.eigh is not modelled: its post-condition (IsEigh, ascending) is the explicit hypothesis of '
           'C17_principal / C17_principal_array / C17_invert_strain / C17_lte_roundtrip, evaluated exactly on every captured call',
           'convert_lte_*: only global -> local -> global is claimed by the property and proved (local -> global -> local '
           'cannot return the original values when the stored eigenvalues are not ascending)']
RULE = ('batches of 1..6 symmetric tensors (random dyadic / decimal / integer-valued entries, scale 1e-6..1e6, rotated '
        'diag(l,l,m) with repeated eigenvalues, isotropic, zero, one eigenvalue 1e-12 (near-singular), strains with '
        '1+l down to 1e-3; stream "strain:near-singular": strains with one to three principal values -1+d, '
        'd in {1e-6, 3e-6, 1e-7, 2e-6, 5e-6}, the others in (-.5, .9) or repeated, random / axis-aligned orientation, both shear '
        'conventions, alone or batched with ordinary strains, judged with a tolerance linear in the magnitude of the inverse) '
        'x component order (all 720 permutations in the thorough tier, a random sample + identity + '
        'reversal in quick) x both shear conventions x memory layout of the input (C, Fortran, strided view); '
        'align_nnz: 1..4 CSR / COO matrices of a common shape up to 6x6 with densities 0..1 (empty and full included), '
        'explicit zeros, unsorted indices, mixed signs. distinct = distinct (helper, input, options); a case is '
        'non-trivial unless the tensor batch is all zero / all matrices are empty.')
ASSUMPTIONS = [
    'np.linalg.eigh post-condition (orthonormal eigenvectors, ascending eigenvalues) is a hypothesis of the theorems; '
    'checked numerically on every captured call (residual <= 1e-12 * scale)',
    'float results are compared with the exact model within stated tolerances: 1e-15 (cross product of unit vectors), '
    '1e-13 * scale (reconstruction), 1e-12 * kappa^2 * scale (strain inversion, kappa = max |1/(1+l)|), 1e-12 * D (align_nnz)',
    'near-singular strains (stream strain:near-singular, 1+l down to 1e-7): strain inverted twice is compared with the original '
    'within 5e-14 * kappa * scale, i.e. ~225 ulp of the magnitude kappa of the once-inverted tensor (rounding of eigh on a matrix of '
    'norm kappa; measured worst case on the unchanged code over 12000 tensors: 1.4e-15 * kappa); a deviation of 1e-8 or more at '
    'kappa <= 1e5, or of 1e-6 at kappa = 1e7, is reported',
    'values are normal binary64 numbers with |x| <= 1e300 (x/2*2 is not exact on denormals)',
    '"does not modify the caller\'s array" is an aliasing fact of numpy fancy indexing: checked on the implementation '
    'by snapshot comparison, not a theorem',
    'align_nnz inputs are canonical (no duplicate cells, all inside the shape: the hypothesis hwf of C17_align_nnz, true by '
    'construction of the generator and asserted per case); D is compared within one rounding',
]
TRUSTED = ['C17: np.linalg.eigh is wrapped by the harness to capture its argument and result (copied before femio '
           'overwrites the third eigenvector in place)']


# ------------------------------------------------------------------ helpers

class EighTap:
    def __enter__(self):
        self.calls = []
        self.orig = np.linalg.eigh

        def tap(a, *args, **kw):
            r = self.orig(a, *args, **kw)
            self.calls.append((np.array(a, dtype=float, copy=True), np.array(r[0], copy=True), np.array(r[1], copy=True)))
            return r
        np.linalg.eigh = tap
        return self

    def __exit__(self, *a):
        np.linalg.eigh = self.orig


def rats(xs):
    return ' '.join(C.enc_rat(float(x)) for x in np.asarray(xs, dtype=float).reshape(-1))


def reply_rats(r):
    assert r.startswith('ok '), r
    return [F(t) for t in r.split()[1:]]


def lst(xs):
    xs = list(np.asarray(xs, dtype=float).reshape(-1))
    return f'{len(xs)} ' + ' '.join(C.enc_rat(float(x)) for x in xs) if xs else '0'


def fr(xs):
    return [F(float(x)) for x in np.asarray(xs, dtype=float).reshape(-1)]


def inv_perm(o):
    r = [0] * len(o)
    for k, v in enumerate(o):
        r[v] = k
    return r


def layouts(rnd, a):
    """the same values in different memory layouts (aliasing / stride handling)"""
    kind = rnd.choice(['C', 'F', 'view'])
    if kind == 'F':
        return np.asfortranarray(a.copy()), kind
    if kind == 'view':
        big = np.zeros((a.shape[0] * 2, a.shape[1] * 2))
        big[::2, ::2] = a
        return big[::2, ::2], kind
    return a.copy(), kind


def rational_rotation(rnd):
    """exact rotation matrix from an integer quaternion"""
    while True:
        q = [rnd.randint(-3, 3) for _ in range(4)]
        n = sum(x * x for x in q)
        if n:
            break
    a, b, c, d = q
    R = [[a*a + b*b - c*c - d*d, 2*(b*c - a*d), 2*(b*d + a*c)],
         [2*(b*c + a*d), a*a - b*b + c*c - d*d, 2*(c*d - a*b)],
         [2*(b*d - a*c), 2*(c*d + a*b), a*a - b*b - c*c + d*d]]
    return np.array(R, dtype=float) / n


def tensor6(rnd, kind, strain=False):
    """one symmetric tensor in the default component layout [11, 22, 33, 12, 23, 31] (tensor components)"""
    def val():
        c = rnd.choice(['int', 'dyadic', 'decimal'])
        if c == 'int':
            return float(rnd.randint(-9, 9))
        if c == 'dyadic':
            return rnd.randint(-2**20, 2**20) / 2.0**rnd.randint(0, 24)
        return round(rnd.uniform(-10, 10), 13)
    if kind == 'zero':
        t = [0.0] * 6
    elif kind == 'isotropic':
        c = val()
        t = [c, c, c, 0.0, 0.0, 0.0]
    elif kind in ('repeated', 'near-singular', 'spd'):
        if kind == 'repeated':
            l, m_ = val(), val()
            lam = [l, l, m_]
        elif kind == 'near-singular':
            lam = [val(), val(), rnd.choice([1e-12, -1e-12, 1e-9])]
        else:
            lam = [abs(val()) + .5 for _ in range(3)]
        R = rational_rotation(rnd)
        A = R @ np.diag(lam) @ R.T
        A = (A + A.T) / 2
        t = [A[0, 0], A[1, 1], A[2, 2], A[0, 1], A[1, 2], A[0, 2]]
    else:
        t = [val() for _ in range(6)]
        if kind == 'scaled':
            s = 10.0 ** rnd.randint(-6, 6)
            t = [x * s for x in t]
    if strain:
        # eigenvalues of a strain must stay away from -1: shrink to |l| <= 0.9 or place one near -1
        A = np.array([[t[0], t[3], t[5]], [t[3], t[1], t[4]], [t[5], t[4], t[2]]])
        w = np.linalg.eigvalsh(A)
        s = max(1.0, float(np.abs(w).max()) / .9)
        t = [x / s for x in t]
        if kind == 'near-singular':
            R = rational_rotation(rnd)
            lam = [rnd.uniform(-.5, .5), rnd.uniform(-.5, .5), -1 + rnd.choice([1e-3, 1e-2])]
            A = R @ np.diag(lam) @ R.T
            A = (A + A.T) / 2
            t = [A[0, 0], A[1, 1], A[2, 2], A[0, 1], A[1, 2], A[0, 2]]
    return [float(x) for x in t]


TKINDS = ['random', 'random', 'scaled', 'repeated', 'isotropic', 'zero', 'near-singular', 'spd']


def batch(rnd, order, eng, strain=False):
    """(n, 6) user array for the given order / convention, plus the tensor components per row"""
    n = rnd.randint(1, 6)
    kinds = [rnd.choice(TKINDS) for _ in range(n)]
    ts = [tensor6(rnd, k, strain) for k in kinds]
    rows = []
    io = inv_perm(order)
    for t in ts:
        b = [t[0], t[1], t[2]] + [x * (2 if eng else 1) for x in t[3:]]     # slot values after reordering
        rows.append([b[io[k]] for k in range(6)])                           # a[order[k]] = b[k]
    return np.array(rows, dtype=float), np.array(ts, dtype=float), kinds


NS_DELTAS = [1e-6, 3e-6, 1e-7, 1e-6, 3e-6, 1e-7, 2e-6, 5e-6]


def near_singular_strain(rnd):
    """tensor components [11, 22, 33, 12, 23, 31] of a strain with 1..3 principal values -1 + d (principal stretch d, an almost
    completely collapsed direction), the remaining ones ordinary or repeated; random rational or axis-aligned orientation"""
    k = rnd.choice([1, 1, 1, 1, 2, 3])
    lam = [-1 + rnd.choice(NS_DELTAS) for _ in range(k)] + [rnd.uniform(-.5, .9) for _ in range(3 - k)]
    if k == 1 and rnd.random() < .15:
        lam[2] = lam[1]
    rnd.shuffle(lam)
    orient = 'axis' if rnd.random() < .15 else 'rotated'
    R = np.eye(3) if orient == 'axis' else rational_rotation(rnd)
    A = R @ np.diag(lam) @ R.T
    A = (A + A.T) / 2
    return [float(x) for x in (A[0, 0], A[1, 1], A[2, 2], A[0, 1], A[1, 2], A[0, 2])], k, orient


def near_singular_batch(rnd, eng):
    """(n, 6) user array (default order) with at least one near-singular strain, some batched with ordinary strains"""
    n = rnd.randint(1, 4)
    which = [rnd.random() < .75 for _ in range(n)]
    which[rnd.randrange(n)] = True
    rows, kinds = [], []
    for ns in which:
        if ns:
            t, k, orient = near_singular_strain(rnd)
            kinds.append(f'near-singular-strain:{k}:{orient}')
        else:
            kind = rnd.choice(TKINDS)
            t = tensor6(rnd, kind, strain=True)
            kinds.append(kind)
        rows.append([t[0], t[1], t[2]] + [x * (2 if eng else 1) for x in t[3:]])
    return np.array(rows, dtype=float), kinds


def mat_of(t):
    t = np.asarray(t)
    return np.array([[t[0], t[3], t[5]], [t[3], t[1], t[4]], [t[5], t[4], t[2]]])


# ------------------------------------------------------------------ the individual checks (oracle + correspondence)

def check_arrmat(ctx, case, record=True):
    """case: {'a': rows, 'order', 'eng', 'layout', 'dtype'}; returns failures"""
    from femio import functions as fn
    fails = []
    order, eng = case['order'], case['eng']
    dtype = case.get('dtype', 'float')
    a0 = np.array(case['a'], dtype=int if dtype == 'int' else float)
    if case.get('layout') == 'F':
        a0 = np.asfortranarray(a0)
    elif case.get('layout') == 'view':
        big = np.zeros((a0.shape[0] * 2, a0.shape[1] * 2), dtype=a0.dtype)
        big[::2, ::2] = a0
        a0 = big[::2, ::2]
    before = a0.copy()
    m = fn.convert_array2symmetric_matrix(a0, from_engineering=eng, order=list(order))
    if not np.array_equal(before, a0):
        fails.append(('mutation:array2symmetric_matrix', 'convert_array2symmetric_matrix modified the caller\'s array',
                      {'before': before.tolist(), 'after': a0.tolist()}))
    mb = np.array(m, copy=True)
    back = fn.convert_symmetric_matrix2array(m, to_engineering=eng, order=inv_perm(order))
    if not np.array_equal(mb, m):
        fails.append(('mutation:symmetric_matrix2array', 'convert_symmetric_matrix2array modified the caller\'s matrix',
                      {'before': mb.tolist(), 'after': np.asarray(m).tolist()}))
    if m.shape != (len(before), 3, 3) or not np.array_equal(m, np.transpose(m, (0, 2, 1))):
        fails.append(('asymmetric', 'convert_array2symmetric_matrix result is not a batch of symmetric 3x3 matrices',
                      {'matrix': np.asarray(m).tolist()}))
    if back.shape != before.shape or not np.array_equal(back, before):
        sig = 'roundtrip:int-dtype-engineering' if dtype == 'int' else f'roundtrip:{"engineering" if eng else "tensor"}'
        fails.append((sig, f'array -> matrix -> array (inverse order) is not the identity: {before.tolist()} -> {np.asarray(back).tolist()}',
                      {'input': before.tolist(), 'matrix': np.asarray(m).tolist(), 'back': np.asarray(back).tolist()}))
    if ctx.driver is not None and dtype == 'float':
        o = C.enc_list(order)
        io = C.enc_list(inv_perm(order))
        lines, exp = [], []
        for row, mm in zip(before, mb):
            lines.append(f'c17.arr2mat {o} {int(eng)} {lst(row)}')
            exp.append(('array2symmetric_matrix', fr(mm)))
            lines.append(f'c17.mat2arr {io} {int(eng)} {lst(mm)}')
            exp.append(('symmetric_matrix2array', None))
        rep = ctx.driver.ask_many(lines)
        for k, (r, (what, want)) in enumerate(zip(rep, exp)):
            got = reply_rats(r)[1:]
            if want is None:
                want = fr(back[k // 2]) if back.shape == before.shape else None
            if got != want:
                ctx.disagree(what, {'order': list(order), 'eng': eng, 'row': before[k // 2].tolist()},
                             [str(x) for x in want] if want else None, [str(x) for x in got])
                break
        ctx.count('compared:arr<->mat rows', len(before))
    return fails


def check_principal(ctx, case):
    """case: {'a', 'order', 'eng'}"""
    from femio import functions as fn
    fails = []
    order, eng = case['order'], case['eng']
    a0 = np.array(case['a'], dtype=float)
    before = a0.copy()
    with EighTap() as tap:
        vals, dirs, vecs = fn.calculate_principal_components(a0, from_engineering=eng, order=list(order))
    if not np.array_equal(before, a0):
        fails.append(('mutation:principal_components', 'calculate_principal_components modified the caller\'s array',
                      {'before': before.tolist(), 'after': a0.tolist()}))
    n = len(a0)
    b = before[:, list(order)]
    T = np.array([mat_of([r[0], r[1], r[2]] + [x / (2 if eng else 1) for x in r[3:]]) for r in b])   # intended tensors
    scale = np.maximum(np.abs(T).max(axis=(1, 2)), 1e-300)
    D = np.stack([dirs[:, 0:3], dirs[:, 3:6], dirs[:, 6:9]], axis=2)       # columns = directions
    ok_desc = np.all(vals[:, 0] >= vals[:, 1]) and np.all(vals[:, 1] >= vals[:, 2])
    if not ok_desc:
        fails.append(('principal:not-descending', 'principal values are not sorted descending', {'values': vals.tolist()}))
    gram = np.einsum('nki,nkj->nij', D, D)
    if not np.all(np.abs(gram - np.eye(3)) <= 1e-12):
        fails.append(('principal:not-orthonormal', 'principal directions are not orthonormal',
                      {'gram': gram.tolist(), 'input': before.tolist()}))
    det = np.linalg.det(D)
    if not np.all(np.abs(det - 1) <= 1e-12):
        fails.append(('principal:not-right-handed', 'principal directions are not right-handed (det != +1)',
                      {'det': det.tolist(), 'input': before.tolist()}))
    reb = np.einsum('nik,nk,njk->nij', D, vals, D)
    if not np.all(np.abs(reb - T).max(axis=(1, 2)) <= 1e-12 * scale):
        fails.append(('principal:rebuild', 'sum_k value_k d_k d_k^T differs from the input tensor',
                      {'input': before.tolist(), 'rebuilt': reb.tolist(), 'tensor': T.tolist()}))
    arr_back = fn.calculate_array_from_eigens(vals.copy(), dirs.copy(), to_engineering=eng)
    if not np.all(np.abs(arr_back - b).max(axis=1) <= 1e-12 * scale * 2):
        fails.append(('principal:array_from_eigens', 'calculate_array_from_eigens(values, directions) does not rebuild the input array',
                      {'input': b.tolist(), 'rebuilt': arr_back.tolist()}))
    want_vec = np.concatenate([vals[:, [k]] * dirs[:, 3 * k:3 * k + 3] for k in range(3)], axis=1)
    if not np.all(np.abs(vecs - want_vec) <= 1e-15 * np.maximum(np.abs(want_vec), 1e-300) * 4):
        fails.append(('principal:vectors', 'principal vectors are not value * direction', {'vectors': vecs.tolist()}))
    if ctx.driver is not None and len(tap.calls) == 1:
        A, w, V = tap.calls[0]
        o = C.enc_list(order)
        lines = []
        for k in range(n):
            lines += [f'c17.arr2mat {o} {int(eng)} {lst(before[k])}', f'c17.residual {rats(A[k])} {rats(w[k])} {rats(V[k])}',
                      f'c17.principal {rats(w[k])} {rats(V[k])}',
                      f'c17.fromeigens {rats(vals[k])} {rats(dirs[k])} {int(eng)}']
        rep = ctx.driver.ask_many(lines)
        for k in range(n):
            ci = {'order': list(order), 'eng': eng, 'row': before[k].tolist()}
            m_in = reply_rats(rep[4 * k])[1:]
            if m_in != fr(A[k]):
                ctx.disagree('matrix handed to eigh', ci, A[k].tolist(), [str(x) for x in m_in])
                break
            res = [float(x) for x in reply_rats(rep[4 * k + 1])]
            r1, r2, asc = res[:9], res[9:18], res[18]
            sc = max(float(np.abs(A[k]).max()), 1e-300)
            if max(abs(x) for x in r1) > 1e-12 * sc or max(abs(x) for x in r2) > 1e-12 or asc != 1:
                ctx.count('eigh-hypothesis-violated')
                ctx.disagree('eigh post-condition (hypothesis of the theorems) does not hold numerically', ci,
                             {'AV-VL': max(abs(x) for x in r1), 'VtV-1': max(abs(x) for x in r2), 'ascending': asc}, 'residual <= 1e-12')
                break
            p = [float(x) for x in reply_rats(rep[4 * k + 2])]
            mv, md, mvec = np.array(p[:3]), np.array(p[3:12]), np.array(p[12:21])
            if not (np.array_equal(mv, vals[k]) and np.array_equal(md[:6], dirs[k][:6])
                    and np.all(np.abs(md[6:] - dirs[k][6:]) <= 1e-15)
                    and np.all(np.abs(mvec - vecs[k]) <= 4e-15 * max(float(np.abs(vals[k]).max()), 1e-300))):
                ctx.disagree('calculate_principal_components post-processing', ci,
                             {'values': vals[k].tolist(), 'directions': dirs[k].tolist(), 'vectors': vecs[k].tolist()},
                             {'values': mv.tolist(), 'directions': md.tolist(), 'vectors': mvec.tolist()})
                break
            fe = np.array([float(x) for x in reply_rats(rep[4 * k + 3])[1:]])
            if fe.shape != arr_back[k].shape or not np.all(np.abs(fe - arr_back[k]) <= 1e-13 * max(float(np.abs(vals[k]).max()), 1e-300)):
                ctx.disagree('calculate_array_from_eigens', ci, arr_back[k].tolist(), fe.tolist())
                break
        ctx.count('compared:principal tensors', n)
    return fails


def check_strain(ctx, case):
    from femio import functions as fn
    fails = []
    eng = case['eng']
    a0 = np.array(case['a'], dtype=float)
    before = a0.copy()
    with EighTap() as tap:
        inv1 = fn.invert_strain(a0, is_engineering=eng)
    if not np.array_equal(before, a0):
        fails.append(('mutation:invert_strain', 'invert_strain modified the caller\'s array',
                      {'before': before.tolist(), 'after': a0.tolist()}))
    inv1_before = inv1.copy()
    inv2 = fn.invert_strain(inv1, is_engineering=eng)
    if not np.array_equal(inv1_before, inv1):
        fails.append(('mutation:invert_strain', 'invert_strain modified the caller\'s array (second call)', {}))
    T = np.array([mat_of([r[0], r[1], r[2]] + [x / (2 if eng else 1) for x in r[3:]]) for r in before])
    w = np.linalg.eigvalsh(T)
    kappa = np.maximum(1.0, np.abs(1 / (1 + w)).max(axis=1))
    scale = np.maximum(np.abs(T).max(axis=(1, 2)), 1.0)
    tol = 1e-12 * kappa**2 * scale
    if case.get('tol') == 'linear':
        # near-singular stream: the once-inverted tensor has magnitude kappa, eigh on it is accurate to a few ulp of kappa
        # and the second inversion maps that back with factors (1 + l)^2 <= O(1): rounding noise is linear in kappa
        tol = np.minimum(tol, 5e-14 * kappa * scale / 2)
    if inv2.shape != before.shape or not np.all(np.abs(inv2 - before).max(axis=1) <= tol * 2):
        fails.append(('strain:twice', 'inverting a strain twice does not return the original',
                      {'input': before.tolist(), 'once': inv1.tolist(), 'twice': np.asarray(inv2).tolist(), 'tol': tol.tolist()}))
    B = np.array([mat_of([r[0], r[1], r[2]] + [x / (2 if eng else 1) for x in r[3:]]) for r in inv1])
    prod = np.einsum('nij,njk->nik', np.eye(3) + T, np.eye(3) + B)
    if not np.all(np.abs(prod - np.eye(3)).max(axis=(1, 2)) <= tol * 4):
        fails.append(('strain:inverse', '(1 + strain)(1 + inverted) differs from the identity',
                      {'input': before.tolist(), 'once': inv1.tolist(), 'product': prod.tolist()}))
    if ctx.driver is not None and len(tap.calls) == 1:
        A, ww, V = tap.calls[0]
        lines = [f'c17.invstrain {rats(ww[k])} {rats(V[k])} {int(eng)}' for k in range(len(a0))]
        rep = ctx.driver.ask_many(lines)
        for k, r in enumerate(rep):
            got = np.array([float(x) for x in reply_rats(r)[1:]])
            if got.shape != inv1[k].shape or not np.all(np.abs(got - inv1[k]) <= 1e-13 * kappa[k] * 4):
                ctx.disagree('invert_strain (on the captured eigen-system)', {'eng': eng, 'row': before[k].tolist()},
                             inv1[k].tolist(), got.tolist())
                break
        ctx.count('compared:invert_strain tensors', len(a0))
    return fails


def check_lte(ctx, case):
    fails = []
    f0 = np.array(case['f'], dtype=float)
    n = len(f0)
    import femio
    fd = MG.quiet(femio.generate_brick, 'hex', n, 1, 1)
    before = f0.copy()
    MG.quiet(fd.elemental_data.update_data, fd.elements.ids, {'linear_thermal_expansion_coefficient_full': f0})
    with EighTap() as tap:
        MG.quiet(fd.convert_lte_global2local)
    if not np.array_equal(before, f0):
        fails.append(('mutation:lte_global2local', 'convert_lte_global2local modified the caller\'s array', {}))
    lte = fd.elemental_data.get_attribute_data('lte').copy()
    orient = fd.elemental_data.get_attribute_data('orient').copy()
    fd.elemental_data.pop('linear_thermal_expansion_coefficient_full')
    MG.quiet(fd.convert_lte_local2global)
    back = fd.elemental_data.get_attribute_data('lte_full')
    scale = np.maximum(np.abs(before).max(axis=1), 1e-300)
    if back.shape != before.shape or not np.all(np.abs(back - before).max(axis=1) <= 1e-12 * scale):
        fails.append(('lte:roundtrip', 'lte_full -> (lte, orientation) -> lte_full does not return the original values',
                      {'input': before.tolist(), 'lte': lte.tolist(), 'orient': orient.tolist(), 'back': np.asarray(back).tolist()}))
    if ctx.driver is not None and len(tap.calls) == 1:
        A, w, V = tap.calls[0]
        lines = []
        for k in range(n):
            lines += [f'c17.ltemat {lst(before[k])}', f'c17.residual {rats(A[k])} {rats(w[k])} {rats(V[k])}',
                      f'c17.lteg2l {rats(w[k])} {rats(V[k])}', f'c17.ltel2g {rats(lte[k])} {lst(orient[k])}']
        rep = ctx.driver.ask_many(lines)
        for k in range(n):
            ci = {'row': before[k].tolist()}
            if reply_rats(rep[4 * k]) != fr(A[k]):
                ctx.disagree('matrix handed to eigh by convert_lte_global2local', ci, A[k].tolist(), rep[4 * k][:200])
                break
            res = [float(x) for x in reply_rats(rep[4 * k + 1])]
            sc = max(float(np.abs(A[k]).max()), 1e-300)
            if max(abs(x) for x in res[:9]) > 1e-12 * sc or max(abs(x) for x in res[9:18]) > 1e-12 or res[18] != 1:
                ctx.disagree('eigh post-condition (hypothesis of the theorems) does not hold numerically', ci, res, 'residual <= 1e-12')
                break
            g = reply_rats(rep[4 * k + 2])
            if g[:3] != fr(lte[k]) or g[4:] != fr(orient[k]):
                ctx.disagree('convert_lte_global2local stored values', ci, {'lte': lte[k].tolist(), 'orient': orient[k].tolist()},
                             [str(x) for x in g])
                break
            l2g = np.array([float(x) for x in reply_rats(rep[4 * k + 3])[1:]])
            if l2g.shape != back[k].shape or not np.all(np.abs(l2g - back[k]) <= 1e-13 * scale[k]):
                ctx.disagree('convert_lte_local2global', ci, back[k].tolist(), l2g.tolist())
                break
        ctx.count('compared:lte tensors', n)
    return fails


def build_sparse(spec):
    """spec: {'shape', 'fmt', 'entries': [[i, j, v], ...] in stored order}; CSR built from raw arrays keeps explicit zeros
    and the stored (possibly unsorted) column order"""
    r, c = spec['shape']
    ent = spec['entries']
    if spec['fmt'] == 'coo':
        return sp.coo_matrix(([e[2] for e in ent], ([e[0] for e in ent], [e[1] for e in ent])), shape=(r, c), dtype=float)
    indptr, indices, data = [0], [], []
    for i in range(r):
        for e in ent:
            if e[0] == i:
                indices.append(e[1])
                data.append(e[2])
        indptr.append(len(indices))
    return sp.csr_matrix((np.array(data, dtype=float), np.array(indices, dtype=np.int32), np.array(indptr, dtype=np.int32)), shape=(r, c))


def check_align(ctx, case):
    from femio import functions as fn
    fails = []
    mats = [build_sparse(s) for s in case['mats']]
    r, c = case['mats'][0]['shape']
    for s_ in case['mats']:      # hypothesis hwf of the theorem
        cells_ = [(e[0], e[1]) for e in s_['entries']]
        assert len(set(cells_)) == len(cells_) and all(0 <= i < r and 0 <= j < c for i, j in cells_)
    snap = [(m.tocoo().row.copy(), m.tocoo().col.copy(), m.data.copy(), m.toarray()) for m in mats]
    out = fn.align_nnz(mats)
    # (scipy canonicalises unsorted inputs in place when adding; the property does not claim anything about the
    #  representation of the inputs, only the values are compared)
    for m, (row, col, data, dense) in zip(mats, snap):
        if not np.array_equal(m.toarray(), dense):
            ctx.count('note:align_nnz changed the value of an input')
    allv = [0.0] if any(len(s['entries']) < r * c for s in case['mats']) else []
    allv += [e[2] for s in case['mats'] for e in s['entries']]
    D = abs(min(allv)) * 2 + 1
    union = sorted({(e[0], e[1]) for s in case['mats'] for e in s['entries']})
    pats = []
    for o in out:
        o = o.tocsr()
        pats.append([(i, int(j)) for i in range(r) for j in o.indices[o.indptr[i]:o.indptr[i + 1]]])
    if len(out) != len(mats) or any(p != union for p in pats):
        fails.append(('align:pattern', 'aligned matrices do not share the union pattern of the inputs',
                      {'union': union, 'patterns': pats, 'mats': case['mats']}))
    for o, (_, _, _, dense), s in zip(out, snap, case['mats']):
        if o.shape != dense.shape or not np.all(np.abs(o.toarray() - dense) <= 1e-12 * D):
            fails.append(('align:values', 'aligned matrix differs from its input',
                          {'input': dense.tolist(), 'output': o.toarray().tolist(), 'D': D, 'mats': case['mats']}))
            break
    if ctx.driver is not None:
        toks = ['c17.align', str(r * c), str(len(case['mats']))]
        for s in case['mats']:
            toks.append(str(len(s['entries'])))
            for e in s['entries']:
                toks += [str(e[0]), str(e[1]), C.enc_rat(float(e[2]))]
        t = C.Toks(ctx.driver.ask(' '.join(toks))[3:])
        mD = t.rat()
        mm = t.lst(lambda: t.lst(lambda: (t.nat(), t.nat(), t.rat())))
        if abs(float(mD) - D) > 4e-16 * D:        # the real D is rounded once more than the exact one
            ctx.disagree('align_nnz dummy scale', case, D, str(mD))
        else:
            for o, mo in zip(out, mm):
                o = o.tocsr()
                real = [(i, int(j), float(v)) for i in range(r)
                        for j, v in zip(o.indices[o.indptr[i]:o.indptr[i + 1]], o.data[o.indptr[i]:o.indptr[i + 1]])]
                if [(i, j) for i, j, _ in real] != [(i, j) for i, j, _ in mo] or any(
                        abs(a[2] - float(b[2])) > 1e-12 * D for a, b in zip(real, mo)):
                    ctx.disagree('align_nnz output', case, real, [(i, j, str(v)) for i, j, v in mo])
                    break
        ctx.count('compared:align_nnz matrices', len(mats))
    return fails


def guarded(f, ctx, case):
    """an exception raised inside femio on an input of the quantifier is a failure of the property (the helpers are
    total on these inputs); an exception of the harness itself is re-raised"""
    import traceback
    try:
        return f(ctx, case)
    except Exception as e:
        frames = traceback.extract_tb(e.__traceback__)
        if any('/femio/' in fr.filename for fr in frames):
            where = [fr for fr in frames if '/femio/' in fr.filename][-1]
            return [(f'raises:{where.name}:{type(e).__name__}', f'{where.name} raises {type(e).__name__}: {e}',
                     {'line': where.lineno})]
        raise


CHECKS = {'arrmat': check_arrmat, 'principal': check_principal, 'strain': check_strain, 'lte': check_lte, 'align': check_align}


# ------------------------------------------------------------------ generation

def gen_align(rnd):
    r, c = rnd.randint(1, 6), rnd.randint(1, 6)
    k = rnd.randint(1, 4)
    fmt = rnd.choice(['csr', 'csr', 'coo'])
    mats = []
    sign = rnd.choice(['mixed', 'mixed', 'positive', 'negative'])
    for _ in range(k):
        dens = rnd.choice([0.0, .2, .5, .8, 1.0])
        cells = [(i, j) for i in range(r) for j in range(c) if rnd.random() < dens or dens == 1.0]
        if fmt == 'csr' and rnd.random() < .4:
            rnd.shuffle(cells)           # unsorted column order inside the rows
        ent = []
        for (i, j) in cells:
            v = rnd.choice([float(rnd.randint(1, 9)), rnd.randint(1, 2**20) / 2.0**rnd.randint(0, 12), round(rnd.uniform(0, 100), 6) + .5])
            if sign == 'negative' or (sign == 'mixed' and rnd.random() < .5):
                v = -v
            if fmt == 'csr' and rnd.random() < .08:
                v = 0.0                  # explicit zero
            ent.append([i, j, v])
        mats.append({'shape': [r, c], 'fmt': fmt, 'entries': ent})
    return {'mats': mats}


def run(ctx):
    rnd = ctx.rng
    perms = list(itertools.permutations(range(6)))
    if ctx.quick:
        orders = [tuple(range(6)), tuple(reversed(range(6)))] + rnd.sample(perms, 58)
    else:
        orders = perms

    def record(kind, case, fails, key, sample, nontrivial=True):
        if callable(fails):
            fails = guarded(fails, ctx, case)
        ctx.case((kind, key), sample=sample, nontrivial=nontrivial)
        ctx.count(f'helper:{kind}')
        for sig, what, obs in fails:
            ctx.fail(sig, what, {'kind': kind, **case}, obs)

    # 1. array <-> matrix for every order x both conventions
    for order in orders:
        for eng in (False, True):
            a, ts, kinds = batch(rnd, order, eng)
            a, layout = layouts(rnd, a)
            case = {'a': a.tolist(), 'order': list(order), 'eng': eng, 'layout': layout}
            record('arrmat', case, check_arrmat, (a.tobytes(), order, eng), {'order': list(order), 'eng': eng, 'a': a.tolist()[:2], 'layout': layout},
                   nontrivial=bool(np.any(a)))
            ctx.count(f'layout:{layout}')
            for k in kinds:
                ctx.count(f'tensor:{k}')
    # 1b. integer-valued arrays stored with an integer dtype (labelled stream)
    for _ in range(ctx.n(6, 40)):
        order = rnd.choice(orders)
        eng = rnd.random() < .7
        a = np.array([[rnd.randint(-9, 9) for _ in range(6)] for _ in range(rnd.randint(1, 3))])
        case = {'a': a.tolist(), 'order': list(order), 'eng': eng, 'layout': 'C', 'dtype': 'int'}
        record('arrmat', case, check_arrmat, ('int', a.tobytes(), order, eng), None)
        ctx.count('stream:int-dtype')
    # 2. principal components / array_from_eigens
    for order in rnd.sample(orders, ctx.n(60, 300)):
        for eng in (False, True):
            a, ts, kinds = batch(rnd, order, eng)
            case = {'a': a.tolist(), 'order': list(order), 'eng': eng}
            record('principal', case, check_principal, (a.tobytes(), order, eng),
                   {'order': list(order), 'eng': eng, 'a': a.tolist()[:2], 'kinds': kinds}, nontrivial=bool(np.any(a)))
    # 3. invert_strain (default order only: the function has no order option)
    for _ in range(ctx.n(120, 500)):
        eng = rnd.random() < .5
        a, ts, kinds = batch(rnd, tuple(range(6)), eng, strain=True)
        case = {'a': a.tolist(), 'eng': eng}
        record('strain', case, check_strain, (a.tobytes(), eng), {'eng': eng, 'a': a.tolist()[:2], 'kinds': kinds},
               nontrivial=bool(np.any(a)))
    # 4. lte global -> local -> global
    for _ in range(ctx.n(40, 200)):
        a, ts, kinds = batch(rnd, tuple(range(6)), True)
        case = {'f': a.tolist()}
        record('lte', case, check_lte, a.tobytes(), {'f': a.tolist()[:2], 'kinds': kinds}, nontrivial=bool(np.any(a)))
    # 5. align_nnz
    for _ in range(ctx.n(300, 1500)):
        case = gen_align(rnd)
        record('align', case, check_align, repr(case), {'mats': case['mats'][:2]},
               nontrivial=any(s['entries'] for s in case['mats']))
        ctx.count(f'align:fmt={case["mats"][0]["fmt"]}')
        ctx.count(f'align:k={len(case["mats"])}')
    # 6. invert_strain on near-singular strains (principal stretch 1 + l = 1e-7 .. 5e-6), linear tolerance; drawn last so
    #    that the cases of the streams above are unchanged for a given seed
    for _ in range(ctx.n(200, 1000)):
        eng = rnd.random() < .5
        a, kinds = near_singular_batch(rnd, eng)
        case = {'a': a.tolist(), 'eng': eng, 'tol': 'linear'}
        record('strain', case, check_strain, ('ns', a.tobytes(), eng), None)
        ctx.count('stream:strain:near-singular')
        ctx.count(f'stream:strain:near-singular:{"engineering" if eng else "tensor"}')
        for k in kinds:
            if k.startswith('near-singular-strain'):
                ctx.count('strain:' + k)
    ctx.extra['orders'] = len(orders)


def replay(ctx, obj):
    case = dict(obj['input'])
    kind = case.pop('kind')
    fails = guarded(CHECKS[kind], ctx, case)
    return {'fails': bool(fails), 'failures': [{'signature': s, 'what': w, 'observed': o} for s, w, o in fails]}
